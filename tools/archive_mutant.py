#!/usr/bin/env python3
# usage: archive_mutant.py <prop> <name> <src dir> <confirm line> <detected: yes|no|partial> <detected-by text>
import sys, os, shutil, json
prop, name, src, confirm, detected, by = sys.argv[1:7]
dst = f'/verif/seeded/{prop}-{name}'
os.makedirs(dst, exist_ok=True)
for f in ('patch.diff', 'demo_test.go', 'README.md'):
    if os.path.exists(os.path.join(src, f)):
        shutil.copy(os.path.join(src, f), os.path.join(dst, f if f != 'demo_test.go' else 'demo_test.go.txt'))
needs = ''
rd = os.path.join(src, 'README.md')
if os.path.exists(rd):
    needs = open(rd).read()[:1500]
json.dump({'property': prop, 'source': 'independent sub-agent given only the property text and a scratch worktree',
           'needs_to_manifest': needs, 'confirmed': confirm, 'detected_by_check': detected, 'detection': by},
          open(os.path.join(dst, 'meta.json'), 'w'), indent=1)
print('archived', dst)
