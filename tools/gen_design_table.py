#!/usr/bin/env python3
# Regenerates the detection table of DESIGN.md §7.6 from seeded/RESULTS.tsv (between the markers).
import re
rows=[l.rstrip('\n').split('\t') for l in open('/verif/seeded/RESULTS.tsv') if l.strip()]
tab=["<!-- detection-table:begin -->","| change | result | by |","|---|---|---|"]
for r in rows:
    while len(r)<4: r.append('')
    tab.append(f"| {r[0]}-{r[1]} | {r[2]} | {r[3].replace('|','/')} |")
n=len(rows); c=sum(1 for r in rows if r[2].startswith('caught')); m=sum(1 for r in rows if r[2]=='missed')
tab.append("")
tab.append(f"{n} confirmed changes: {c} caught, {m} missed, {n-c-m} not run against a check.")
tab.append("<!-- detection-table:end -->")
p='/verif/DESIGN.md'
s=open(p).read()
if '@@TABLE@@' in s:
    s=s.replace('@@TABLE@@','\n'.join(tab))
else:
    s=re.sub(r'<!-- detection-table:begin -->.*?<!-- detection-table:end -->','\n'.join(tab).replace('\\','\\\\'),s,flags=re.S)
open(p,'w').write(s)
