#!/bin/sh
# usage: try_mutant.sh <property> <patch.diff> [tier] ; applies the patch to /repo, runs the check, reverts.
prop="$1"; patch="$2"; tier="${3:-quick}"
cd /repo || exit 2
if ! git diff --quiet; then echo "repo dirty"; exit 2; fi
git apply "$patch" || { echo "patch does not apply"; exit 2; }
cd /verif
./check.sh "$prop" "$tier" > /tmp/mutant_$prop.log 2>&1
rc=$?
cd /repo && git checkout -- . && git clean -fdq
echo "exit=$rc"
grep -E "^VIOLATION|^KNOWN|^RESULT|^harness|^INCONCLUSIVE" /tmp/mutant_$prop.log | cut -c1-300
