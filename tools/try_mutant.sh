#!/bin/sh
# usage: try_mutant.sh <property> <patch.diff> [tier] ; applies the patch to /repo, runs the check, reverts.
# The evidence file and replays of the unchanged tree are saved and restored: evidence
# committed under /verif must always describe a run on the unchanged tree.
prop="$1"; patch="$2"; tier="${3:-quick}"
cd /repo || exit 2
if ! git diff --quiet; then echo "repo dirty"; exit 2; fi
git apply "$patch" || { echo "patch does not apply"; exit 2; }
cd /verif
sav=$(mktemp -d /tmp/vfsave.XXXXXX)
[ -f evidence/$prop.json ] && cp evidence/$prop.json $sav/
[ -d replays/$prop ] && cp -r replays/$prop $sav/replays
./check.sh "$prop" "$tier" > /tmp/mutant_$prop.log 2>&1
rc=$?
[ -f $sav/$prop.json ] && cp $sav/$prop.json evidence/$prop.json
rm -rf replays/$prop; [ -d $sav/replays ] && cp -r $sav/replays replays/$prop
rm -rf $sav
cd /repo && git checkout -- . && git clean -fdq
echo "exit=$rc"
grep -E "^VIOLATION|^KNOWN|^RESULT|^harness|^INCONCLUSIVE" /tmp/mutant_$prop.log | cut -c1-300
