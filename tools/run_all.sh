#!/bin/sh
# usage: run_all.sh [tier] -- runs every registered check sequentially, prints verdict lines and times
tier="${1:-quick}"
cd /verif
mkdir -p /tmp/qlogs
for p in $(python3 -c "import json;print(' '.join(c['property_id'] for c in json.load(open('/verif/MANIFEST.json'))['checks']))"); do
  s=$(date +%s)
  ./check.sh $p $tier > /tmp/qlogs/$p.$tier.log 2>&1; rc=$?
  e=$(date +%s)
  echo "$p exit=$rc $((e-s))s $(grep -a '^RESULT\|^VIOLATION' /tmp/qlogs/$p.$tier.log | head -2 | tr '\n' ' ')"
  grep -a '^harness' /tmp/qlogs/$p.$tier.log | grep -v ' pass ' | cut -c1-250
done
