#!/bin/sh
# usage: confirm_mutant.sh <worktree> <mutant dir>   -- confirms: patch applies+builds, touched package tests pass,
# demo fails with patch, passes without. Prints a one-line summary and writes confirm.log into the mutant dir.
wt="$1"; md="$2"
export GOFLAGS=-mod=mod GOPROXY=off
cd "$wt" || exit 2
git checkout -q -- . && git clean -fdq
pkgdir="$3"
[ -z "$pkgdir" ] && pkgdir=$(grep -oE 'go test[^|]* \./((pkg|cli|internal)/[a-zA-Z0-9_/]+)' "$md/demo_test.go" "$md/README.md" 2>/dev/null | head -1 | grep -oE '(pkg|cli|internal)/[a-zA-Z0-9_/]+' | sed 's#/*$#/#')
[ -z "$pkgdir" ] && pkgdir=$(grep -oE 'pkg/[a-zA-Z0-9_/]+/' "$md/demo_test.go" | head -1)
[ -z "$pkgdir" ] && pkgdir=$(grep -oE '(pkg|cli|internal)/[a-zA-Z0-9_/]+' "$md/demo_test.go" | head -1)/
runpat=$(grep -oE "\-run '?[A-Za-z0-9_^$|]+'?" "$md/demo_test.go" | head -1 | sed "s/-run //; s/'//g")
log="$md/confirm.log"; : > "$log"
cp "$md/demo_test.go" "$wt/${pkgdir}zz_demo_test.go"
go test -count=1 -run "$runpat" "./$pkgdir" >> "$log" 2>&1; base=$?
git apply "$md/patch.diff" >> "$log" 2>&1 || { echo "APPLY-FAIL $md"; git checkout -q -- . ; git clean -fdq; exit 1; }
go build ./... >> "$log" 2>&1; build=$?
go test -count=1 -run "$runpat" "./$pkgdir" >> "$log" 2>&1; withp=$?
rm -f "$wt/${pkgdir}zz_demo_test.go"
touched=$(git diff --name-only | xargs -n1 dirname | sort -u | sed 's#^#./#' | tr '\n' ' ')
go test -count=1 -skip '^TestUT$' $touched >> "$log" 2>&1; tests=$?
git checkout -q -- . && git clean -fdq
echo "$md: demo-without=$base(want 0) build=$build demo-with=$withp(want!=0) touched-pkg-tests=$tests(want 0) pkgs=[$touched] run=$runpat dir=$pkgdir"
