#!/bin/sh
# usage: check.sh <property> <quick|thorough> [extra gosym flags]
# Rebuilds the engine if needed, regenerates the encoding from /repo's working tree and runs the property's harnesses.
set -e
cd /verif
export GOFLAGS=-mod=mod GOPROXY=off
unset GOTOOLCHAIN GOSUMDB
if [ ! -x bin/gosym ] || [ -n "$(find engine -newer bin/gosym -name '*.go' 2>/dev/null | head -1)" ]; then
  (cd engine && go build -o /verif/bin/gosym .)
fi
prop="$1"; tier="$2"; shift 2
if [ "$prop" = "C14" ]; then
  # regenerate bytecode, manifest and debug info of the corpus with /repo's current compiler
  mkdir -p work
  echo '{"Replace":{"/repo/internal/vfc14gen/main.go":"/verif/tools/c14gen/main.go"}}' > work/c14gen_overlay.json
  if ! (cd /repo && go run -overlay /verif/work/c14gen_overlay.json ./internal/vfc14gen /verif/harness/C14/corpus/corpus.go /verif/harness/C14/zz_data.go /verif/harness/C14/zz_corpus.go) > work/c14gen.log 2>&1; then
    echo "INCONCLUSIVE property=C14 reason=the current compiler does not build or does not compile the corpus: $(head -c 300 work/c14gen.log | tr '\n' ' ')"
    bin/gosym evidence-inconclusive C14 "$tier" "corpus compilation failed" 2>/dev/null || true
    exit 0
  fi
fi
exec bin/gosym check "$prop" -tier "$tier" "$@"
