#!/bin/sh
# usage: check.sh <property> <quick|thorough> [extra gosym flags]
# Rebuilds the engine if needed, regenerates the encoding from /repo's working tree and runs the property's harnesses.
set -e
cd /verif
export GOFLAGS=-mod=mod GOPROXY=off
unset GOTOOLCHAIN GOSUMDB
if [ ! -x bin/gosym ] || [ -n "$(find engine -newer bin/gosym -name '*.go' 2>/dev/null | head -1)" ]; then
  (cd engine && go build -o /verif/bin/gosym .)
fi
prop="$1"; tier="$2"; shift 2
exec bin/gosym check "$prop" -tier "$tier" "$@"
