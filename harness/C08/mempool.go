//vf:pkg pkg/core/mempool
package mempool

import (
	"math/big"

	"github.com/nspcc-dev/neo-go/pkg/core/native/nativehashes"
	"github.com/nspcc-dev/neo-go/pkg/core/transaction"
	"github.com/nspcc-dev/neo-go/pkg/util"
)

// C08: memory pool invariants after every operation, for pools built by the real API.

var vfAccA = util.Uint160{0xA}
var vfAccB = util.Uint160{0xB}

type vfFeer struct {
	balA, balB   uint64 // ordinary GAS balances of A and B
	depA, depB   uint64 // notary deposits of A and B
	feePerByte   int64
	height       uint32
}

func (f *vfFeer) FeePerByte() int64  { return f.feePerByte }
func (f *vfFeer) BlockHeight() uint32 { return f.height }
func (f *vfFeer) bal(p payer) uint64 {
	switch {
	case p.primary == vfAccA:
		return f.balA
	case p.primary == vfAccB:
		return f.balB
	case p.primary == nativehashes.Notary && p.secondary == vfAccA:
		return f.depA
	case p.primary == nativehashes.Notary && p.secondary == vfAccB:
		return f.depB
	}
	return 0
}
func (f *vfFeer) GetUtilityTokenBalance(primary, secondary util.Uint160) *big.Int {
	return new(big.Int).SetUint64(f.bal(payer{primary, secondary}))
}

func vfMakeFeer() *vfFeer {
	// 32-bit symbolic amounts (zero-extended): all sums of a few of them fit comfortably in 64 bits
	return &vfFeer{balA: uint64(vfU32("balA")), balB: uint64(vfU32("balB")), depA: uint64(vfU32("depA")), depB: uint64(vfU32("depB"))}
}

type vfTx struct {
	tx        *transaction.Transaction
	hash      util.Uint256
	payer     payer
	high      bool
	hasConfl  bool
	confl     util.Uint256
	hasOracle bool
	oracleID  uint64
	fee       uint64
	size      int
}

// Transaction identities are concrete and pairwise distinct (slot number); what a Conflicts
// attribute names is a case split over every offered transaction and one foreign hash.
func vfHashN(n int) (h util.Uint256) {
	h[0] = byte(n)
	h[31] = 1 // never the zero hash (NewFakeTX treats zero as "not hashed")
	return
}

var vfSlot int

// vfMode restricts the case split: 0 = everything, 1 = notary-sponsored senders and
// none/Conflicts attributes only (the scenario family of the sponsored-fee accounting).
var vfMode int

// vfMakeTx builds a fake transaction with symbolic fees and attributes.
func vfMakeTx(tag string) *vfTx {
	t := &vfTx{}
	vfSlot++
	t.hash = vfHashN(vfSlot)
	var signers []transaction.Signer
	lo, hi := 0, 3
	if vfSlot == 1 {
		// A and B are interchangeable: the first transaction's payer is A or (Notary, A) w.l.o.g.
		lo, hi = 0, 1
	}
	if vfMode == 1 {
		lo, hi = 2, 3
		if vfSlot == 1 {
			lo, hi = 0, 0
		}
	}
	if vfMode == 2 {
		lo, hi = 0, 1 // ordinary senders only
	}
	snd := vfChoose(tag+".sender", lo, hi)
	if vfMode != 2 && (vfSlot == 1 || (vfMode == 1 && vfSlot == 1)) {
		snd *= 2 // 0 -> A, 1 -> (Notary, A)
	}
	if vfMode == 1 && vfSlot == 1 {
		snd = 2
	}
	switch snd {
	case 0:
		t.payer = payer{primary: vfAccA}
		signers = []transaction.Signer{{Account: vfAccA}}
	case 1:
		t.payer = payer{primary: vfAccB}
		signers = []transaction.Signer{{Account: vfAccB}}
	case 2:
		t.payer = payer{primary: nativehashes.Notary, secondary: vfAccA}
		signers = []transaction.Signer{{Account: nativehashes.Notary}, {Account: vfAccA}}
	case 3:
		t.payer = payer{primary: nativehashes.Notary, secondary: vfAccB}
		signers = []transaction.Signer{{Account: nativehashes.Notary}, {Account: vfAccB}}
	}
	if vfMode == 2 && snd < 2 && vfSlot >= 2 && vfBool(tag+".cosigned") {
		// the other ordinary account co-signs (it does not pay)
		other := vfAccB
		if snd == 1 {
			other = vfAccA
		}
		signers = append(signers, transaction.Signer{Account: other})
	}
	t.size = 1 << uint(vfSlot) // distinct sizes 2, 4, 8, ...: fee-per-byte order differs from network-fee order
	tx := transaction.NewFakeTX([]byte{0x40}, signers[0], t.hash, t.size)
	tx.Signers = signers
	tx.SystemFee = int64(vfU32(tag + ".sysfee"))
	tx.NetworkFee = int64(vfU32(tag + ".netfee"))
	t.fee = uint64(tx.SystemFee + tx.NetworkFee)
	ahi := 3
	if vfMode == 1 || vfMode == 2 {
		ahi = 1
	}
	at := vfChoose(tag+".attr", 0, ahi)
	if (vfMode == 1 || vfMode == 2) && at == 1 {
		at = 2
	}
	switch at {
	case 1:
		t.high = true
		tx.Attributes = []transaction.Attribute{{Type: transaction.HighPriority}}
	case 2:
		t.hasConfl = true
		t.confl = vfHashN(vfChoose(tag+".confl", 1, 4)) // slots 1..3 are offered transactions, 4 is foreign
		vfAssume(t.confl != t.hash)                     // a transaction cannot name its own hash
		tx.Attributes = []transaction.Attribute{{Type: transaction.ConflictsT, Value: &transaction.Conflicts{Hash: t.confl}}}
	case 3:
		t.hasOracle = true
		t.oracleID = uint64(vfChoose(tag+".oracle", 0, 1))
		tx.Attributes = []transaction.Attribute{{Type: transaction.OracleResponseT, Value: &transaction.OracleResponse{ID: t.oracleID}}}
	}
	t.tx = tx
	return t
}

// vfPrio is the documented pool order: high-priority first, then fee per byte, then network fee.
func vfPrioGE(a, b *vfTx) bool {
	if a.high != b.high { // concrete per path
		return a.high
	}
	fa, fb := a.tx.NetworkFee/int64(a.size), b.tx.NetworkFee/int64(b.size)
	return vfOr(fa > fb, vfAnd(fa == fb, a.tx.NetworkFee >= b.tx.NetworkFee))
}

func vfFind(all []*vfTx, h util.Uint256) *vfTx {
	for _, t := range all {
		if t.hash == h {
			return t
		}
	}
	return nil
}

var vfPayers = []payer{{primary: vfAccA}, {primary: vfAccB}, {primary: nativehashes.Notary, secondary: vfAccA}, {primary: nativehashes.Notary, secondary: vfAccB}}

// vfCheckInv asserts the pool invariants; all lists every transaction ever offered.
// Clauses are accumulated without branching (vfAnd) and asserted once each.
func vfCheckInv(mp *Pool, f *vfFeer, all []*vfTx, cap int) {
	n := len(mp.verifiedTxes)
	vfAssert(n <= cap, "len<=capacity")
	vfAssert(len(mp.verifiedMap) == n, "map-size==list-size")
	var pooled []*vfTx
	for i := 0; i < n; i++ {
		h := mp.verifiedTxes[i].txn.Hash()
		t := vfFind(all, h)
		vfAssert(t != nil && t.tx == mp.verifiedTxes[i].txn, "list-entry-is-offered-tx")
		if t == nil {
			return
		}
		m, ok := mp.verifiedMap[h]
		vfAssert(ok && m == t.tx, "list-entry-in-map")
		for _, p := range pooled {
			vfAssert(p.hash != t.hash, "no-duplicate-hash")
		}
		pooled = append(pooled, t)
	}
	sorted := true
	for i := 0; i+1 < len(pooled); i++ {
		sorted = vfAnd(sorted, vfPrioGE(pooled[i], pooled[i+1]))
	}
	vfAssert(sorted, "sorted-by-priority")
	// solvency per payer
	sumsOK, solvent, recOK := true, true, true
	for _, p := range vfPayers {
		var sum uint64
		for _, t := range pooled {
			if t.payer == p {
				sum += t.fee
			}
		}
		rec, ok := mp.fees[p]
		if ok {
			sumsOK = vfAnd(sumsOK, vfAnd(rec.feeSum.IsUint64(), rec.feeSum.Uint64() == sum))
		} else {
			recOK = vfAnd(recOK, sum == 0)
		}
		solvent = vfAnd(solvent, sum <= f.bal(p))
	}
	vfAssert(sumsOK, "feeSum==sum-of-pooled-fees")
	vfAssert(recOK, "payer-with-pooled-tx-has-fee-record")
	vfAssert(solvent, "pooled-fees<=balance")
	// conflicts
	for _, t := range pooled {
		if t.hasConfl {
			vfAssert(vfFind(pooled, t.confl) == nil, "no-pooled-tx-named-by-pooled-Conflicts")
			hs, ok := mp.conflicts[t.confl]
			found := false
			for _, h := range hs {
				if h == t.hash {
					found = true
				}
			}
			vfAssert(ok && found, "conflicts-index-has-holder")
		}
	}
	for k, hs := range mp.conflicts {
		vfAssert(len(hs) > 0, "conflicts-index-no-empty-entry")
		for _, h := range hs {
			t := vfFind(pooled, h)
			vfAssert(t != nil && t.hasConfl && t.confl == k, "conflicts-index-entry-is-pooled-holder")
		}
	}
	// oracle responses
	for i, t := range pooled {
		if t.hasOracle {
			for _, u := range pooled[i+1:] {
				vfAssert(!(u.hasOracle && u.oracleID == t.oracleID), "one-response-per-oracle-id")
			}
			h, ok := mp.oracleResp[t.oracleID]
			vfAssert(ok && h == t.hash, "oracle-index-has-pooled-response")
		}
	}
	for id, h := range mp.oracleResp {
		t := vfFind(pooled, h)
		vfAssert(t != nil && t.hasOracle && t.oracleID == id, "oracle-index-entry-is-pooled")
	}
}

type vfSnap struct {
	order  []util.Uint256
	sums   [4]uint64
	has    [4]bool
	nconfl int
	norac  int
}

func vfSnapshot(mp *Pool) (s vfSnap) {
	for i := range mp.verifiedTxes {
		s.order = append(s.order, mp.verifiedTxes[i].txn.Hash())
	}
	for i, p := range vfPayers {
		if r, ok := mp.fees[p]; ok {
			s.has[i] = true
			s.sums[i] = r.feeSum.Uint64()
		}
	}
	for _, hs := range mp.conflicts {
		s.nconfl += len(hs)
	}
	s.norac = len(mp.oracleResp)
	return
}

func vfSameSnap(a, b vfSnap) bool {
	if len(a.order) != len(b.order) || a.nconfl != b.nconfl || a.norac != b.norac {
		return false
	}
	for i := range a.order {
		if a.order[i] != b.order[i] {
			return false
		}
	}
	same := true
	for i := range a.sums {
		// a balance record may be cached by a failed call; the fee sum may not change
		same = vfAnd(same, a.sums[i] == b.sums[i])
	}
	return same
}

// vfDistinct states what hashing guarantees about the offered transactions: a Conflicts
// attribute holds the hash of a transaction that existed when the holder was created, so
// the "names" relation between transactions has no cycles (a cycle would be a SHA-256 cycle).
func vfDistinct(ts []*vfTx) {
	names := func(a, b *vfTx) bool { return a.hasConfl && a.confl == b.hash }
	for _, a := range ts {
		for _, b := range ts {
			if a == b {
				continue
			}
			vfAssume(!(names(a, b) && names(b, a)))
			for _, c := range ts {
				if c == a || c == b {
					continue
				}
				vfAssume(!(names(a, b) && names(b, c) && names(c, a)))
			}
		}
	}
}

// vfKnownSelfCompare is the signature of a recorded finding: a notary-sponsored transaction
// replaces (through a Conflicts relation) a transaction sponsored by another depositor.
func vfCrossDepositorConflict(nw *vfTx, pre []*vfTx) bool {
	if nw.payer.primary != nativehashes.Notary {
		return false
	}
	for _, t := range pre {
		if t.payer.primary == nativehashes.Notary && t.payer.secondary != nw.payer.secondary {
			if (nw.hasConfl && nw.confl == t.hash) || (t.hasConfl && t.confl == nw.hash) {
				return true
			}
		}
	}
	return false
}

func vfRun(cap, k, mode int) {
	vfSlot = 0
	vfMode = mode
	f := vfMakeFeer()
	mp := New(cap, false, nil)
	var all []*vfTx
	for i := 0; i < k; i++ {
		t := vfMakeTx("pre")
		all = append(all, t)
		vfDistinct(all)
		_ = mp.Add(t.tx, f)
	}
	vfCover("pre-state-built")
	switch vfChoose("op", 0, 2) {
	case 0: // Add
		nw := vfMakeTx("new")
		all = append(all, nw)
		vfDistinct(all)
		before := vfSnapshot(mp)
		nBefore := len(mp.verifiedTxes)
		var last *vfTx
		if nBefore > 0 {
			last = vfFind(all, mp.verifiedTxes[nBefore-1].txn.Hash())
		}
		vfKnown("notary-conflict-other-depositor-fee", vfCrossDepositorConflict(nw, all[:k]))
		namedByPooled := mp.conflicts[nw.hash] != nil
		err := mp.Add(nw.tx, f)
		if err != nil {
			vfAssert(vfSameSnap(before, vfSnapshot(mp)), "failed-Add-leaves-pool-unchanged")
			vfAssert(!mp.containsKey(nw.hash), "failed-Add-not-pooled")
		} else {
			vfAssert(mp.containsKey(nw.hash), "successful-Add-pooled")
			// eviction: if the pool was full and nothing conflicted, only the former minimum may be gone
			if nBefore == cap && last != nil && !nw.hasConfl && !nw.hasOracle && !namedByPooled {
				for _, t := range all[:k] {
					if vfFind(all, t.hash) != nil && t != last && before.order != nil {
						was := false
						for _, h := range before.order {
							if h == t.hash {
								was = true
							}
						}
						if was {
							vfAssert(mp.containsKey(t.hash), "evicts-only-lowest-priority")
						}
					}
				}
			}
		}
	case 1: // Remove
		h := vfHashN(vfChoose("rm.hash", 1, 4))
		mp.Remove(h)
		vfAssert(!mp.containsKey(h), "removed-not-pooled")
	case 2: // RemoveStale with changed balances and an arbitrary keep-set
		f2 := vfMakeFeer()
		keepMask := vfU8("keep")
		mp.RemoveStale(func(tx *transaction.Transaction) bool {
			h := tx.Hash()
			return keepMask>>(h[0]&7)&1 == 1
		}, f2)
		f = f2
	}
	vfCheckInv(mp, f, all, cap)
}

//vf:tier thorough
//vf:unwind 64
//vf:bound pool capacity 2, pre-state = any pool reachable by 2 Add calls, then one Add/Remove/RemoveStale; 3 payer kinds (A, B, Notary sponsored by A or B); sizes 2,4,8 bytes by slot; fees and balances any 32-bit value; at most one attribute per transaction
//vf:assume a Conflicts attribute never names the transaction's own hash and the names-relation between offered transactions is acyclic (a cycle needs a SHA-256 cycle); Feer answers are constant during one operation
func VF_C08_pool_cap2_k2() { vfRun(2, 2, 0) }

//vf:tier thorough
//vf:unwind 64
//vf:bound pool capacity 3 with 2 pre-added transactions, and capacity 2 with 3
func VF_C08_pool_cap3_k2() { vfRun(3, 2, 0) }

//vf:tier thorough
//vf:unwind 64
func VF_C08_pool_cap2_k3() { vfRun(2, 3, 0) }

//vf:tier quick
//vf:unwind 64
//vf:bound capacity 1, one pre-added transaction
func VF_C08_pool_cap1_k1() { vfRun(1, 1, 0) }

//vf:tier quick
//vf:unwind 64
//vf:bound capacity 2 and 3, two pre-added transactions, all three notary-sponsored (depositor A or B), attributes none or Conflicts; one Add/Remove/RemoveStale
func VF_C08_pool_notary_cap2_k2() { vfRun(2, 2, 1) }

//vf:tier thorough
//vf:unwind 64
func VF_C08_pool_notary_cap3_k2() { vfRun(3, 2, 1) }

//vf:tier thorough
//vf:unwind 64
//vf:bound capacity 2 and 3, two pre-added transactions, ordinary senders A or B, every transaction but the first optionally co-signed by the other account (which does not pay), attributes none or Conflicts; one Add/Remove/RemoveStale
func VF_C08_pool_cosigned_cap2_k2() { vfRun(2, 2, 2) }
