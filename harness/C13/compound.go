//vf:pkg pkg/vm
package vm

import (
	"math/big"

	"github.com/nspcc-dev/neo-go/pkg/vm/opcode"
)

// C13: compound-type instructions and EQUAL/NOTEQUAL against the reference.

// vhContainer builds a compound item with symbolic content; shared inner items are reachable
// twice to exercise identity (reference semantics of arrays, copy semantics of structs).
func vhContainer(name string) *rvItem {
	// quick tier: shapes 0..4 with one store value kind less (see vhValue); thorough: all
	switch vfChoose(name+"-shape", 0, 4+2*vfTier()) {
	case 0: // array of 0..3 symbolic integers
		return &rvItem{k: rvArray, el: vhInts(name+"-e", vfChoose(name+"-len", 0, 3))}
	case 1: // struct of 0..2 symbolic integers
		return &rvItem{k: rvStruct, el: vhInts(name+"-e", vfChoose(name+"-len", 0, 2))}
	case 2: // array holding the same inner array twice and a struct
		in := &rvItem{k: rvArray, el: vhInts(name+"-in", 1)}
		return &rvItem{k: rvArray, el: []*rvItem{in, in, {k: rvStruct, el: vhInts(name+"-s", 1)}}}
	case 3: // struct holding a struct holding an array
		in := &rvItem{k: rvArray, el: vhInts(name+"-in", 1)}
		return &rvItem{k: rvStruct, el: []*rvItem{{k: rvStruct, el: []*rvItem{in, rvMkBool(vfBool(name + "-b"))}}, rvMkSmall(9)}}
	case 4: // map with two symbolic integer keys (may coincide -> one entry) and a byte string key
		m := &rvItem{k: rvMap}
		ks := []*rvItem{{k: rvInt, n: big.NewInt(vfI64(name + "-k0"))}, {k: rvInt, n: big.NewInt(vfI64(name + "-k1"))}}
		rvMapSet(m, ks[0], rvMkSmall(10))
		rvMapSet(m, ks[1], &rvItem{k: rvStruct, el: vhInts(name+"-v", 1)})
		if vfTier() > 0 {
			rvMapSet(m, rvMkBytes(vfBytes(name+"-bk", 1)), rvMkSmall(30))
		}
		return m
	case 5: // buffer of 0..3 symbolic bytes
		return rvMkBuf(vfBytes(name+"-buf", vfChoose(name+"-len", 0, 3)))
	}
	// byte string of 0..3 symbolic bytes
	return rvMkBytes(vfBytes(name+"-bs", vfChoose(name+"-len", 0, 3)))
}

// vhKey: an operand used as key/index: integers (any), booleans, byte strings, and non-primitive types.
func vhKey(name string) *rvItem {
	switch vfChoose(name+"-kind", 0, 4) {
	case 0:
		return &rvItem{k: rvInt, n: big.NewInt(vfI64(name + "-i64"))}
	case 1:
		return rvMkBool(vfBool(name + "-b"))
	case 2:
		return rvMkBytes(vfBytes(name+"-bytes", vfChoose(name+"-len", 0, 2)))
	case 3:
		return &rvItem{k: rvNull}
	}
	return &rvItem{k: rvArray, el: []*rvItem{}}
}

// vhValue: an item stored into a container.
func vhValue(name string) *rvItem {
	switch vfChoose(name+"-kind", 0, 2+vfTier()) {
	case 0:
		return &rvItem{k: rvInt, n: vfBig(name+"-n", 256)}
	case 1:
		return &rvItem{k: rvStruct, el: []*rvItem{{k: rvStruct, el: vhInts(name+"-in", 1)}, rvMkSmall(4)}}
	case 2:
		return &rvItem{k: rvArray, el: vhInts(name+"-arr", 1)}
	}
	return &rvItem{k: rvNull}
}

//vf:tier quick
//vf:bigint theory
//vf:unwind 120
//vf:wall 300
//vf:bound (quick: without the buffer/byte-string containers and the Null store value) one of PICKITEM SETITEM REMOVE HASKEY APPEND SIZE KEYS VALUES REVERSEITEMS CLEARITEMS POPITEM UNPACK over a container (array/struct of symbolic integers, nested/shared arrays and structs, a three-entry map with symbolic 64-bit integer and byte keys, buffer or byte string of 0..3 bytes) kept twice on the stack so that in-place effects are observed; keys any 64-bit integer, boolean, byte string of 0..2 bytes, Null, Array; stored values integers, nested structs, arrays, Null
func VF_C13_compound_access() {
	c := vhContainer("c")
	var script []byte
	var st []*rvItem
	switch vfChoose("op", 0, 11) {
	case 0:
		script, st = []byte{byte(opcode.PICKITEM)}, []*rvItem{c, c, vhKey("k")}
	case 1:
		script, st = []byte{byte(opcode.SETITEM)}, []*rvItem{c, c, vhKey("k"), vhValue("v")}
	case 2:
		script, st = []byte{byte(opcode.REMOVE)}, []*rvItem{c, c, vhKey("k")}
	case 3:
		script, st = []byte{byte(opcode.HASKEY)}, []*rvItem{c, c, vhKey("k")}
	case 4:
		script, st = []byte{byte(opcode.APPEND)}, []*rvItem{c, c, vhValue("v")}
	case 5:
		script, st = []byte{byte(opcode.SIZE)}, []*rvItem{c}
	case 6:
		script, st = []byte{byte(opcode.KEYS)}, []*rvItem{c, c}
	case 7:
		script, st = []byte{byte(opcode.VALUES)}, []*rvItem{c, c}
	case 8:
		script, st = []byte{byte(opcode.REVERSEITEMS)}, []*rvItem{c, c}
	case 9:
		script, st = []byte{byte(opcode.CLEARITEMS)}, []*rvItem{c, c}
	case 10:
		script, st = []byte{byte(opcode.POPITEM)}, []*rvItem{c, c}
	case 11:
		script, st = []byte{byte(opcode.UNPACK)}, []*rvItem{c}
	}
	rvCompare(append(script, byte(opcode.RET)), st, "compound", 8)
}

//vf:tier quick
//vf:bigint theory
//vf:unwind 120
//vf:bound constructors: NEWARRAY0 NEWSTRUCT0 NEWMAP; NEWARRAY NEWSTRUCT NEWARRAY_T (each defined type byte and an undefined one) with a count that is any 64-bit integer (or one of three larger ones), boolean, byte or Null (counts above 8 cut); PACK PACKSTRUCT PACKMAP with such a count over 0..4 stack items (64-bit integers, a byte string, a Null, an array)
func VF_C13_compound_construct() {
	n := vhIdx("n")
	small := func() {
		if n.k == rvInt {
			vfAssume(n.n.Cmp(big.NewInt(8)) <= 0 || n.n.Cmp(big.NewInt(rvMaxStack)) > 0)
		}
	}
	switch vfChoose("op", 0, 8) {
	case 0:
		rvCompare([]byte{byte(opcode.NEWARRAY0), byte(opcode.RET)}, nil, "NEWARRAY0", 8)
	case 1:
		rvCompare([]byte{byte(opcode.NEWSTRUCT0), byte(opcode.RET)}, nil, "NEWSTRUCT0", 8)
	case 2:
		rvCompare([]byte{byte(opcode.NEWMAP), byte(opcode.RET)}, nil, "NEWMAP", 8)
	case 3:
		small()
		rvCompare([]byte{byte(opcode.NEWARRAY), byte(opcode.RET)}, []*rvItem{n}, "NEWARRAY", 8)
	case 4:
		small()
		rvCompare([]byte{byte(opcode.NEWSTRUCT), byte(opcode.RET)}, []*rvItem{n}, "NEWSTRUCT", 8)
	case 5:
		small()
		t := vhTypes[vfChoose("type", 0, len(vhTypes)-1)]
		rvCompare([]byte{byte(opcode.NEWARRAYT), t, byte(opcode.RET)}, []*rvItem{n}, "NEWARRAY_T", 8)
	default:
		op := []opcode.Opcode{opcode.PACK, opcode.PACKSTRUCT, opcode.PACKMAP}[vfChoose("pack", 0, 2)]
		pool := []*rvItem{{k: rvInt, n: big.NewInt(vfI64("p0"))}, rvMkBytes(vfBytes("p1", 1)), {k: rvNull}, {k: rvInt, n: big.NewInt(vfI64("p3"))}, {k: rvArray, el: []*rvItem{}}}
		depth := vfChoose("depth", 0, 4)
		// three fixed orders of the pool: keys (odd positions from the top) primitive, Null or Array
		order := [][]int{{0, 1, 3, 2}, {2, 0, 4, 3}, {1, 3, 0, 0}}[vfChoose("order", 0, 2)]
		var st []*rvItem
		for i := 0; i < depth; i++ {
			st = append(st, pool[order[i]])
		}
		st = append(st, n)
		rvCompare([]byte{byte(op), byte(opcode.RET)}, st, "PACK", 8)
	}
}

//vf:tier quick
//vf:bigint theory
//vf:unwind 120
//vf:bound EQUAL and NOTEQUAL over two operands drawn from: Null, Boolean, 256-bit Integer, ByteString/Buffer of 0..4 symbolic bytes (and 32/33 bytes), Array, Struct, Map, structs of symbolic integers with nested structs, and the same item twice
func VF_C13_equal() {
	op := []opcode.Opcode{opcode.EQUAL, opcode.NOTEQUAL}[vfChoose("op", 0, 1)]
	var a, b *rvItem
	switch vfChoose("pair", 0, 3) {
	case 0:
		a, b = vhOperand("a"), vhOperand("b")
	case 1:
		a = vhOperand("a")
		b = a
	case 2:
		a = &rvItem{k: rvStruct, el: []*rvItem{{k: rvStruct, el: vhInts("a-in", 1)}, rvMkBytes(vfBytes("a-bs", 1))}}
		b = &rvItem{k: rvStruct, el: []*rvItem{{k: rvStruct, el: vhInts("b-in", 1)}, rvMkBytes(vfBytes("b-bs", 1))}}
	case 3:
		a = &rvItem{k: rvStruct, el: vhInts("a-e", vfChoose("a-len", 0, 2))}
		b = &rvItem{k: rvStruct, el: vhInts("b-e", vfChoose("b-len", 0, 2))}
	}
	rvCompare([]byte{byte(op), byte(opcode.RET)}, []*rvItem{a, b}, "EQUAL", 8)
}

//vf:tier quick
//vf:bigint theory
//vf:unwind 120
//vf:wall 300
//vf:bound two-instruction sequences on one container: a mutator (REMOVE SETITEM APPEND CLEARITEMS REVERSEITEMS POPITEM) followed by a reader (PICKITEM HASKEY SIZE KEYS VALUES UNPACK) with its own key; container: a map with keys 5, a symbolic 64-bit integer (may coincide with the others) and 9 or an array of three symbolic integers; keys symbolic 64-bit integers; a further reference to the container stays on the stack
func VF_C13_compound_mutate_then_read() {
	var c *rvItem
	if vfChoose("container", 0, 1) == 0 {
		c = &rvItem{k: rvMap}
		rvMapSet(c, rvMkSmall(5), rvMkSmall(10))
		rvMapSet(c, &rvItem{k: rvInt, n: big.NewInt(vfI64("mk"))}, rvMkSmall(20))
		rvMapSet(c, rvMkSmall(9), rvMkSmall(30))
	} else {
		c = &rvItem{k: rvArray, el: vhInts("e", 3)}
	}
	k1 := &rvItem{k: rvInt, n: big.NewInt(vfI64("k1"))}
	k2 := &rvItem{k: rvInt, n: big.NewInt(vfI64("k2"))}
	var first []byte
	var args []*rvItem
	switch vfChoose("mutator", 0, 5) {
	case 0:
		first, args = []byte{byte(opcode.REMOVE)}, []*rvItem{c, k1}
	case 1:
		first, args = []byte{byte(opcode.SETITEM)}, []*rvItem{c, k1, rvMkSmall(77)}
	case 2:
		first, args = []byte{byte(opcode.APPEND)}, []*rvItem{c, rvMkSmall(88)}
	case 3:
		first, args = []byte{byte(opcode.CLEARITEMS)}, []*rvItem{c}
	case 4:
		first, args = []byte{byte(opcode.REVERSEITEMS)}, []*rvItem{c}
	case 5:
		first, args = []byte{byte(opcode.POPITEM), byte(opcode.DROP)}, []*rvItem{c}
	}
	var st []*rvItem
	var second byte
	switch vfChoose("reader", 0, 5) {
	case 0:
		second, st = byte(opcode.PICKITEM), []*rvItem{c, c, k2}
	case 1:
		second, st = byte(opcode.HASKEY), []*rvItem{c, c, k2}
	case 2:
		second, st = byte(opcode.SIZE), []*rvItem{c, c}
	case 3:
		second, st = byte(opcode.KEYS), []*rvItem{c, c}
	case 4:
		second, st = byte(opcode.VALUES), []*rvItem{c, c}
	case 5:
		second, st = byte(opcode.UNPACK), []*rvItem{c, c}
	}
	st = append(st, args...)
	script := append(append([]byte{}, first...), second, byte(opcode.RET))
	rvCompare(script, st, "mutate-read", 8)
}
