//vf:pkg pkg/vm
package vm

import (
	"github.com/nspcc-dev/neo-go/pkg/vm/opcode"
)

// C13: type conversion instructions (CONVERT, ISTYPE, ISNULL) against the reference.

var vhTypes = []byte{rvTAny, rvTPointer, rvTBool, rvTInt, rvTBytes, rvTBuffer, rvTArray, rvTStruct, rvTMap, rvTInterop, 0x22, 0xFF}

// vhOperand builds one reference item of a chosen shape with symbolic content.
func vhOperand(name string) *rvItem {
	switch vfChoose(name+"-kind", 0, 9) {
	case 0:
		return &rvItem{k: rvNull}
	case 1:
		return rvMkBool(vfBool(name + "-b"))
	case 2:
		return &rvItem{k: rvInt, n: vfBig(name+"-n", 256)}
	case 3: // byte string of 0..4 symbolic bytes
		n := vfChoose(name+"-len", 0, 4)
		return rvMkBytes(vfBytes(name+"-bytes", n))
	case 4: // buffer of 0..4 symbolic bytes
		n := vfChoose(name+"-len", 0, 4)
		return rvMkBuf(vfBytes(name+"-bytes", n))
	case 5: // byte string at the 32/33 byte boundary: symbolic first and last byte
		n := 32 + vfChoose(name+"-over", 0, 1)
		b := make([]byte, n)
		b[0], b[n-1] = vfU8(name+"-first"), vfU8(name+"-last")
		return rvMkBytes(b)
	case 6: // buffer at the boundary
		n := 32 + vfChoose(name+"-over", 0, 1)
		b := make([]byte, n)
		b[0], b[n-1] = vfU8(name+"-first"), vfU8(name+"-last")
		return rvMkBuf(b)
	case 7:
		return &rvItem{k: rvArray, el: []*rvItem{rvMkSmall(5), rvMkBool(true)}}
	case 8:
		return &rvItem{k: rvStruct, el: []*rvItem{rvMkSmall(7)}}
	}
	m := &rvItem{k: rvMap}
	rvMapSet(m, rvMkSmall(1), rvMkSmall(2))
	return m
}

//vf:tier quick
//vf:bigint theory
//vf:unwind 80
//vf:bound CONVERT and ISTYPE with each of the 10 defined type bytes and two undefined ones, ISNULL; operand: Null, Boolean, any 256-bit Integer, ByteString/Buffer of 0..4 symbolic bytes and of 32/33 bytes (symbolic first and last byte), a two-element Array, a Struct, a one-entry Map
func VF_C13_convert_istype() {
	x := vhOperand("x")
	switch vfChoose("op", 0, 2) {
	case 0:
		t := vhTypes[vfChoose("type", 0, len(vhTypes)-1)]
		rvCompare([]byte{byte(opcode.CONVERT), t, byte(opcode.RET)}, []*rvItem{x}, "CONVERT", 8)
	case 1:
		t := vhTypes[vfChoose("type", 0, len(vhTypes)-1)]
		rvCompare([]byte{byte(opcode.ISTYPE), t, byte(opcode.RET)}, []*rvItem{x}, "ISTYPE", 8)
	case 2:
		rvCompare([]byte{byte(opcode.ISNULL), byte(opcode.RET)}, []*rvItem{x}, "ISNULL", 8)
	}
}

//vf:tier quick
//vf:bigint theory
//vf:unwind 120
//vf:bound conversions produce independent values: a 2-byte ByteString (or Buffer) is duplicated, one copy converted to Buffer (or ByteString / Buffer), then the buffer among the two is modified in place (SETITEM with a symbolic byte or REVERSEITEMS); both items are compared with the reference afterwards
func VF_C13_convert_result_is_independent() {
	b := vfBytes("bytes", 2)
	v := vfU8("stored")
	mutate := []byte{byte(opcode.DUP), byte(opcode.PUSH0), byte(opcode.PUSHINT8), v & 0x7f, byte(opcode.SETITEM)}
	if vfBool("reverse-instead") {
		mutate = []byte{byte(opcode.DUP), byte(opcode.REVERSEITEMS)}
	}
	var script []byte
	var x *rvItem
	switch vfChoose("direction", 0, 2) {
	case 0: // ByteString -> Buffer, mutate the new buffer
		x = rvMkBytes(b)
		script = append([]byte{byte(opcode.DUP), byte(opcode.CONVERT), rvTBuffer}, mutate...)
	case 1: // Buffer -> ByteString, mutate the original buffer
		x = rvMkBuf(b)
		script = append([]byte{byte(opcode.DUP), byte(opcode.CONVERT), rvTBytes, byte(opcode.SWAP)}, mutate...)
	case 2: // Buffer -> Buffer is the same item: a change is visible through both
		x = rvMkBuf(b)
		script = append([]byte{byte(opcode.DUP), byte(opcode.CONVERT), rvTBuffer}, mutate...)
	}
	script = append(script, byte(opcode.RET))
	rvCompare(script, []*rvItem{x}, "convert-independent", 12)
}
