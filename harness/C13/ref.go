//vf:pkg pkg/vm
package vm

import (
	"math/big"

	"github.com/nspcc-dev/neo-go/pkg/vm/opcode"
	"github.com/nspcc-dev/neo-go/pkg/vm/stackitem"
	"github.com/nspcc-dev/neo-go/pkg/vm/vmstate"
)

// An independent executable specification of NeoVM (the instructions without external
// effects) over unbounded integers with explicit 256-bit range checks. It is written from
// the NeoVM specification (the C# reference semantics), shares no code with pkg/vm and has
// its own item model. It is run by the engine symbolically next to the real VM and
// natively on replay.

type rvKind int

const (
	rvNull rvKind = iota
	rvPointer
	rvBool
	rvInt
	rvBytes
	rvBuffer
	rvArray
	rvStruct
	rvMap
)

// type bytes of the specification (StackItemType)
const (
	rvTAny     = 0x00
	rvTPointer = 0x10
	rvTBool    = 0x20
	rvTInt     = 0x21
	rvTBytes   = 0x28
	rvTBuffer  = 0x30
	rvTArray   = 0x40
	rvTStruct  = 0x41
	rvTMap     = 0x48
	rvTInterop = 0x60
)

type rvItem struct {
	k      rvKind
	b      bool
	n      *big.Int
	bs     []byte // ByteString (immutable) / Buffer (mutable, identity matters)
	el     []*rvItem
	mk     []*rvItem
	mv     []*rvItem
	pos    int
	opaque bool // content not specified (engine exception messages): only the type is compared
	ofInt  *big.Int // bytes specified as "the minimal two's complement encoding of this integer" (bs filled on demand)
}

const (
	rvMaxItemSize   = 65535 * 2
	rvMaxIntBytes   = 32
	rvMaxKeySize    = 64
	rvMaxInvocation = 1024
	rvMaxTry        = 16
	rvMaxStack      = 2048
	rvMaxComparable = 65536
)

var (
	rvMinInt = new(big.Int).Neg(new(big.Int).Lsh(big.NewInt(1), 255))
	rvMaxInt = new(big.Int).Lsh(big.NewInt(1), 255) // exclusive
	rvOne    = big.NewInt(1)
	rvByteM  = big.NewInt(255)
)

type rvFault struct{ why string }

func rvFail(why string) { panic(rvFault{why}) }

// rvUnspec ends a reference run in a corner this specification leaves open (both outcomes
// are accepted): such runs are outside the claim.
type rvUnspecified struct{ why string }

func rvUnspec(why string) { panic(rvUnspecified{why}) }

func rvTypeByte(k rvKind) int {
	switch k {
	case rvNull:
		return rvTAny
	case rvPointer:
		return rvTPointer
	case rvBool:
		return rvTBool
	case rvInt:
		return rvTInt
	case rvBytes:
		return rvTBytes
	case rvBuffer:
		return rvTBuffer
	case rvArray:
		return rvTArray
	case rvStruct:
		return rvTStruct
	case rvMap:
		return rvTMap
	}
	return -1
}

func rvValidType(t int) bool {
	switch t {
	case rvTAny, rvTPointer, rvTBool, rvTInt, rvTBytes, rvTBuffer, rvTArray, rvTStruct, rvTMap, rvTInterop:
		return true
	}
	return false
}

func rvMkInt(n *big.Int) *rvItem {
	if n.Cmp(rvMinInt) < 0 || n.Cmp(rvMaxInt) >= 0 {
		rvFail("integer out of the 256-bit range")
	}
	return &rvItem{k: rvInt, n: n}
}
func rvMkSmall(n int) *rvItem   { return &rvItem{k: rvInt, n: big.NewInt(int64(n))} }
func rvMkBool(b bool) *rvItem   { return &rvItem{k: rvBool, b: b} }
func rvMkBytes(b []byte) *rvItem { return &rvItem{k: rvBytes, bs: b} }
func rvMkBuf(b []byte) *rvItem   { return &rvItem{k: rvBuffer, bs: b} }

// rvIntBytes: minimal little-endian two's complement (zero is the empty string).
func rvIntBytes(n *big.Int) []byte {
	if n.Sign() == 0 {
		return []byte{}
	}
	k := 1
	for ; k <= 33; k++ {
		lim := new(big.Int).Lsh(rvOne, uint(8*k-1))
		if n.Cmp(new(big.Int).Neg(lim)) >= 0 && n.Cmp(lim) < 0 {
			break
		}
	}
	out := make([]byte, k)
	for i := 0; i < k; i++ {
		// byte i of the two's complement form: floor(n / 256^i) mod 256
		d := new(big.Int).And(new(big.Int).Rsh(n, uint(8*i)), rvByteM)
		out[i] = byte(d.Uint64())
	}
	return out
}

// rvBytesInt decodes little-endian two's complement of at most 32 bytes.
func rvBytesInt(b []byte) *big.Int {
	if len(b) > rvMaxIntBytes {
		rvFail("byte string longer than 32 bytes is not an integer")
	}
	r := new(big.Int)
	for i := len(b) - 1; i >= 0; i-- {
		r = new(big.Int).Add(new(big.Int).Lsh(r, 8), new(big.Int).SetUint64(uint64(b[i])))
	}
	if len(b) > 0 && b[len(b)-1] >= 0x80 {
		r = new(big.Int).Sub(r, new(big.Int).Lsh(rvOne, uint(8*len(b))))
	}
	return r
}

func rvAnyNonZero(b []byte) bool {
	nz := false
	for _, x := range b {
		nz = vfOr(nz, x != 0)
	}
	return nz
}

// GetInteger
func rvAsInt(it *rvItem) *big.Int {
	switch it.k {
	case rvInt:
		return it.n
	case rvBool:
		if it.b {
			return big.NewInt(1)
		}
		return big.NewInt(0)
	case rvBytes:
		return rvBytesInt(it.bs)
	}
	rvFail("not convertible to integer")
	return nil
}

// GetBoolean
func rvAsBool(it *rvItem) bool {
	switch it.k {
	case rvNull:
		return false
	case rvBool:
		return it.b
	case rvInt:
		return it.n.Sign() != 0
	case rvBytes:
		if len(it.bs) > rvMaxIntBytes {
			rvFail("byte string too long for a boolean")
		}
		return rvAnyNonZero(it.bs)
	}
	return true // buffer, compound types, pointer
}

// rvForce computes the bytes of an item specified by its integer value.
func rvForce(it *rvItem) {
	if it.ofInt != nil && it.bs == nil {
		it.bs = rvIntBytes(it.ofInt)
	}
}

// rvIsEncodingOf: b is the minimal little-endian two's complement encoding of n.
func rvIsEncodingOf(b []byte, n *big.Int) bool {
	if len(b) == 0 {
		return n.Sign() == 0
	}
	if len(b) > rvMaxIntBytes {
		return false
	}
	ok := rvBytesInt(b).Cmp(n) == 0
	last := b[len(b)-1]
	if len(b) == 1 {
		return vfAnd(ok, last != 0)
	}
	prev := b[len(b)-2]
	ok = vfAnd(ok, !vfAnd(last == 0, prev < 0x80))
	ok = vfAnd(ok, !vfAnd(last == 0xFF, prev >= 0x80))
	return ok
}

// GetSpan
func rvAsBytes(it *rvItem) []byte {
	switch it.k {
	case rvBytes, rvBuffer:
		rvForce(it)
		return it.bs
	case rvInt:
		return rvIntBytes(it.n)
	case rvBool:
		if it.b {
			return []byte{1}
		}
		return []byte{0}
	}
	rvFail("not convertible to bytes")
	return nil
}

func rvIsPrimitive(it *rvItem) bool { return it.k == rvBool || it.k == rvInt || it.k == rvBytes }

// rvIndex converts an item to a machine int (the specification casts to int32).
func rvIndex(it *rvItem) int {
	n := rvAsInt(it)
	if !n.IsInt64() {
		rvFail("index not an int32")
	}
	v := n.Int64()
	if v < -(1<<31) || v > (1<<31)-1 {
		rvFail("index not an int32")
	}
	return int(v)
}

func rvBytesEq(a, b []byte) bool {
	if len(a) != len(b) {
		return false
	}
	eq := true
	for i := range a {
		eq = vfAnd(eq, a[i] == b[i])
	}
	return eq
}

// rvKeyEq: equality of primitive map keys (same type and same value).
func rvKeyEq(a, b *rvItem) bool {
	rvForce(a)
	rvForce(b)
	if a.k != b.k {
		return false
	}
	switch a.k {
	case rvBool:
		return a.b == b.b
	case rvInt:
		return a.n.Cmp(b.n) == 0
	case rvBytes:
		return rvBytesEq(a.bs, b.bs)
	}
	return false
}

func rvCheckKey(k *rvItem) {
	if !rvIsPrimitive(k) {
		rvFail("key is not a primitive type")
	}
	if k.k == rvBytes && len(k.bs) > rvMaxKeySize {
		rvFail("key too big")
	}
}

func rvMapFind(m *rvItem, k *rvItem) int {
	for i := range m.mk {
		if rvKeyEq(m.mk[i], k) {
			return i
		}
	}
	return -1
}

// rvEquals: EQUAL semantics.
func rvEquals(a, b *rvItem, budget *int) bool {
	rvForce(a)
	rvForce(b)
	*budget--
	if *budget < 0 {
		rvFail("too many items to compare")
	}
	switch a.k {
	case rvNull:
		return b.k == rvNull
	case rvBool:
		return b.k == rvBool && a.b == b.b
	case rvInt:
		return b.k == rvInt && a.n.Cmp(b.n) == 0
	case rvBytes:
		if b.k != rvBytes {
			return false
		}
		if len(a.bs) > rvMaxComparable || len(b.bs) > rvMaxComparable {
			rvFail("byte string too big to compare")
		}
		return rvBytesEq(a.bs, b.bs)
	case rvPointer:
		return b.k == rvPointer && a.pos == b.pos
	case rvStruct:
		if b.k != rvStruct {
			return false
		}
		if a == b {
			return true
		}
		if len(a.el) != len(b.el) {
			return false
		}
		for i := range a.el {
			if !rvEquals(a.el[i], b.el[i], budget) {
				return false
			}
		}
		return true
	}
	return a == b // buffer, array, map: reference equality
}

// rvClone: deep copy of a struct (nested structs copied, everything else shared).
func rvClone(s *rvItem, budget *int) *rvItem {
	*budget--
	if *budget < 0 {
		rvFail("too many items to clone")
	}
	r := &rvItem{k: rvStruct, el: make([]*rvItem, len(s.el))}
	for i, e := range s.el {
		if e.k == rvStruct {
			r.el[i] = rvClone(e, budget)
		} else {
			r.el[i] = e
		}
	}
	return r
}

func rvCloneIfStruct(it *rvItem) *rvItem {
	if it.k == rvStruct {
		budget := rvMaxStack
		return rvClone(it, &budget)
	}
	return it
}

// ---- machine ----

const (
	rvTry = iota
	rvCatch
	rvFinally
)

type rvTryCtx struct {
	catchOff, finallyOff, endOff int // -1: absent
	state                        int
}

type rvFrame struct {
	ip     int
	stack  *[]*rvItem
	static *[]*rvItem
	locals []*rvItem
	args   []*rvItem
	hasLoc bool
	try    []*rvTryCtx
}

type rvVM struct {
	script   []byte
	frames   []*rvFrame
	result   []*rvItem
	faulted  bool
	halted   bool
	why      string
	uncaught *rvItem
	steps    int
	jumped   bool
	unspec   bool
}

func rvNew(script []byte, initial []*rvItem) *rvVM {
	st := append([]*rvItem{}, initial...)
	var sf []*rvItem
	return &rvVM{script: script, frames: []*rvFrame{{stack: &st, static: &sf}}}
}

func (m *rvVM) cur() *rvFrame { return m.frames[len(m.frames)-1] }

func (m *rvVM) push(it *rvItem) {
	f := m.cur()
	*f.stack = append(*f.stack, it)
}

func (m *rvVM) pop() *rvItem {
	f := m.cur()
	s := *f.stack
	if len(s) == 0 {
		rvFail("stack underflow")
	}
	it := s[len(s)-1]
	*f.stack = s[:len(s)-1]
	rvForce(it) // an item consumed by an instruction needs its bytes
	return it
}

func (m *rvVM) peek(n int) *rvItem {
	s := *m.cur().stack
	if n < 0 || n >= len(s) {
		rvFail("peek out of range")
	}
	return s[len(s)-1-n]
}

func (m *rvVM) removeAt(n int) *rvItem {
	f := m.cur()
	s := *f.stack
	if n < 0 || n >= len(s) {
		rvFail("remove out of range")
	}
	i := len(s) - 1 - n
	it := s[i]
	ns := append([]*rvItem{}, s[:i]...)
	ns = append(ns, s[i+1:]...)
	*f.stack = ns
	return it
}

func (m *rvVM) insertAt(n int, it *rvItem) {
	f := m.cur()
	s := *f.stack
	if n < 0 || n > len(s) {
		rvFail("insert out of range")
	}
	i := len(s) - n
	ns := append([]*rvItem{}, s[:i]...)
	ns = append(ns, it)
	ns = append(ns, s[i:]...)
	*f.stack = ns
}

func (m *rvVM) reverseTop(n int) {
	s := *m.cur().stack
	if n < 0 || n > len(s) {
		rvFail("reverse out of range")
	}
	for i, j := len(s)-n, len(s)-1; i < j; i, j = i+1, j-1 {
		s[i], s[j] = s[j], s[i]
	}
}

func (m *rvVM) popInt() *big.Int { return rvAsInt(m.pop()) }
func (m *rvVM) popBool() bool    { return rvAsBool(m.pop()) }
func (m *rvVM) popIndex() int    { return rvIndex(m.pop()) }

func rvLE(b []byte, signed bool) int {
	v := 0
	for i := len(b) - 1; i >= 0; i-- {
		v = v<<8 | int(b[i])
	}
	if signed && b[len(b)-1] >= 0x80 {
		v -= 1 << (8 * len(b))
	}
	return v
}

// operand size of an instruction: (prefix length bytes, fixed bytes)
func rvOperand(op byte) (prefix, fixed int) {
	switch opcode.Opcode(op) {
	case opcode.PUSHINT8:
		return 0, 1
	case opcode.PUSHINT16:
		return 0, 2
	case opcode.PUSHINT32:
		return 0, 4
	case opcode.PUSHINT64:
		return 0, 8
	case opcode.PUSHINT128:
		return 0, 16
	case opcode.PUSHINT256:
		return 0, 32
	case opcode.PUSHA:
		return 0, 4
	case opcode.PUSHDATA1:
		return 1, 0
	case opcode.PUSHDATA2:
		return 2, 0
	case opcode.PUSHDATA4:
		return 4, 0
	case opcode.JMP, opcode.JMPIF, opcode.JMPIFNOT, opcode.JMPEQ, opcode.JMPNE, opcode.JMPGT, opcode.JMPGE, opcode.JMPLT, opcode.JMPLE, opcode.CALL, opcode.ENDTRY:
		return 0, 1
	case opcode.JMPL, opcode.JMPIFL, opcode.JMPIFNOTL, opcode.JMPEQL, opcode.JMPNEL, opcode.JMPGTL, opcode.JMPGEL, opcode.JMPLTL, opcode.JMPLEL, opcode.CALLL, opcode.ENDTRYL:
		return 0, 4
	case opcode.CALLT:
		return 0, 2
	case opcode.TRY:
		return 0, 2
	case opcode.TRYL:
		return 0, 8
	case opcode.SYSCALL:
		return 0, 4
	case opcode.INITSSLOT:
		return 0, 1
	case opcode.INITSLOT:
		return 0, 2
	case opcode.LDSFLD, opcode.STSFLD, opcode.LDLOC, opcode.STLOC, opcode.LDARG, opcode.STARG:
		return 0, 1
	case opcode.NEWARRAYT, opcode.ISTYPE, opcode.CONVERT:
		return 0, 1
	}
	return 0, 0
}

func (m *rvVM) jumpTo(f *rvFrame, target int) {
	if target < 0 || target >= len(m.script) {
		rvFail("jump out of the script")
	}
	f.ip = target
	m.jumped = true
}

// notTaken: a conditional jump that is not taken but whose target lies outside the script
// is a corner left open (an implementation may validate the operand eagerly).
func (m *rvVM) notTaken(target int) {
	if target < 0 || target >= len(m.script) {
		rvUnspec("untaken jump outside the script")
	}
}

func (m *rvVM) throw(ex *rvItem) {
	m.uncaught = ex
	for len(m.frames) > 0 {
		f := m.cur()
		for len(f.try) > 0 {
			t := f.try[len(f.try)-1]
			if t.state == rvFinally || (t.state == rvCatch && t.finallyOff < 0) {
				f.try = f.try[:len(f.try)-1]
				continue
			}
			if t.state == rvTry && t.catchOff >= 0 {
				t.state = rvCatch
				m.push(ex)
				m.uncaught = nil
				m.jumpTo(f, t.catchOff)
			} else {
				t.state = rvFinally
				m.jumpTo(f, t.finallyOff)
			}
			return
		}
		m.frames = m.frames[:len(m.frames)-1]
	}
	rvFail("unhandled exception")
}

func (m *rvVM) slot(s []*rvItem, ok bool, i int) *rvItem {
	if !ok || i < 0 || i >= len(s) {
		rvFail("slot access out of range")
	}
	return s[i]
}

func (m *rvVM) run(maxSteps int) {
	defer func() {
		if r := recover(); r != nil {
			if f, ok := r.(rvFault); ok {
				m.faulted = true
				m.why = f.why
				return
			}
			if _, ok := r.(rvUnspecified); ok {
				m.unspec = true
				return
			}
			panic(r)
		}
	}()
	for !m.halted {
		if m.steps >= maxSteps {
			rvFail("reference step budget")
		}
		m.steps++
		m.step()
	}
}

func (m *rvVM) ret() {
	m.frames = m.frames[:len(m.frames)-1]
	if len(m.frames) == 0 {
		m.halted = true
	}
}

func (m *rvVM) step() {
	f := m.cur()
	if f.ip >= len(m.script) {
		// running off the end is an implicit RET
		if len(m.frames) == 1 {
			m.result = *f.stack
		}
		m.ret()
		return
	}
	start := f.ip
	op := m.script[start]
	prefix, fixed := rvOperand(op)
	p := start + 1
	if prefix > 0 {
		if p+prefix > len(m.script) {
			rvFail("truncated instruction")
		}
		fixed = rvLE(m.script[p:p+prefix], false)
		p += prefix
		if fixed < 0 || fixed > rvMaxItemSize {
			rvFail("PUSHDATA too big")
		}
	}
	if p+fixed > len(m.script) {
		rvFail("truncated instruction")
	}
	arg := m.script[p : p+fixed]
	next := p + fixed
	m.jumped = false
	f.ip = next // a jump, call target or handler entry overrides this
	m.exec(f, opcode.Opcode(op), arg, start)
	// item count limit (everything reachable from the stacks and slots)
	if !m.halted && rvCountAll(m) > rvMaxStack {
		rvFail("too many items")
	}
}

func rvCountAll(m *rvVM) int {
	seen := map[*rvItem]bool{}
	n := 0
	var visit func(it *rvItem)
	visit = func(it *rvItem) {
		n++
		if it.k == rvArray || it.k == rvStruct || it.k == rvMap {
			if seen[it] {
				return
			}
			seen[it] = true
			for _, e := range it.el {
				visit(e)
			}
			for i := range it.mk {
				visit(it.mk[i])
				visit(it.mv[i])
			}
		}
	}
	stacks := map[*[]*rvItem]bool{}
	for _, f := range m.frames {
		if !stacks[f.stack] {
			stacks[f.stack] = true
			for _, it := range *f.stack {
				visit(it)
			}
		}
		if !stacks[f.static] {
			stacks[f.static] = true
			for _, it := range *f.static {
				visit(it)
			}
		}
		for _, it := range f.locals {
			visit(it)
		}
		for _, it := range f.args {
			visit(it)
		}
	}
	return n
}

func rvRel(arg []byte) int { return rvLE(arg, true) }

func (m *rvVM) exec(f *rvFrame, op opcode.Opcode, arg []byte, start int) {
	switch {
	case op <= opcode.PUSHINT256:
		m.push(rvMkInt(rvBytesInt(arg)))
		return
	case op >= opcode.PUSHM1 && op <= opcode.PUSH16:
		m.push(rvMkSmall(int(op) - int(opcode.PUSH0)))
		return
	case op >= opcode.LDSFLD0 && op <= opcode.LDSFLD6:
		m.push(m.slot(*f.static, *f.static != nil, int(op-opcode.LDSFLD0)))
		return
	case op >= opcode.STSFLD0 && op <= opcode.STSFLD6:
		m.slot(*f.static, *f.static != nil, int(op-opcode.STSFLD0))
		(*f.static)[int(op-opcode.STSFLD0)] = m.pop()
		return
	case op >= opcode.LDLOC0 && op <= opcode.LDLOC6:
		m.push(m.slot(f.locals, f.locals != nil, int(op-opcode.LDLOC0)))
		return
	case op >= opcode.STLOC0 && op <= opcode.STLOC6:
		m.slot(f.locals, f.locals != nil, int(op-opcode.STLOC0))
		f.locals[int(op-opcode.STLOC0)] = m.pop()
		return
	case op >= opcode.LDARG0 && op <= opcode.LDARG6:
		m.push(m.slot(f.args, f.args != nil, int(op-opcode.LDARG0)))
		return
	case op >= opcode.STARG0 && op <= opcode.STARG6:
		m.slot(f.args, f.args != nil, int(op-opcode.STARG0))
		f.args[int(op-opcode.STARG0)] = m.pop()
		return
	}
	switch op {
	case opcode.PUSHT:
		m.push(rvMkBool(true))
	case opcode.PUSHF:
		m.push(rvMkBool(false))
	case opcode.PUSHNULL:
		m.push(&rvItem{k: rvNull})
	case opcode.PUSHA:
		t := start + rvRel(arg)
		if t < 0 || t > len(m.script) {
			rvFail("PUSHA out of the script")
		}
		m.push(&rvItem{k: rvPointer, pos: t})
	case opcode.PUSHDATA1, opcode.PUSHDATA2, opcode.PUSHDATA4:
		m.push(rvMkBytes(append([]byte{}, arg...)))
	case opcode.NOP:
	case opcode.JMP, opcode.JMPL:
		m.jumpTo(f, start+rvRel(arg))
	case opcode.JMPIF, opcode.JMPIFL:
		if m.popBool() {
			m.jumpTo(f, start+rvRel(arg))
		} else {
			m.notTaken(start + rvRel(arg))
		}
	case opcode.JMPIFNOT, opcode.JMPIFNOTL:
		if !m.popBool() {
			m.jumpTo(f, start+rvRel(arg))
		} else {
			m.notTaken(start + rvRel(arg))
		}
	case opcode.JMPEQ, opcode.JMPEQL, opcode.JMPNE, opcode.JMPNEL, opcode.JMPGT, opcode.JMPGTL, opcode.JMPGE, opcode.JMPGEL,
		opcode.JMPLT, opcode.JMPLTL, opcode.JMPLE, opcode.JMPLEL:
		b := m.popInt()
		a := m.popInt()
		c := a.Cmp(b)
		var take bool
		switch op {
		case opcode.JMPEQ, opcode.JMPEQL:
			take = c == 0
		case opcode.JMPNE, opcode.JMPNEL:
			take = c != 0
		case opcode.JMPGT, opcode.JMPGTL:
			take = c > 0
		case opcode.JMPGE, opcode.JMPGEL:
			take = c >= 0
		case opcode.JMPLT, opcode.JMPLTL:
			take = c < 0
		default:
			take = c <= 0
		}
		if take {
			m.jumpTo(f, start+rvRel(arg))
		} else {
			m.notTaken(start + rvRel(arg))
		}
	case opcode.CALL, opcode.CALLL:
		m.call(f, start+rvRel(arg))
	case opcode.CALLA:
		p := m.pop()
		if p.k != rvPointer {
			rvFail("CALLA needs a pointer")
		}
		m.call(f, p.pos)
	case opcode.ABORT:
		rvFail("ABORT")
	case opcode.ABORTMSG:
		rvAsBytes(m.pop())
		rvFail("ABORTMSG")
	case opcode.ASSERT:
		if !m.popBool() {
			rvFail("ASSERT")
		}
	case opcode.ASSERTMSG:
		rvAsBytes(m.pop())
		if !m.popBool() {
			rvFail("ASSERTMSG")
		}
	case opcode.THROW:
		m.throw(m.pop())
	case opcode.TRY, opcode.TRYL:
		h := len(arg) / 2
		c, fi := rvRel(arg[:h]), rvRel(arg[h:])
		if c == 0 && fi == 0 {
			rvFail("TRY without catch and finally")
		}
		if len(f.try) >= rvMaxTry {
			rvFail("TRY nesting too deep")
		}
		t := &rvTryCtx{catchOff: -1, finallyOff: -1, endOff: -1}
		if c != 0 {
			t.catchOff = start + c
			if t.catchOff < 0 || t.catchOff >= len(m.script) {
				rvUnspec("catch handler outside the script")
			}
		}
		if fi != 0 {
			t.finallyOff = start + fi
			if t.finallyOff < 0 || t.finallyOff >= len(m.script) {
				rvUnspec("finally handler outside the script")
			}
		}
		f.try = append(f.try, t)
	case opcode.ENDTRY, opcode.ENDTRYL:
		if len(f.try) == 0 {
			rvFail("ENDTRY without TRY")
		}
		t := f.try[len(f.try)-1]
		if t.state == rvFinally {
			rvFail("ENDTRY inside FINALLY")
		}
		end := start + rvRel(arg)
		if end < 0 || end >= len(m.script) {
			rvUnspec("end of the try block outside the script")
		}
		if t.finallyOff >= 0 {
			t.state = rvFinally
			t.endOff = end
			m.jumpTo(f, t.finallyOff)
		} else {
			f.try = f.try[:len(f.try)-1]
			m.jumpTo(f, end)
		}
	case opcode.ENDFINALLY:
		if len(f.try) == 0 {
			rvFail("ENDFINALLY without TRY")
		}
		t := f.try[len(f.try)-1]
		f.try = f.try[:len(f.try)-1]
		if m.uncaught != nil {
			m.throw(m.uncaught)
		} else {
			m.jumpTo(f, t.endOff)
		}
	case opcode.RET:
		if len(m.frames) == 1 {
			m.result = *f.stack
		}
		m.ret()
	case opcode.DEPTH:
		m.push(rvMkSmall(len(*f.stack)))
	case opcode.DROP:
		m.pop()
	case opcode.NIP:
		m.removeAt(1)
	case opcode.XDROP:
		n := m.popIndex()
		if n < 0 {
			rvFail("negative index")
		}
		m.removeAt(n)
	case opcode.CLEAR:
		*f.stack = (*f.stack)[:0]
	case opcode.DUP:
		m.push(m.peek(0))
	case opcode.OVER:
		m.push(m.peek(1))
	case opcode.PICK:
		n := m.popIndex()
		if n < 0 {
			rvFail("negative index")
		}
		m.push(m.peek(n))
	case opcode.TUCK:
		if len(*f.stack) < 2 {
			rvFail("stack underflow")
		}
		m.insertAt(2, m.peek(0))
	case opcode.SWAP:
		x := m.removeAt(1)
		m.push(x)
	case opcode.ROT:
		x := m.removeAt(2)
		m.push(x)
	case opcode.ROLL:
		n := m.popIndex()
		if n < 0 {
			rvFail("negative index")
		}
		if n == 0 && len(*f.stack) == 0 {
			rvUnspec("ROLL 0 on an empty stack")
		}
		if n > 0 {
			x := m.removeAt(n)
			m.push(x)
		}
	case opcode.REVERSE3:
		m.reverseTop(3)
	case opcode.REVERSE4:
		m.reverseTop(4)
	case opcode.REVERSEN:
		m.reverseTop(m.popIndex())
	case opcode.INITSSLOT:
		if *f.static != nil {
			rvFail("static slot already initialised")
		}
		if arg[0] == 0 {
			rvFail("zero static slots")
		}
		s := make([]*rvItem, int(arg[0]))
		for i := range s {
			s[i] = &rvItem{k: rvNull}
		}
		*f.static = s
	case opcode.INITSLOT:
		if f.hasLoc {
			rvFail("slots already initialised")
		}
		if arg[0] == 0 && arg[1] == 0 {
			rvFail("zero slots")
		}
		f.hasLoc = true
		if arg[0] > 0 {
			f.locals = make([]*rvItem, int(arg[0]))
			for i := range f.locals {
				f.locals[i] = &rvItem{k: rvNull}
			}
		}
		if arg[1] > 0 {
			f.args = make([]*rvItem, int(arg[1]))
			for i := range f.args {
				f.args[i] = m.pop()
			}
		}
	case opcode.LDSFLD:
		m.push(m.slot(*f.static, *f.static != nil, int(arg[0])))
	case opcode.STSFLD:
		m.slot(*f.static, *f.static != nil, int(arg[0]))
		(*f.static)[int(arg[0])] = m.pop()
	case opcode.LDLOC:
		m.push(m.slot(f.locals, f.locals != nil, int(arg[0])))
	case opcode.STLOC:
		m.slot(f.locals, f.locals != nil, int(arg[0]))
		f.locals[int(arg[0])] = m.pop()
	case opcode.LDARG:
		m.push(m.slot(f.args, f.args != nil, int(arg[0])))
	case opcode.STARG:
		m.slot(f.args, f.args != nil, int(arg[0]))
		f.args[int(arg[0])] = m.pop()
	case opcode.NEWBUFFER:
		n := m.popIndex()
		if n < 0 || n > rvMaxItemSize {
			rvFail("buffer size")
		}
		m.push(rvMkBuf(make([]byte, n)))
	case opcode.MEMCPY:
		n := m.popIndex()
		if n < 0 {
			rvFail("negative count")
		}
		si := m.popIndex()
		if si < 0 {
			rvFail("negative source index")
		}
		src := rvAsBytes(m.pop())
		if si+n > len(src) {
			rvFail("source range")
		}
		di := m.popIndex()
		if di < 0 {
			rvFail("negative destination index")
		}
		dst := m.pop()
		if dst.k != rvBuffer {
			rvFail("destination is not a buffer")
		}
		if di+n > len(dst.bs) {
			rvFail("destination range")
		}
		tmp := append([]byte{}, src[si:si+n]...)
		for i := 0; i < n; i++ {
			dst.bs[di+i] = tmp[i]
		}
	case opcode.CAT:
		b := rvAsBytes(m.pop())
		a := rvAsBytes(m.pop())
		if len(a)+len(b) > rvMaxItemSize {
			rvFail("CAT result too big")
		}
		r := append(append([]byte{}, a...), b...)
		m.push(rvMkBuf(r))
	case opcode.SUBSTR:
		n := m.popIndex()
		if n < 0 {
			rvFail("negative count")
		}
		i := m.popIndex()
		if i < 0 {
			rvFail("negative index")
		}
		x := rvAsBytes(m.pop())
		if i+n > len(x) {
			rvFail("range")
		}
		m.push(rvMkBuf(append([]byte{}, x[i:i+n]...)))
	case opcode.LEFT:
		n := m.popIndex()
		if n < 0 {
			rvFail("negative count")
		}
		x := rvAsBytes(m.pop())
		if n > len(x) {
			rvFail("range")
		}
		m.push(rvMkBuf(append([]byte{}, x[:n]...)))
	case opcode.RIGHT:
		n := m.popIndex()
		if n < 0 {
			rvFail("negative count")
		}
		x := rvAsBytes(m.pop())
		if n > len(x) {
			rvFail("range")
		}
		m.push(rvMkBuf(append([]byte{}, x[len(x)-n:]...)))
	case opcode.INVERT:
		a := m.popInt()
		m.push(rvMkInt(new(big.Int).Sub(new(big.Int).Neg(a), rvOne)))
	case opcode.EQUAL, opcode.NOTEQUAL:
		b := m.pop()
		a := m.pop()
		budget := rvMaxStack
		eq := rvEquals(a, b, &budget)
		m.push(rvMkBool(eq == (op == opcode.EQUAL)))
	case opcode.SIGN:
		m.push(rvMkSmall(m.popInt().Sign()))
	case opcode.ABS:
		m.push(rvMkInt(new(big.Int).Abs(m.popInt())))
	case opcode.NEGATE:
		m.push(rvMkInt(new(big.Int).Neg(m.popInt())))
	case opcode.INC:
		m.push(rvMkInt(new(big.Int).Add(m.popInt(), rvOne)))
	case opcode.DEC:
		m.push(rvMkInt(new(big.Int).Sub(m.popInt(), rvOne)))
	case opcode.ADD:
		b := m.popInt()
		a := m.popInt()
		m.push(rvMkInt(new(big.Int).Add(a, b)))
	case opcode.SUB:
		b := m.popInt()
		a := m.popInt()
		m.push(rvMkInt(new(big.Int).Sub(a, b)))
	case opcode.NOT:
		m.push(rvMkBool(!m.popBool()))
	case opcode.BOOLAND:
		b := m.popBool()
		a := m.popBool()
		m.push(rvMkBool(a && b))
	case opcode.BOOLOR:
		b := m.popBool()
		a := m.popBool()
		m.push(rvMkBool(a || b))
	case opcode.NZ:
		m.push(rvMkBool(m.popInt().Sign() != 0))
	case opcode.NUMEQUAL, opcode.NUMNOTEQUAL, opcode.LT, opcode.LE, opcode.GT, opcode.GE:
		bi := m.pop()
		ai := m.pop()
		if (op == opcode.LT || op == opcode.LE || op == opcode.GT || op == opcode.GE) && (ai.k == rvNull || bi.k == rvNull) {
			m.push(rvMkBool(false))
			return
		}
		c := rvAsInt(ai).Cmp(rvAsInt(bi))
		var r bool
		switch op {
		case opcode.NUMEQUAL:
			r = c == 0
		case opcode.NUMNOTEQUAL:
			r = c != 0
		case opcode.LT:
			r = c < 0
		case opcode.LE:
			r = c <= 0
		case opcode.GT:
			r = c > 0
		default:
			r = c >= 0
		}
		m.push(rvMkBool(r))
	case opcode.MIN, opcode.MAX:
		b := m.popInt()
		a := m.popInt()
		c := a.Cmp(b)
		if (op == opcode.MIN) == (c <= 0) {
			m.push(rvMkInt(a))
		} else {
			m.push(rvMkInt(b))
		}
	case opcode.WITHIN:
		b := m.popInt()
		a := m.popInt()
		x := m.popInt()
		m.push(rvMkBool(a.Cmp(x) <= 0 && x.Cmp(b) < 0))
	case opcode.PACKMAP:
		n := m.popIndex()
		if n < 0 || 2*n > len(*f.stack) {
			rvFail("PACKMAP size")
		}
		r := &rvItem{k: rvMap}
		for i := 0; i < n; i++ {
			k := m.pop()
			rvCheckKey(k)
			v := m.pop()
			rvMapSet(r, k, v)
		}
		m.push(r)
	case opcode.PACK, opcode.PACKSTRUCT:
		n := m.popIndex()
		if n < 0 || n > len(*f.stack) {
			rvFail("PACK size")
		}
		r := &rvItem{k: rvArray, el: make([]*rvItem, n)}
		if op == opcode.PACKSTRUCT {
			r.k = rvStruct
		}
		for i := 0; i < n; i++ {
			r.el[i] = m.pop()
		}
		m.push(r)
	case opcode.UNPACK:
		x := m.pop()
		switch x.k {
		case rvArray, rvStruct:
			for i := len(x.el) - 1; i >= 0; i-- {
				m.push(x.el[i])
			}
			m.push(rvMkSmall(len(x.el)))
		case rvMap:
			for i := len(x.mk) - 1; i >= 0; i-- {
				m.push(x.mv[i])
				m.push(x.mk[i])
			}
			m.push(rvMkSmall(len(x.mk)))
		default:
			rvFail("UNPACK of a non-compound item")
		}
	case opcode.NEWARRAY0:
		m.push(&rvItem{k: rvArray, el: []*rvItem{}})
	case opcode.NEWSTRUCT0:
		m.push(&rvItem{k: rvStruct, el: []*rvItem{}})
	case opcode.NEWARRAY, opcode.NEWSTRUCT, opcode.NEWARRAYT:
		n := m.popIndex()
		if n < 0 || n > rvMaxStack {
			rvFail("array size")
		}
		r := &rvItem{k: rvArray, el: make([]*rvItem, n)}
		if op == opcode.NEWSTRUCT {
			r.k = rvStruct
		}
		t := rvTAny
		if op == opcode.NEWARRAYT {
			t = int(arg[0])
			if !rvValidType(t) {
				rvFail("invalid type")
			}
		}
		for i := range r.el {
			switch t {
			case rvTBool:
				r.el[i] = rvMkBool(false)
			case rvTInt:
				r.el[i] = rvMkSmall(0)
			case rvTBytes:
				r.el[i] = rvMkBytes([]byte{})
			default:
				r.el[i] = &rvItem{k: rvNull}
			}
		}
		m.push(r)
	case opcode.NEWMAP:
		m.push(&rvItem{k: rvMap})
	case opcode.SIZE:
		x := m.pop()
		switch x.k {
		case rvArray, rvStruct:
			m.push(rvMkSmall(len(x.el)))
		case rvMap:
			m.push(rvMkSmall(len(x.mk)))
		case rvBool, rvInt, rvBytes, rvBuffer:
			m.push(rvMkSmall(len(rvAsBytes(x))))
		default:
			rvFail("SIZE of an item without size")
		}
	case opcode.HASKEY:
		k := m.pop()
		if !rvIsPrimitive(k) {
			rvFail("key is not primitive")
		}
		x := m.pop()
		switch x.k {
		case rvArray, rvStruct:
			i := rvIndex(k)
			if i < 0 {
				rvFail("negative index")
			}
			if i >= rvMaxItemSize {
				rvUnspec("HASKEY index beyond the maximum item size (hardfork dependent)")
			}
			m.push(rvMkBool(i < len(x.el)))
		case rvMap:
			rvCheckKey(k)
			m.push(rvMkBool(rvMapFind(x, k) >= 0))
		case rvBytes, rvBuffer:
			i := rvIndex(k)
			if i < 0 {
				rvFail("negative index")
			}
			if i >= rvMaxItemSize {
				rvUnspec("HASKEY index beyond the maximum item size (hardfork dependent)")
			}
			m.push(rvMkBool(i < len(x.bs)))
		default:
			rvFail("HASKEY on a wrong type")
		}
	case opcode.KEYS:
		x := m.pop()
		if x.k != rvMap {
			rvFail("KEYS of a non-map")
		}
		m.push(&rvItem{k: rvArray, el: append([]*rvItem{}, x.mk...)})
	case opcode.VALUES:
		x := m.pop()
		var src []*rvItem
		switch x.k {
		case rvArray, rvStruct:
			src = x.el
		case rvMap:
			src = x.mv
		default:
			rvFail("VALUES of a non-compound")
		}
		r := &rvItem{k: rvArray, el: make([]*rvItem, len(src))}
		for i, e := range src {
			r.el[i] = rvCloneIfStruct(e)
		}
		m.push(r)
	case opcode.PICKITEM:
		k := m.pop()
		if !rvIsPrimitive(k) {
			rvFail("key is not primitive")
		}
		x := m.pop()
		switch x.k {
		case rvArray, rvStruct:
			i := rvIndex(k)
			if i < 0 || i >= len(x.el) {
				m.throw(&rvItem{k: rvBytes, opaque: true})
				return
			}
			m.push(x.el[i])
		case rvMap:
			rvCheckKey(k)
			i := rvMapFind(x, k)
			if i < 0 {
				m.throw(&rvItem{k: rvBytes, opaque: true})
				return
			}
			m.push(x.mv[i])
		case rvBool, rvInt, rvBytes, rvBuffer:
			bs := rvAsBytes(x)
			i := rvIndex(k)
			if i < 0 || i >= len(bs) {
				m.throw(&rvItem{k: rvBytes, opaque: true})
				return
			}
			m.push(&rvItem{k: rvInt, n: new(big.Int).SetUint64(uint64(bs[i]))})
		default:
			rvFail("PICKITEM on a wrong type")
		}
	case opcode.APPEND:
		it := rvCloneIfStruct(m.pop())
		x := m.pop()
		if x.k != rvArray && x.k != rvStruct {
			rvFail("APPEND to a non-array")
		}
		x.el = append(x.el, it)
	case opcode.SETITEM:
		v := rvCloneIfStruct(m.pop())
		k := m.pop()
		if !rvIsPrimitive(k) {
			rvFail("key is not primitive")
		}
		x := m.pop()
		switch x.k {
		case rvArray, rvStruct:
			i := rvIndex(k)
			if i < 0 || i >= len(x.el) {
				m.throw(&rvItem{k: rvBytes, opaque: true})
				return
			}
			x.el[i] = v
		case rvMap:
			rvCheckKey(k)
			rvMapSet(x, k, v)
		case rvBuffer:
			i := rvIndex(k)
			if i < 0 || i >= len(x.bs) {
				m.throw(&rvItem{k: rvBytes, opaque: true})
				return
			}
			if !rvIsPrimitive(v) {
				rvFail("value is not primitive")
			}
			b := rvIndex(v)
			if b < -128 || b > 255 {
				rvFail("value is not a byte")
			}
			x.bs[i] = byte(b)
		default:
			rvFail("SETITEM on a wrong type")
		}
	case opcode.REVERSEITEMS:
		x := m.pop()
		switch x.k {
		case rvArray, rvStruct:
			for i, j := 0, len(x.el)-1; i < j; i, j = i+1, j-1 {
				x.el[i], x.el[j] = x.el[j], x.el[i]
			}
		case rvBuffer:
			for i, j := 0, len(x.bs)-1; i < j; i, j = i+1, j-1 {
				x.bs[i], x.bs[j] = x.bs[j], x.bs[i]
			}
		default:
			rvFail("REVERSEITEMS on a wrong type")
		}
	case opcode.REMOVE:
		k := m.pop()
		if !rvIsPrimitive(k) {
			rvFail("key is not primitive")
		}
		x := m.pop()
		switch x.k {
		case rvArray, rvStruct:
			i := rvIndex(k)
			if i < 0 || i >= len(x.el) {
				rvFail("REMOVE index")
			}
			ne := append([]*rvItem{}, x.el[:i]...)
			x.el = append(ne, x.el[i+1:]...)
		case rvMap:
			rvCheckKey(k)
			i := rvMapFind(x, k)
			if i >= 0 {
				nk := append([]*rvItem{}, x.mk[:i]...)
				x.mk = append(nk, x.mk[i+1:]...)
				nv := append([]*rvItem{}, x.mv[:i]...)
				x.mv = append(nv, x.mv[i+1:]...)
			}
		default:
			rvFail("REMOVE on a wrong type")
		}
	case opcode.CLEARITEMS:
		x := m.pop()
		switch x.k {
		case rvArray, rvStruct:
			x.el = []*rvItem{}
		case rvMap:
			x.mk, x.mv = nil, nil
		default:
			rvFail("CLEARITEMS on a wrong type")
		}
	case opcode.POPITEM:
		x := m.pop()
		if x.k != rvArray && x.k != rvStruct {
			rvFail("POPITEM on a wrong type")
		}
		if len(x.el) == 0 {
			rvFail("POPITEM on an empty array")
		}
		it := x.el[len(x.el)-1]
		x.el = x.el[:len(x.el)-1]
		m.push(it)
	case opcode.ISNULL:
		m.push(rvMkBool(m.pop().k == rvNull))
	case opcode.ISTYPE:
		t := int(arg[0])
		x := m.pop()
		if t == rvTAny || !rvValidType(t) {
			rvFail("invalid type")
		}
		m.push(rvMkBool(rvTypeByte(x.k) == t))
	case opcode.CONVERT:
		t := int(arg[0])
		x := m.pop()
		m.push(rvConvert(x, t))
	default:
		rvFail("instruction outside the reference")
	}
}

func rvMapSet(m *rvItem, k, v *rvItem) {
	if i := rvMapFind(m, k); i >= 0 {
		m.mv[i] = v
		return
	}
	m.mk = append(m.mk, k)
	m.mv = append(m.mv, v)
}

func (m *rvVM) call(f *rvFrame, target int) {
	if target < 0 || target > len(m.script) {
		rvFail("call out of the script")
	}
	if target == len(m.script) {
		rvUnspec("call to the end of the script")
	}
	if len(m.frames) >= rvMaxInvocation {
		rvFail("invocation stack too deep")
	}
	nf := &rvFrame{ip: target, stack: f.stack, static: f.static}
	m.frames = append(m.frames, nf)
}

func rvConvert(x *rvItem, t int) *rvItem {
	if x.k == rvNull {
		if t == rvTAny || !rvValidType(t) {
			rvFail("invalid type")
		}
		return x
	}
	if !rvValidType(t) {
		rvFail("invalid type")
	}
	if rvTypeByte(x.k) == t {
		return x
	}
	if t == rvTBool {
		return rvMkBool(rvAsBool(x))
	}
	switch x.k {
	case rvBool, rvInt, rvBytes:
		switch t {
		case rvTInt:
			return rvMkInt(rvAsInt(x))
		case rvTBytes:
			if x.k == rvInt {
				return &rvItem{k: rvBytes, ofInt: x.n}
			}
			return rvMkBytes(append([]byte{}, rvAsBytes(x)...))
		case rvTBuffer:
			if x.k == rvInt {
				return &rvItem{k: rvBuffer, ofInt: x.n}
			}
			return rvMkBuf(append([]byte{}, rvAsBytes(x)...))
		}
	case rvBuffer:
		switch t {
		case rvTInt:
			return rvMkInt(rvBytesInt(x.bs))
		case rvTBytes:
			return rvMkBytes(append([]byte{}, x.bs...))
		}
	case rvArray:
		if t == rvTStruct {
			return &rvItem{k: rvStruct, el: append([]*rvItem{}, x.el...)}
		}
	case rvStruct:
		if t == rvTArray {
			return &rvItem{k: rvArray, el: append([]*rvItem{}, x.el...)}
		}
	}
	rvFail("invalid conversion")
	return nil
}

// ---- bridge between the reference model and the real VM ----

// rvToReal builds the real stack item mirroring a reference item (sharing preserved).
func rvToReal(it *rvItem, memo map[*rvItem]stackitem.Item) stackitem.Item {
	if r, ok := memo[it]; ok {
		return r
	}
	var r stackitem.Item
	switch it.k {
	case rvNull:
		r = stackitem.Null{}
	case rvBool:
		r = stackitem.Bool(it.b)
	case rvInt:
		r = stackitem.NewBigInteger(new(big.Int).Set(it.n))
	case rvBytes:
		r = stackitem.NewByteArray(append([]byte{}, it.bs...))
	case rvBuffer:
		r = stackitem.NewBuffer(append([]byte{}, it.bs...))
	case rvPointer:
		r = stackitem.NewPointer(it.pos, nil)
	case rvArray, rvStruct:
		el := make([]stackitem.Item, len(it.el))
		if it.k == rvArray {
			r = stackitem.NewArray(el)
		} else {
			r = stackitem.NewStruct(el)
		}
		memo[it] = r
		for i, e := range it.el {
			el[i] = rvToReal(e, memo)
		}
		return r
	case rvMap:
		mp := stackitem.NewMap()
		memo[it] = mp
		for i := range it.mk {
			mp.Add(rvToReal(it.mk[i], memo), rvToReal(it.mv[i], memo))
		}
		return mp
	}
	if it.k == rvBuffer {
		memo[it] = r
	}
	return r
}

// rvSame compares a real item with a reference item structurally; identities of compound
// items and buffers must correspond one to one (fwd/bwd record the pairing).
func rvSame(real stackitem.Item, ref *rvItem, fwd map[stackitem.Item]*rvItem, bwd map[*rvItem]stackitem.Item, depth int) bool {
	if depth > 8 {
		return true
	}
	switch ref.k {
	case rvNull:
		_, ok := real.(stackitem.Null)
		return ok
	case rvBool:
		b, ok := real.(stackitem.Bool)
		return ok && bool(b) == ref.b
	case rvInt:
		bi, ok := real.(*stackitem.BigInteger)
		return ok && bi.Big().Cmp(ref.n) == 0
	case rvBytes:
		ba, ok := real.(*stackitem.ByteArray)
		if !ok {
			return false
		}
		if ref.opaque {
			return true
		}
		if ref.ofInt != nil && ref.bs == nil {
			return rvIsEncodingOf([]byte(*ba), ref.ofInt)
		}
		return rvBytesEq([]byte(*ba), ref.bs)
	case rvPointer:
		p, ok := real.(*stackitem.Pointer)
		return ok && p.Position() == ref.pos
	case rvBuffer:
		bf, ok := real.(*stackitem.Buffer)
		if !ok {
			return false
		}
		if o, seen := fwd[real]; seen {
			return o == ref
		}
		if _, seen := bwd[ref]; seen {
			return false
		}
		fwd[real], bwd[ref] = ref, real
		if ref.ofInt != nil && ref.bs == nil {
			return rvIsEncodingOf([]byte(*bf), ref.ofInt)
		}
		return rvBytesEq([]byte(*bf), ref.bs)
	case rvArray, rvStruct:
		var el []stackitem.Item
		if ref.k == rvArray {
			a, ok := real.(*stackitem.Array)
			if !ok {
				return false
			}
			el = a.Value().([]stackitem.Item)
		} else {
			s, ok := real.(*stackitem.Struct)
			if !ok {
				return false
			}
			el = s.Value().([]stackitem.Item)
		}
		if o, seen := fwd[real]; seen {
			return o == ref
		}
		if _, seen := bwd[ref]; seen {
			return false
		}
		fwd[real], bwd[ref] = ref, real
		if len(el) != len(ref.el) {
			return false
		}
		for i := range el {
			if !rvSame(el[i], ref.el[i], fwd, bwd, depth+1) {
				return false
			}
		}
		return true
	case rvMap:
		mp, ok := real.(*stackitem.Map)
		if !ok {
			return false
		}
		if o, seen := fwd[real]; seen {
			return o == ref
		}
		if _, seen := bwd[ref]; seen {
			return false
		}
		fwd[real], bwd[ref] = ref, real
		es := mp.Value().([]stackitem.MapElement)
		if len(es) != len(ref.mk) {
			return false
		}
		for i := range es {
			if !rvSame(es[i].Key, ref.mk[i], fwd, bwd, depth+1) || !rvSame(es[i].Value, ref.mv[i], fwd, bwd, depth+1) {
				return false
			}
		}
		return true
	}
	return false
}

// rvCompare runs script over the initial stack in the real VM and in the reference and
// asserts the same outcome: FAULT on both sides, or HALT with structurally equal result stacks.
func rvCompare(script []byte, initial []*rvItem, site string, maxSteps int) {
	memo := map[*rvItem]stackitem.Item{}
	v := New()
	v.LoadScript(script)
	for _, it := range initial {
		v.estack.PushItem(rvToReal(it, memo))
	}
	ref := rvNew(script, initial)
	ref.run(maxSteps)
	vfAssume(!(ref.faulted && ref.why == "reference step budget")) // longer runs are outside the bound
	vfAssume(!ref.unspec)                                            // corners the specification leaves open
	err := v.Run()
	realFault := err != nil || v.state == vmstate.Fault
	if ref.faulted {
		vfNote(site+":ref-fault", ref.why)
	}
	vfAssert(realFault == ref.faulted, site+":FAULT<=>spec-FAULT")
	if realFault || ref.faulted {
		return
	}
	vfAssert(v.state == vmstate.Halt, site+":HALT")
	n := v.estack.Len()
	vfAssert(n == len(ref.result), site+":result-count")
	if n != len(ref.result) {
		return
	}
	fwd, bwd := map[stackitem.Item]*rvItem{}, map[*rvItem]stackitem.Item{}
	same := true
	for i := 0; i < n; i++ {
		// estack.Peek(0) is the top; the reference keeps the top last
		same = vfAnd(same, rvSame(v.estack.Peek(i).Item(), ref.result[n-1-i], fwd, bwd, 0))
	}
	vfAssert(same, site+":result-stack")
}
