//vf:pkg pkg/vm
package vm

import (
	"math/big"

	"github.com/nspcc-dev/neo-go/pkg/vm/opcode"
)

// C13: stack manipulation, slot, splice, compound-type and equality instructions against
// the reference, one instruction (or a short fixed sequence) over symbolic operands.

// vhIdx: an operand used as index/count: any 64-bit integer (symbolic), a few integers beyond
// 64 bits, or a value of another type.
func vhIdx(name string) *rvItem {
	switch vfChoose(name+"-kind", 0, 4) {
	case 0:
		return &rvItem{k: rvInt, n: big.NewInt(vfI64(name + "-i64"))}
	case 1:
		return rvMkBool(vfBool(name + "-b"))
	case 2:
		return rvMkBytes(vfBytes(name+"-bytes", 1))
	case 3:
		h, _ := new(big.Int).SetString([]string{"18446744073709551616", "-18446744073709551617", "57896044618658097711785492504343953926634992332820282019728792003956564819967"}[vfChoose(name+"-huge", 0, 2)], 10)
		return &rvItem{k: rvInt, n: h}
	}
	return &rvItem{k: rvNull}
}

func vhInts(name string, n int) []*rvItem {
	r := make([]*rvItem, n)
	for i := range r {
		r[i] = &rvItem{k: rvInt, n: vfBig(name+string(rune('a'+i)), 256)}
	}
	return r
}

var vhStackOps = []opcode.Opcode{opcode.DEPTH, opcode.DROP, opcode.NIP, opcode.CLEAR, opcode.DUP, opcode.OVER, opcode.TUCK,
	opcode.SWAP, opcode.ROT, opcode.REVERSE3, opcode.REVERSE4}
var vhStackIdxOps = []opcode.Opcode{opcode.XDROP, opcode.PICK, opcode.ROLL, opcode.REVERSEN}

//vf:tier quick
//vf:bigint theory
//vf:unwind 80
//vf:bound DEPTH DROP NIP CLEAR DUP OVER TUCK SWAP ROT REVERSE3 REVERSE4 on stacks of 0..4 symbolic integers; XDROP PICK ROLL REVERSEN with the count operand any 64-bit integer, three integers beyond 64 bits, a boolean, a one-byte string or Null over 0..4 items
func VF_C13_stack_ops() {
	depth := vfChoose("depth", 0, 4)
	st := vhInts("s", depth)
	if vfChoose("indexed", 0, 1) == 0 {
		op := vhStackOps[vfChoose("op", 0, len(vhStackOps)-1)]
		rvCompare([]byte{byte(op), byte(opcode.RET)}, st, "stack", 8)
		return
	}
	op := vhStackIdxOps[vfChoose("op", 0, len(vhStackIdxOps)-1)]
	st = append(st, vhIdx("n"))
	rvCompare([]byte{byte(op), byte(opcode.RET)}, st, "stack-indexed", 8)
}

//vf:tier quick
//vf:bigint theory
//vf:unwind 80
//vf:bound slots: optional INITSSLOT (1 or 3 statics; 0 with the zero-count fault) and INITSLOT (0/2 locals x 0/2 arguments), optionally repeated, then one store and one load through the indexed forms with symbolic index bytes < 8 or through the short forms 0..6, access without initialisation included
func VF_C13_slots() {
	var script []byte
	switch vfChoose("init", 0, 4) {
	case 0: // nothing initialised
	case 1:
		script = append(script, byte(opcode.INITSSLOT), byte(vfChoose("statics", 0, 1)*3))
	case 2:
		script = append(script, byte(opcode.INITSLOT), byte(vfChoose("locals", 0, 1)*2), byte(vfChoose("args", 0, 1)*2))
	case 3:
		script = append(script, byte(opcode.INITSSLOT), 1, byte(opcode.INITSLOT), 2, 2)
	case 4: // double initialisation
		if vfBool("twice-static") {
			script = append(script, byte(opcode.INITSSLOT), 1, byte(opcode.INITSSLOT), 1)
		} else {
			script = append(script, byte(opcode.INITSLOT), 1, 0, byte(opcode.INITSLOT), 1, 0)
		}
	}
	i, j := vfU8("i"), vfU8("j")
	vfAssume(i < 8 && j < 8)
	kind := vfChoose("slot-kind", 0, 2)
	st := []opcode.Opcode{opcode.STSFLD, opcode.STLOC, opcode.STARG}[kind]
	ld := []opcode.Opcode{opcode.LDSFLD, opcode.LDLOC, opcode.LDARG}[kind]
	if vfBool("cross-kind") {
		ld = []opcode.Opcode{opcode.LDLOC, opcode.LDARG, opcode.LDSFLD}[kind]
	}
	script = append(script, byte(opcode.PUSH7))
	if vfBool("short-forms") {
		vfAssume(i < 7 && j < 7)
		script = append(script, byte(st)-7+i, byte(ld)-7+j) // STSFLD0..6 precede STSFLD
	} else {
		script = append(script, byte(st), i, byte(ld), j)
	}
	script = append(script, byte(opcode.RET))
	rvCompare(script, vhInts("a", 3), "slots", 12)
}

// vhBytesLike: an operand for splice instructions.
func vhBytesLike(name string) *rvItem {
	switch vfChoose(name+"-kind", 0, 5) {
	case 0:
		return rvMkBytes(vfBytes(name+"-bytes", vfChoose(name+"-len", 0, 3)))
	case 1:
		return rvMkBuf(vfBytes(name+"-bytes", vfChoose(name+"-len", 0, 3)))
	case 2:
		// an integer given by its 0..3 byte two's complement form (every value in +-2^23)
		return &rvItem{k: rvInt, n: rvBytesInt(vfBytes(name+"-ibytes", vfChoose(name+"-ilen", 0, 3)))}
	case 3:
		return rvMkBool(vfBool(name + "-b"))
	case 4:
		return &rvItem{k: rvNull}
	}
	return &rvItem{k: rvArray, el: []*rvItem{}}
}

//vf:tier quick
//vf:bigint theory
//vf:unwind 80
//vf:bound CAT of two operands (byte strings/buffers of 0..3 symbolic bytes, integers within +-2^23, booleans, Null, Array); SUBSTR LEFT RIGHT on such an operand with index/count any 64-bit integer (or three larger ones, bool, byte string, Null); NEWBUFFER with a count <= 8 or any larger/negative integer (allocation above 8 bytes cut)
func VF_C13_splice() {
	switch vfChoose("op", 0, 4) {
	case 0:
		rvCompare([]byte{byte(opcode.CAT), byte(opcode.RET)}, []*rvItem{vhBytesLike("x"), vhBytesLike("y")}, "CAT", 8)
	case 1:
		rvCompare([]byte{byte(opcode.SUBSTR), byte(opcode.RET)}, []*rvItem{vhBytesLike("x"), vhIdx("i"), vhIdx("n")}, "SUBSTR", 8)
	case 2:
		rvCompare([]byte{byte(opcode.LEFT), byte(opcode.RET)}, []*rvItem{vhBytesLike("x"), vhIdx("n")}, "LEFT", 8)
	case 3:
		rvCompare([]byte{byte(opcode.RIGHT), byte(opcode.RET)}, []*rvItem{vhBytesLike("x"), vhIdx("n")}, "RIGHT", 8)
	case 4:
		n := vhIdx("n")
		if n.k == rvInt {
			// sizes 9..MaxSize allocate a concrete-length zero buffer the engine does not enumerate
			vfAssume(n.n.Cmp(big.NewInt(8)) <= 0 || n.n.Cmp(big.NewInt(rvMaxItemSize)) > 0)
		}
		rvCompare([]byte{byte(opcode.NEWBUFFER), byte(opcode.RET)}, []*rvItem{n}, "NEWBUFFER", 8)
	}
}

//vf:tier quick
//vf:bigint theory
//vf:unwind 80
//vf:bound MEMCPY from a byte string or buffer (or an invalid Array) of 0..3 symbolic bytes into a buffer of 0..3 bytes (or into a byte string: fault) with destination index, source index and count any 64-bit integers; or one of the three a larger integer, boolean, byte string or Null with the other two fixed
func VF_C13_memcpy() {
	dst := rvMkBuf(vfBytes("dst", vfChoose("dst-len", 0, 3)))
	if vfChoose("dst-kind", 0, 3) == 3 {
		dst = rvMkBytes(vfBytes("dstb", 2))
	}
	var src *rvItem
	switch vfChoose("src-kind", 0, 2) {
	case 0:
		src = rvMkBytes(vfBytes("src", vfChoose("src-len", 0, 3)))
	case 1:
		src = rvMkBuf(vfBytes("src", vfChoose("src-len", 0, 3)))
	default:
		src = &rvItem{k: rvArray, el: []*rvItem{}}
	}
	var idx []*rvItem
	if odd := vfChoose("odd", 0, 3); odd < 3 {
		// one operand of another type or beyond 64 bits, the other two fixed to 0 and 1
		idx = []*rvItem{rvMkSmall(0), rvMkSmall(0), rvMkSmall(1)}
		idx[odd] = vhIdx("odd-operand")
	} else {
		idx = []*rvItem{{k: rvInt, n: big.NewInt(vfI64("di"))}, {k: rvInt, n: big.NewInt(vfI64("si"))}, {k: rvInt, n: big.NewInt(vfI64("n"))}}
	}
	// MEMCPY keeps nothing on the stack: a second reference to the destination makes the effect observable
	rvCompare([]byte{byte(opcode.MEMCPY), byte(opcode.RET)}, []*rvItem{dst, dst, idx[0], src, idx[1], idx[2]}, "MEMCPY", 8)
}
