//vf:pkg pkg/vm
package vm

import (
	"math/big"

	"github.com/nspcc-dev/neo-go/pkg/vm/opcode"
	"github.com/nspcc-dev/neo-go/pkg/vm/stackitem"
	"github.com/nspcc-dev/neo-go/pkg/vm/vmstate"
)

// C13: arithmetic, bitwise and comparison instructions against a reference written over
// unbounded integers with explicit 256-bit range checks.

var vhMin = new(big.Int).Neg(new(big.Int).Lsh(big.NewInt(1), 255))
var vhMax = new(big.Int).Lsh(big.NewInt(1), 255) // exclusive

func vhInRange(x *big.Int) bool { return x.Cmp(vhMin) >= 0 && x.Cmp(vhMax) < 0 }

func vhInt(name string) *big.Int { return vfBig(name, 256) }

// vfExec runs a one-instruction script over the given operands (pushed in order).
func vhExec(op opcode.Opcode, operands ...stackitem.Item) (*VM, error) {
	v := New()
	v.LoadScript([]byte{byte(op), byte(opcode.RET)})
	for _, it := range operands {
		v.estack.PushItem(it)
	}
	err := v.Run()
	return v, err
}

func vhI(x *big.Int) stackitem.Item { return stackitem.NewBigInteger(x) }

// vhExpectInt asserts: FAULT iff the exact result is outside the 256-bit range, else HALT with it on top.
func vhExpectInt(v *VM, err error, want *big.Int, site string) {
	if !vhInRange(want) {
		vfAssert(err != nil && v.state == vmstate.Fault, site+":out-of-range=>FAULT")
		return
	}
	vfAssert(err == nil && v.state == vmstate.Halt, site+":in-range=>HALT")
	if err != nil {
		return
	}
	vfAssert(v.estack.Len() == 1, site+":one-result")
	got := v.estack.Pop().BigInt()
	vfAssert(got.Cmp(want) == 0, site+":value")
}

func vhExpectBool(v *VM, err error, want bool, site string) {
	vfAssert(err == nil && v.state == vmstate.Halt, site+":HALT")
	if err != nil {
		return
	}
	vfAssert(v.estack.Len() == 1, site+":one-result")
	it := v.estack.Pop().Item()
	b, ok := it.(stackitem.Bool)
	vfAssert(ok && bool(b) == want, site+":value")
}

//vf:tier quick
//vf:bigint theory
//vf:unwind 64
//vf:bound ADD, SUB over any two integers in the 256-bit range
func VF_C13_add_sub() {
	a, b := vhInt("a"), vhInt("b")
	switch vfChoose("op", 0, 1) {
	case 0:
		v, err := vhExec(opcode.ADD, vhI(a), vhI(b))
		vhExpectInt(v, err, new(big.Int).Add(a, b), "ADD")
	case 1:
		v, err := vhExec(opcode.SUB, vhI(a), vhI(b))
		vhExpectInt(v, err, new(big.Int).Sub(a, b), "SUB")
	}
}

//vf:tier quick
//vf:bigint theory
//vf:unwind 64
//vf:bound NEGATE ABS SIGN INC DEC INVERT NZ NOT over any integer in the 256-bit range
func VF_C13_unary() {
	a := vhInt("a")
	one := big.NewInt(1)
	switch vfChoose("op", 0, 7) {
	case 0:
		v, err := vhExec(opcode.NEGATE, vhI(a))
		vhExpectInt(v, err, new(big.Int).Neg(a), "NEGATE")
	case 1:
		v, err := vhExec(opcode.ABS, vhI(a))
		vhExpectInt(v, err, new(big.Int).Abs(a), "ABS")
	case 2:
		v, err := vhExec(opcode.SIGN, vhI(a))
		vhExpectInt(v, err, big.NewInt(int64(a.Sign())), "SIGN")
	case 3:
		v, err := vhExec(opcode.INC, vhI(a))
		vhExpectInt(v, err, new(big.Int).Add(a, one), "INC")
	case 4:
		v, err := vhExec(opcode.DEC, vhI(a))
		vhExpectInt(v, err, new(big.Int).Sub(a, one), "DEC")
	case 5:
		// INVERT is bitwise complement in two's complement: -a-1
		v, err := vhExec(opcode.INVERT, vhI(a))
		vhExpectInt(v, err, new(big.Int).Sub(new(big.Int).Neg(a), one), "INVERT")
	case 6:
		v, err := vhExec(opcode.NZ, vhI(a))
		vhExpectBool(v, err, a.Sign() != 0, "NZ")
	case 7:
		// NOT converts an integer to boolean (non-zero is true) and negates
		v, err := vhExec(opcode.NOT, vhI(a))
		vhExpectBool(v, err, a.Sign() == 0, "NOT")
	}
}

//vf:tier quick
//vf:bigint theory
//vf:unwind 64
//vf:bound LT LE GT GE NUMEQUAL NUMNOTEQUAL MIN MAX over any two integers; WITHIN over any three; BOOLAND BOOLOR over two
func VF_C13_compare() {
	a, b := vhInt("a"), vhInt("b")
	c := a.Cmp(b)
	switch vfChoose("op", 0, 10) {
	case 0:
		v, err := vhExec(opcode.LT, vhI(a), vhI(b))
		vhExpectBool(v, err, c < 0, "LT")
	case 1:
		v, err := vhExec(opcode.LE, vhI(a), vhI(b))
		vhExpectBool(v, err, c <= 0, "LE")
	case 2:
		v, err := vhExec(opcode.GT, vhI(a), vhI(b))
		vhExpectBool(v, err, c > 0, "GT")
	case 3:
		v, err := vhExec(opcode.GE, vhI(a), vhI(b))
		vhExpectBool(v, err, c >= 0, "GE")
	case 4:
		v, err := vhExec(opcode.NUMEQUAL, vhI(a), vhI(b))
		vhExpectBool(v, err, c == 0, "NUMEQUAL")
	case 5:
		v, err := vhExec(opcode.NUMNOTEQUAL, vhI(a), vhI(b))
		vhExpectBool(v, err, c != 0, "NUMNOTEQUAL")
	case 6:
		want := a
		if c > 0 {
			want = b
		}
		v, err := vhExec(opcode.MIN, vhI(a), vhI(b))
		vhExpectInt(v, err, want, "MIN")
	case 7:
		want := a
		if c < 0 {
			want = b
		}
		v, err := vhExec(opcode.MAX, vhI(a), vhI(b))
		vhExpectInt(v, err, want, "MAX")
	case 8:
		// WITHIN x a b: a <= x < b
		x := vhInt("x")
		v, err := vhExec(opcode.WITHIN, vhI(x), vhI(a), vhI(b))
		vhExpectBool(v, err, a.Cmp(x) <= 0 && x.Cmp(b) < 0, "WITHIN")
	case 9:
		v, err := vhExec(opcode.BOOLAND, vhI(a), vhI(b))
		vhExpectBool(v, err, a.Sign() != 0 && b.Sign() != 0, "BOOLAND")
	case 10:
		v, err := vhExec(opcode.BOOLOR, vhI(a), vhI(b))
		vhExpectBool(v, err, a.Sign() != 0 || b.Sign() != 0, "BOOLOR")
	}
}

//vf:tier quick
//vf:bigint theory
//vf:unwind 64
//vf:bound comparison with Null: LT LE GT GE with Null on either side give false
func VF_C13_compare_null() {
	a := vhInt("a")
	op := []opcode.Opcode{opcode.LT, opcode.LE, opcode.GT, opcode.GE}[vfChoose("op", 0, 3)]
	switch vfChoose("side", 0, 2) {
	case 0:
		v, err := vhExec(op, stackitem.Null{}, vhI(a))
		vhExpectBool(v, err, false, "Null-left")
	case 1:
		v, err := vhExec(op, vhI(a), stackitem.Null{})
		vhExpectBool(v, err, false, "Null-right")
	case 2:
		v, err := vhExec(op, stackitem.Null{}, stackitem.Null{})
		vhExpectBool(v, err, false, "Null-both")
	}
}

func vhConst(name string, vals []string) *big.Int {
	i := vfChoose(name, 0, len(vals)-1)
	r, _ := new(big.Int).SetString(vals[i], 10)
	return r
}

//vf:tier quick
//vf:bigint theory
//vf:unwind 64
//vf:bound MUL: any integer times a constant from {0,+-1,+-2,+-3,2^127,2^128,-2^255}; DIV and MOD: any dividend by a divisor from {0,+-1,+-2,+-3,+-7,+-2^64,-2^255} (fully symbolic divisor is non-linear: outside the claim)
func VF_C13_mul_div_mod() {
	a := vhInt("a")
	switch vfChoose("op", 0, 2) {
	case 0:
		k := vhConst("k", []string{"0", "1", "-1", "2", "-2", "3", "-3", "170141183460469231731687303715884105728", "340282366920938463463374607431768211456",
			"-57896044618658097711785492504343953926634992332820282019728792003956564819968"})
		v, err := vhExec(opcode.MUL, vhI(a), vhI(k))
		vhExpectInt(v, err, new(big.Int).Mul(a, k), "MUL")
	case 1:
		k := vhConst("k", []string{"0", "1", "-1", "2", "-2", "3", "-3", "7", "-7", "18446744073709551616", "-18446744073709551616",
			"-57896044618658097711785492504343953926634992332820282019728792003956564819968"})
		v, err := vhExec(opcode.DIV, vhI(a), vhI(k))
		if k.Sign() == 0 {
			vfAssert(err != nil && v.state == vmstate.Fault, "DIV-by-zero=>FAULT")
			return
		}
		// truncated division
		vhExpectInt(v, err, new(big.Int).Quo(a, k), "DIV")
	case 2:
		k := vhConst("k", []string{"0", "1", "-1", "2", "-2", "3", "-3", "7", "-7", "18446744073709551616", "-18446744073709551616",
			"-57896044618658097711785492504343953926634992332820282019728792003956564819968"})
		v, err := vhExec(opcode.MOD, vhI(a), vhI(k))
		if k.Sign() == 0 {
			vfAssert(err != nil && v.state == vmstate.Fault, "MOD-by-zero=>FAULT")
			return
		}
		// remainder has the sign of the dividend: a - k*trunc(a/k)
		q := new(big.Int).Quo(a, k)
		vhExpectInt(v, err, new(big.Int).Sub(a, new(big.Int).Mul(k, q)), "MOD")
	}
}

//vf:tier quick
//vf:bigint theory
//vf:unwind 64
//vf:bound AND OR XOR of any integer with a constant from {0, -1, 0xFF, 2^255-1} (exact two's-complement identities); two fully symbolic operands need an Int<->BV bridge the solvers do not decide in time: outside the claim
func VF_C13_bitwise() {
	a := vhInt("a")
	m255 := new(big.Int).Sub(new(big.Int).Lsh(big.NewInt(1), 255), big.NewInt(1))
	ks := []*big.Int{big.NewInt(0), big.NewInt(-1), big.NewInt(255), m255}
	k := ks[vfChoose("k", 0, 3)]
	kSwap := vfBool("swap")
	x, y := vhI(a), vhI(k)
	if kSwap {
		x, y = y, x
	}
	var want *big.Int
	switch vfChoose("op", 0, 2) {
	case 0:
		v, err := vhExec(opcode.AND, x, y)
		switch {
		case k.Sign() == 0:
			want = big.NewInt(0)
		case k.Sign() < 0:
			want = a
		default:
			want = new(big.Int).Mod(a, new(big.Int).Add(k, big.NewInt(1))) // low bits
		}
		vhExpectInt(v, err, want, "AND")
	case 1:
		if k.Sign() > 0 {
			return
		}
		v, err := vhExec(opcode.OR, x, y)
		if k.Sign() == 0 {
			want = a
		} else {
			want = big.NewInt(-1)
		}
		vhExpectInt(v, err, want, "OR")
	case 2:
		if k.Sign() > 0 {
			return
		}
		v, err := vhExec(opcode.XOR, x, y)
		if k.Sign() == 0 {
			want = a
		} else {
			want = new(big.Int).Sub(new(big.Int).Neg(a), big.NewInt(1))
		}
		vhExpectInt(v, err, want, "XOR")
	}
}

//vf:tier quick
//vf:bigint theory
//vf:unwind 64
//vf:concretize 600
//vf:bound SHL, SHR: any integer, shift count any integer (0..256 valid, case split; outside => FAULT)
func VF_C13_shift() {
	a := vhInt("a")
	n := vfI64("n")
	vfAssume(n >= -2 && n <= 258)
	left := vfBool("left")
	op := opcode.SHR
	if left {
		op = opcode.SHL
	}
	v, err := vhExec(op, vhI(a), vhI(big.NewInt(n)))
	if n < 0 || n > 256 {
		vfAssert(err != nil && v.state == vmstate.Fault, "shift-count-out-of-range=>FAULT")
		return
	}
	k := int(vfConcrete(int(n), 0, 256))
	p := new(big.Int).Lsh(big.NewInt(1), uint(k))
	if left {
		vhExpectInt(v, err, new(big.Int).Mul(a, p), "SHL")
	} else {
		// arithmetic shift: floor division
		vhExpectInt(v, err, new(big.Int).Div(a, p), "SHR")
	}
}

//vf:tier quick
//vf:bigint theory
//vf:unwind 64
//vf:bound POW: base any integer with exponent 0..2 (exact), base in {0,+-1,+-2,+-3,+-2^127} with exponent 0..5, 255, 256, and exponent -1 / 257 => FAULT; SQRT: any integer (floor square root, negative => FAULT)
func VF_C13_pow_sqrt() {
	switch vfChoose("op", 0, 2) {
	case 0:
		a := vhInt("a")
		e := vfChoose("e", -1, 2)
		v, err := vhExec(opcode.POW, vhI(a), vhI(big.NewInt(int64(e))))
		if e < 0 {
			vfAssert(err != nil && v.state == vmstate.Fault, "POW-negative-exponent=>FAULT")
			return
		}
		want := big.NewInt(1)
		for i := 0; i < e; i++ {
			want = new(big.Int).Mul(want, a)
		}
		vhExpectInt(v, err, want, "POW-symbolic-base")
	case 1:
		b := vhConst("b", []string{"0", "1", "-1", "2", "-2", "3", "-3", "170141183460469231731687303715884105728", "-170141183460469231731687303715884105728"})
		es := []int64{0, 1, 2, 3, 4, 5, 255, 256, 257}
		e := es[vfChoose("e", 0, len(es)-1)]
		v, err := vhExec(opcode.POW, vhI(b), vhI(big.NewInt(e)))
		if e > 256 {
			vfAssert(err != nil && v.state == vmstate.Fault, "POW-exponent>256=>FAULT")
			return
		}
		want := new(big.Int).Exp(b, big.NewInt(e), nil)
		vhExpectInt(v, err, want, "POW-concrete")
	case 2:
		a := vhInt("a")
		v, err := vhExec(opcode.SQRT, vhI(a))
		if a.Sign() < 0 {
			vfAssert(err != nil && v.state == vmstate.Fault, "SQRT-negative=>FAULT")
			return
		}
		vfAssert(err == nil && v.state == vmstate.Halt, "SQRT:HALT")
		r := v.estack.Pop().BigInt()
		r1 := new(big.Int).Add(r, big.NewInt(1))
		vfAssert(r.Sign() >= 0 && new(big.Int).Mul(r, r).Cmp(a) <= 0 && new(big.Int).Mul(r1, r1).Cmp(a) > 0, "SQRT:floor-root")
	}
}

//vf:tier quick
//vf:bigint theory
//vf:unwind 64
//vf:bound MODMUL: any two integers x1,x2 in [-2^16,2^16) with a modulus from {0,+-1,+-2,+-3,+-7,2^64}; MODPOW: base from -3..3, exponent -2..4, modulus from {0,+-1,+-2,+-3,+-5,+-7} (enumerated), result sign follows the dividend (truncated remainder); modular inverse for exponent -1
func VF_C13_modmul_modpow() {
	switch vfChoose("op", 0, 1) {
	case 0:
		x1, x2 := vfBig("x1", 17), vfBig("x2", 17)
		m := vhConst("m", []string{"0", "1", "-1", "2", "-2", "3", "-3", "7", "-7", "18446744073709551616"})
		v, err := vhExec(opcode.MODMUL, vhI(x1), vhI(x2), vhI(m))
		if m.Sign() == 0 {
			vfAssert(err != nil && v.state == vmstate.Fault, "MODMUL-zero-modulus=>FAULT")
			return
		}
		p := new(big.Int).Mul(x1, x2)
		q := new(big.Int).Quo(p, m)
		vhExpectInt(v, err, new(big.Int).Sub(p, new(big.Int).Mul(m, q)), "MODMUL")
	case 1:
		b := big.NewInt(int64(vfChoose("b", -3, 3)))
		e := int64(vfChoose("e", -2, 4))
		m := big.NewInt(int64(vfChoose("m", -7, 7)))
		v, err := vhExec(opcode.MODPOW, vhI(b), vhI(big.NewInt(e)), vhI(m))
		switch {
		case e < -1:
			vfAssert(err != nil && v.state == vmstate.Fault, "MODPOW-exponent<-1=>FAULT")
		case e == -1:
			// modular inverse: defined iff base > 0, modulus >= 2 and gcd == 1
			var inv *big.Int
			if b.Sign() > 0 && m.Cmp(big.NewInt(2)) >= 0 {
				inv = new(big.Int).ModInverse(b, m)
			}
			if inv == nil {
				vfAssert(err != nil && v.state == vmstate.Fault, "MODPOW-inverse-undefined=>FAULT")
			} else {
				vhExpectInt(v, err, inv, "MODPOW-inverse")
			}
		case m.Sign() == 0:
			vfAssert(err != nil && v.state == vmstate.Fault, "MODPOW-zero-modulus=>FAULT")
		default:
			p := new(big.Int).Exp(b, big.NewInt(e), nil)
			q := new(big.Int).Quo(p, m)
			vhExpectInt(v, err, new(big.Int).Sub(p, new(big.Int).Mul(m, q)), "MODPOW")
		}
	}
}

//vf:tier quick
//vf:bigint theory
//vf:unwind 64
//vf:bound DIV and MOD with a dividend that is any 64-bit integer and a divisor from {-1,1,2,-2,3,-3,7,10,-2^63,2^63-1} or any integer in [-128,127]
func VF_C13_div_mod_int64() {
	a := big.NewInt(vfI64("a"))
	var b *big.Int
	if vfBool("small-symbolic-divisor") {
		b = big.NewInt(int64(int8(vfU8("b"))))
	} else {
		b = vhConst("d", []string{"-1", "1", "2", "-2", "3", "-3", "7", "10", "-9223372036854775808", "9223372036854775807"})
	}
	if vfChoose("op", 0, 1) == 0 {
		v, err := vhExec(opcode.DIV, vhI(a), vhI(b))
		if b.Sign() == 0 {
			vfAssert(err != nil, "DIV:by-zero=>FAULT")
			return
		}
		vhExpectInt(v, err, new(big.Int).Quo(a, b), "DIV64")
	} else {
		v, err := vhExec(opcode.MOD, vhI(a), vhI(b))
		if b.Sign() == 0 {
			vfAssert(err != nil, "MOD:by-zero=>FAULT")
			return
		}
		vhExpectInt(v, err, new(big.Int).Rem(a, b), "MOD64")
	}
}

//vf:tier quick
//vf:bigint theory
//vf:unwind 64
//vf:bound SHL, SHR of any 256-bit integer by a count from {0,1,2,3,7,8,63,64,65,127,128,254,255,256} (case split, so that implementations comparing the count with the operand's size stay decidable)
func VF_C13_shift_fixed_counts() {
	a := vhInt("a")
	k := []int{0, 1, 2, 3, 7, 8, 63, 64, 65, 127, 128, 254, 255, 256}[vfChoose("count", 0, 13)]
	p := new(big.Int).Lsh(big.NewInt(1), uint(k))
	if vfBool("left") {
		v, err := vhExec(opcode.SHL, vhI(a), vhI(big.NewInt(int64(k))))
		vhExpectInt(v, err, new(big.Int).Mul(a, p), "SHLk")
	} else {
		v, err := vhExec(opcode.SHR, vhI(a), vhI(big.NewInt(int64(k))))
		vhExpectInt(v, err, new(big.Int).Div(a, p), "SHRk")
	}
}
