//vf:pkg pkg/vm
package vm

import (
	"github.com/nspcc-dev/neo-go/pkg/vm/opcode"
)

// C13: control flow and exception handling. Short instruction sequences over the
// control-flow alphabet with symbolic jump/try/call offsets and symbolic stack data are
// run through the real VM and through the reference; outcome and result stack must agree.

// vhCtlIns appends one instruction chosen from the control-flow alphabet; offsets are
// symbolic signed bytes in a small window around the instruction.
func vhCtlIns(script []byte, slot string, lo, hi int8) []byte {
	off := func(name string) byte {
		o := int8(vfU8(slot + name))
		vfAssume(o >= lo && o <= hi)
		return byte(o)
	}
	switch vfChoose(slot, 0, 11) {
	case 0:
		return append(script, byte(opcode.PUSH1))
	case 1:
		return append(script, byte(opcode.THROW))
	case 2:
		return append(script, byte(opcode.TRY), off("-catch"), off("-finally"))
	case 3:
		return append(script, byte(opcode.ENDTRY), off("-end"))
	case 4:
		return append(script, byte(opcode.ENDFINALLY))
	case 5:
		return append(script, byte(opcode.RET))
	case 6:
		return append(script, byte(opcode.JMP), off("-jmp"))
	case 7:
		return append(script, byte(opcode.CALL), off("-call"))
	case 8:
		return append(script, byte(opcode.DROP))
	case 9:
		return append(script, byte(opcode.JMPIF), off("-jmpif"))
	case 10:
		return append(script, byte(opcode.ABORT))
	}
	return append(script, byte(opcode.PUSH2), byte(opcode.ASSERT))
}

func vhCtlRun(n int, lo, hi int8, steps int) {
	var script []byte
	for i := 0; i < n; i++ {
		script = vhCtlIns(script, "i"+string(rune('0'+i)), lo, hi)
	}
	script = append(script, byte(opcode.PUSH3), byte(opcode.RET))
	initial := []*rvItem{rvMkBool(vfBool("s0")), rvMkBool(vfBool("s1"))}
	rvCompare(script, initial, "ctl", steps)
}

//vf:tier quick
//vf:bigint theory
//vf:unwind 200
//vf:wall 400
//vf:symindex fork
//vf:bound every sequence of 3 instructions from {PUSH1 THROW TRY ENDTRY ENDFINALLY RET JMP CALL DROP JMPIF ABORT PUSH2+ASSERT} followed by PUSH3 RET, every offset a symbolic byte in [-1,6], two symbolic booleans on the stack; runs longer than 24 reference steps are outside
func VF_C13_control_sequences_3() {
	vhCtlRun(3, -1, 6, 24)
}

//vf:tier thorough
//vf:bigint theory
//vf:unwind 300
//vf:symindex fork
//vf:bound as above with 4 instructions, offsets in [-3,9], 32 reference steps
func VF_C13_control_sequences_4() {
	vhCtlRun(4, -3, 9, 32)
}
