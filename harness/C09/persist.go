//vf:pkg pkg/core/storage
package storage

import (
	"bytes"
	"errors"
)

// C09 §3: a flush that fails, or that is overlapped by a writer and a reader, loses nothing:
// every committed key stays readable with its latest value during and after Persist.

type vhFlakyStore struct {
	MemoryStore
	fail  bool
	hook  func()
	after bool // run the hook after the backend's own write instead of before it
}

func (f *vhFlakyStore) PutChangeSet(p, s map[string][]byte) error {
	h := f.hook
	f.hook = nil
	if h != nil && !f.after {
		h() // runs while the upper layer's flush is in progress (its lock is released)
	}
	if f.fail {
		return errors.New("disk failure")
	}
	err := f.MemoryStore.PutChangeSet(p, s)
	if h != nil && f.after {
		h()
	}
	return err
}

var vhQK []byte

func vhKey1(name string, first byte) []byte { return []byte{first, vfU8(name)} }

func vhCheckView(st Store, model *vhLayer, first byte, tag string) {
	qk := vhQK
	got, err := st.Get(qk)
	if i, ok := model.find(qk); ok && model.log[i].val != nil {
		vfAssert(err == nil && bytes.Equal(got, model.log[i].val), tag+":Get==latest")
	} else {
		vfAssert(err != nil, tag+":Get-absent")
	}
	// full-prefix scan equals the model's live keys in order
	var gk [][]byte
	st.Seek(SeekRange{Prefix: []byte{first}}, func(k, v []byte) bool {
		gk = append(gk, bytes.Clone(k))
		return true
	})
	var want [][]byte
	for i := range model.log {
		k := model.log[i].key
		if j, _ := model.find(k); j != i || model.log[i].val == nil {
			continue
		}
		pos := len(want)
		for p := range want {
			if bytes.Compare(k, want[p]) < 0 {
				pos = p
				break
			}
		}
		want = append(want, nil)
		copy(want[pos+1:], want[pos:])
		want[pos] = k
	}
	vfAssert(len(gk) == len(want), tag+":Seek-count")
	for i := range gk {
		if i < len(want) {
			vfAssert(bytes.Equal(gk[i], want[i]), tag+":Seek-keys")
		}
	}
}

func vhPersistRun(first byte) {
	lower := &vhFlakyStore{MemoryStore: *NewMemoryStore()}
	up := NewMemCachedStore(lower)
	model := &vhLayer{}
	vhQK = vhKey1("get", first)
	write := func(tag string) {
		k := vhKey1(tag+".key", first)
		if vfChoose(tag+".kind", 0, 1) == 0 {
			v := []byte{vfU8(tag + ".val")}
			up.Put(k, v)
			model.log = append(model.log, vhWrite{k, v})
		} else {
			up.Delete(k)
			model.log = append(model.log, vhWrite{k, nil})
		}
	}
	write("w1")
	if vfBool("flush-first") {
		_, err := up.Persist()
		vfAssert(err == nil, "first-persist-ok")
	}
	write("w2")
	lower.fail = vfBool("fail")
	lower.after = !lower.fail && vfBool("overlap-after-the-backend-write")
	secondFlush := vfBool("synchronous-flush-requested-during-the-flush")
	flushed := make(chan error, 1)
	lower.hook = func() {
		// concurrent writer and reader while the flush is in progress
		write("during")
		vhCheckView(up, model, first, "during")
		if secondFlush {
			// another goroutine asks for a synchronous flush inside the window; it must wait
			// for the running one (vfQuiesce lets it run until it blocks or finishes)
			go func() {
				_, e := up.PersistSync()
				flushed <- e
			}()
			vfQuiesce()
		}
	}
	_, err := up.Persist()
	vfAssert((err != nil) == lower.fail, "persist-error<=>lower-failed")
	if secondFlush {
		<-flushed
	}
	vhCheckView(up, model, first, "after")
	// a later successful flush brings the backend to the same content
	lower.fail = false
	_, err = up.Persist()
	vfAssert(err == nil, "retry-ok")
	vhCheckView(&lower.MemoryStore, model, first, "backend")
}

//vf:tier quick
//vf:unwind 64
//vf:bound one shared cache over a backend that may fail its batch write; writes: one before an optional clean flush, one after, one issued (with a read) while the flush is in progress (before or after the backend's own batch write), optionally followed inside that window by a PersistSync from another goroutine; keys 0x70 + 1 symbolic byte; Get of a symbolic key and full-prefix Seek checked during the flush, after it, and on the backend after a successful retry
//vf:stub the overlap of Persist with a writer/reader is driven deterministically from inside the lower store's PutChangeSet (the point where the cache's lock is released); goroutine interleavings finer than that are outside
func VF_C09_persist_overlap_and_failure() { vhPersistRun(byte(STStorage)) }

//vf:tier thorough
//vf:unwind 64
//vf:bound same for the non-storage key class (other internal map)
func VF_C09_persist_overlap_and_failure_mem() { vhPersistRun(byte(DataExecutable)) }
