//vf:pkg pkg/core/storage
package storage

import (
	"bytes"
	"context"
)

// C09: a stack of cache layers over the in-memory backend answers Get and Seek like one
// ordered map holding the net effect of all writes; flushing a layer changes no answer.

type vhWrite struct {
	key []byte
	val []byte // nil = deleted
}

type vhLayer struct {
	log []vhWrite
}

func (l *vhLayer) find(k []byte) (int, bool) {
	for i := len(l.log) - 1; i >= 0; i-- {
		if bytes.Equal(l.log[i].key, k) {
			return i, true
		}
	}
	return -1, false
}

// vhResolve returns the value of k seen from layer index top (0 = backend) down to layer `bottom`.
func vhResolve(layers []*vhLayer, top, bottom int, k []byte) ([]byte, bool) {
	for i := top; i >= bottom; i-- {
		if j, ok := layers[i].find(k); ok {
			if layers[i].log[j].val == nil {
				return nil, false
			}
			return layers[i].log[j].val, true
		}
	}
	return nil, false
}

func vhKey(name string, first byte) []byte {
	n := vfChoose(name+".len", 0, 2)
	k := append([]byte{first}, vfBytes(name, n)...)
	return k
}

type vhStack struct {
	stores []Store // 0 = MemoryStore, 1.. = MemCachedStore
	model  []*vhLayer
}

func vhNewStack(depth int, privateTop bool) *vhStack {
	s := &vhStack{}
	var cur Store = NewMemoryStore()
	s.stores = append(s.stores, cur)
	s.model = append(s.model, &vhLayer{})
	for i := 1; i <= depth; i++ {
		if i == depth && privateTop {
			cur = NewPrivateMemCachedStore(cur)
		} else {
			cur = NewMemCachedStore(cur)
		}
		s.stores = append(s.stores, cur)
		s.model = append(s.model, &vhLayer{})
	}
	return s
}

func (s *vhStack) write(layer int, k, v []byte) {
	switch st := s.stores[layer].(type) {
	case *MemoryStore:
		if v == nil {
			// the backend has no delete in its API other than through change sets
			_ = st.PutChangeSet(map[string][]byte{}, map[string][]byte{string(k): nil})
		} else {
			_ = st.PutChangeSet(map[string][]byte{}, map[string][]byte{string(k): v})
		}
	case *MemCachedStore:
		if v == nil {
			st.Delete(k)
		} else {
			st.Put(k, v)
		}
	}
	s.model[layer].log = append(s.model[layer].log, vhWrite{k, v})
}

func (s *vhStack) flush(layer int) {
	st := s.stores[layer].(*MemCachedStore)
	_, err := st.PersistSync()
	vfAssert(err == nil, "persist-ok")
	s.model[layer-1].log = append(s.model[layer-1].log, s.model[layer].log...)
	s.model[layer].log = nil
}

func vhLess(a, b []byte) bool { return bytes.Compare(a, b) < 0 }

// vhExpected computes the reference answer of a seek over the top `depthLimit` layers (0 = all).
func (s *vhStack) expected(rng SeekRange) (keys [][]byte, vals [][]byte) {
	top := len(s.model) - 1
	bottom := 0
	if rng.SearchDepth > 0 {
		bottom = top - rng.SearchDepth + 1
		if bottom < 0 {
			bottom = 0
		}
	}
	var cand [][]byte
	for i := top; i >= bottom; i-- {
		for _, w := range s.model[i].log {
			dup := false
			for _, c := range cand {
				if bytes.Equal(c, w.key) {
					dup = true
				}
			}
			if !dup {
				cand = append(cand, w.key)
			}
		}
	}
	for _, k := range cand {
		v, ok := vhResolve(s.model, top, bottom, k)
		if !ok || !bytes.HasPrefix(k, rng.Prefix) {
			continue
		}
		if len(rng.Start) > 0 {
			c := bytes.Compare(k[len(rng.Prefix):], rng.Start)
			if (!rng.Backwards && c < 0) || (rng.Backwards && c > 0) {
				continue
			}
		}
		// insert sorted
		pos := len(keys)
		for i := range keys {
			if (!rng.Backwards && vhLess(k, keys[i])) || (rng.Backwards && vhLess(keys[i], k)) {
				pos = i
				break
			}
		}
		keys = append(keys, nil)
		vals = append(vals, nil)
		copy(keys[pos+1:], keys[pos:])
		copy(vals[pos+1:], vals[pos:])
		keys[pos], vals[pos] = k, v
	}
	return
}

type vhCfg struct {
	depth      int
	privateTop bool
	nops       int
	first      byte
	cut        bool
	lowLayer   int  // lowest layer index written directly
	doGet      bool // point read
	doSeek     bool
	maxStart   int
}

func vhRun(c vhCfg) {
	depth, first, cut := c.depth, c.first, c.cut
	s := vhNewStack(depth, c.privateTop)
	top := depth
	topFlushed := false
	for i := 0; i < c.nops; i++ {
		layer := vfChoose("op.layer", c.lowLayer, depth)
		// a private layer is disposed of by its flush (documented): no writes to it afterwards
		vfAssume(!(c.privateTop && layer == top && topFlushed))
		k := vhKey("op.key", first)
		var v []byte
		if vfChoose("op.kind", 0, 1) == 0 {
			v = []byte{vfU8("op.val")}
		}
		s.write(layer, k, v)
		if fl := vfChoose("op.flush", 0, depth); fl > 0 {
			vfAssume(!(c.privateTop && fl == top && topFlushed))
			s.flush(fl)
			if fl == top {
				topFlushed = true
			}
		}
	}
	vfCover("state-built")
	if c.doGet {
		qk := vhKey("get.key", first)
		got, err := s.stores[top].Get(qk)
		want, ok := vhResolve(s.model, top, 0, qk)
		if ok {
			vfAssert(err == nil && bytes.Equal(got, want), "Get==latest-value")
		} else {
			vfAssert(err != nil, "Get-of-absent=>error")
		}
	}
	if !c.doSeek {
		return
	}
	// range scan
	rng := SeekRange{Prefix: append([]byte{first}, vfBytes("seek.prefix", vfChoose("seek.plen", 0, 1))...)}
	if sl := vfChoose("seek.startlen", 0, c.maxStart); sl > 0 {
		rng.Start = vfBytes("seek.start", sl)
	}
	rng.Backwards = vfBool("seek.backwards")
	rng.SearchDepth = vfChoose("seek.depth", 0, depth+1)
	stopAfter := int(vfU8("seek.stop"))
	vfAssume(stopAfter >= 1 && stopAfter <= 4)
	var gk, gv [][]byte
	cont := func(k, v []byte) bool {
		gk = append(gk, bytes.Clone(k))
		gv = append(gv, bytes.Clone(v))
		return len(gk) < stopAfter
	}
	switch st := s.stores[top].(type) {
	case *MemCachedStore:
		if cut {
			ps, memRes := st.prepareSeekMemSnapshot(rng)
			performSeek(context.Background(), ps, memRes, rng, true, cont)
		} else {
			st.Seek(rng, cont)
		}
	default:
		s.stores[top].Seek(rng, cont)
	}
	ek, ev := s.expected(rng)
	if len(ek) > stopAfter {
		n := vfConcrete(stopAfter, 1, 4)
		ek, ev = ek[:n], ev[:n]
	}
	vfAssert(len(gk) == len(ek), "seek-count")
	for i := range gk {
		if i >= len(ek) {
			break
		}
		wantK := ek[i]
		if cut {
			wantK = wantK[len(rng.Prefix):]
		}
		vfAssert(bytes.Equal(gk[i], wantK), "seek-key-order")
		vfAssert(bytes.Equal(gv[i], ev[i]), "seek-value")
	}
}

//vf:tier quick
//vf:unwind 64
//vf:bound stack MemoryStore <- shared cache <- shared cache; 2 writes (put/delete of keys 0x70 + 0..2 symbolic bytes, 1-byte values) to any layer, optional flush of one layer after each write; one Get of a symbolic key
func VF_C09_get_after_writes_and_flushes() {
	vhRun(vhCfg{depth: 2, nops: 2, first: byte(STStorage), doGet: true})
}

//vf:tier quick
//vf:unwind 64
//vf:bound stack MemoryStore <- shared cache <- private cache; 2 writes to the cache layers with optional flush; one Seek with prefix 1..2 bytes, optional 1-byte start, both directions, SearchDepth 0..3, early stop after 1..4; prefix trimming on (SeekAsync path: prepareSeekMemSnapshot + performSeek with cutPrefix)
func VF_C09_private_stack_seek_cut() {
	vhRun(vhCfg{depth: 2, privateTop: true, nops: 2, first: byte(STStorage), cut: true, lowLayer: 1, doSeek: true, maxStart: 1})
}

//vf:tier quick
//vf:unwind 64
//vf:bound as above on an all-shared stack through MemCachedStore.Seek (no trimming), non-storage key class
func VF_C09_shared_stack_seek() {
	vhRun(vhCfg{depth: 2, nops: 2, first: byte(DataExecutable), lowLayer: 1, doSeek: true, maxStart: 1})
}

//vf:tier thorough
//vf:unwind 64
//vf:bound 2 writes to any of the three layers, start of 0..2 bytes, Get and Seek together
func VF_C09_full_2ops() {
	vhRun(vhCfg{depth: 2, privateTop: true, nops: 2, first: byte(STStorage), cut: true, doGet: true, doSeek: true, maxStart: 2})
}

//vf:tier thorough
//vf:unwind 64
//vf:bound 3 writes to the cache layers, shared stack, no trimming
func VF_C09_shared_stack_seek_3ops() {
	vhRun(vhCfg{depth: 2, nops: 3, first: byte(STStorage), lowLayer: 1, doSeek: true, maxStart: 1})
}
