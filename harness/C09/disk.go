//vf:pkg pkg/core/storage
package storage

import (
	"bytes"
	"os"
	"path/filepath"

	"github.com/syndtr/goleveldb/leveldb/iterator"
	"github.com/syndtr/goleveldb/leveldb/util"
	"github.com/nspcc-dev/bbolt"
)

// C09 §2: the range translation of the disk backends (seekRangeToPrefixes + boltSeek loop +
// LevelDBStore.seek) over a sorted key set must give what the in-memory ordered map gives.

// ---- sorted-slice model of the engines' cursors (documented contracts)

type vhSorted struct {
	keys [][]byte
	vals [][]byte
}

func (s *vhSorted) insert(k, v []byte) {
	for i := range s.keys {
		c := bytes.Compare(k, s.keys[i])
		if c == 0 {
			s.vals[i] = v
			return
		}
		if c < 0 {
			s.keys = append(s.keys, nil)
			s.vals = append(s.vals, nil)
			copy(s.keys[i+1:], s.keys[i:])
			copy(s.vals[i+1:], s.vals[i:])
			s.keys[i], s.vals[i] = k, v
			return
		}
	}
	s.keys = append(s.keys, k)
	s.vals = append(s.vals, v)
}

// goleveldb iterator over util.Range: keys with Start <= k < Limit (nil Limit: unbounded)
type vhIter struct {
	iterator.Iterator // nil: unused methods panic
	s                 *vhSorted
	rng               *util.Range
	pos               int // -1 before first, len after last
	started           bool
}

func (it *vhIter) in(i int) bool {
	k := it.s.keys[i]
	if bytes.Compare(k, it.rng.Start) < 0 {
		return false
	}
	return it.rng.Limit == nil || bytes.Compare(k, it.rng.Limit) < 0
}
func (it *vhIter) Next() bool {
	if !it.started {
		it.started = true
		it.pos = -1
	}
	for it.pos++; it.pos < len(it.s.keys); it.pos++ {
		if it.in(it.pos) {
			return true
		}
	}
	return false
}
func (it *vhIter) Last() bool {
	it.started = true
	for it.pos = len(it.s.keys) - 1; it.pos >= 0; it.pos-- {
		if it.in(it.pos) {
			return true
		}
	}
	return false
}
func (it *vhIter) Prev() bool {
	for it.pos--; it.pos >= 0; it.pos-- {
		if it.in(it.pos) {
			return true
		}
	}
	return false
}
func (it *vhIter) Key() []byte   { return it.s.keys[it.pos] }
func (it *vhIter) Value() []byte { return it.s.vals[it.pos] }
func (it *vhIter) Release()      {}

// bbolt cursor model: Seek moves to the first key >= seek (nil if none, cursor past the end);
// Next/Prev move by one; Last moves to the last key.
var vhBolt struct {
	s   *vhSorted
	pos int
}

func vhTxBucket(tx *bbolt.Tx, name []byte) *bbolt.Bucket { return &bbolt.Bucket{} }
func vhBucketCursor(b *bbolt.Bucket) *bbolt.Cursor        { return &bbolt.Cursor{} }
func vhCurAt() ([]byte, []byte) {
	if vhBolt.pos < 0 || vhBolt.pos >= len(vhBolt.s.keys) {
		return nil, nil
	}
	return vhBolt.s.keys[vhBolt.pos], vhBolt.s.vals[vhBolt.pos]
}
func vhCursorSeek(c *bbolt.Cursor, seek []byte) ([]byte, []byte) {
	vhBolt.pos = len(vhBolt.s.keys)
	for i := range vhBolt.s.keys {
		if bytes.Compare(vhBolt.s.keys[i], seek) >= 0 {
			vhBolt.pos = i
			break
		}
	}
	return vhCurAt()
}
func vhCursorNext(c *bbolt.Cursor) ([]byte, []byte) {
	if vhBolt.pos < len(vhBolt.s.keys) {
		vhBolt.pos++
	}
	return vhCurAt()
}
func vhCursorPrev(c *bbolt.Cursor) ([]byte, []byte) {
	if vhBolt.pos >= 0 {
		vhBolt.pos--
	}
	return vhCurAt()
}
func vhCursorLast(c *bbolt.Cursor) ([]byte, []byte) {
	vhBolt.pos = len(vhBolt.s.keys) - 1
	return vhCurAt()
}

func vhDiskKey(name string) []byte {
	n := vfChoose(name+".len", 1, 3)
	return vfBytes(name, n)
}

func vhReference(s *vhSorted, rng SeekRange) (ks [][]byte) {
	for i := range s.keys {
		j := i
		if rng.Backwards {
			j = len(s.keys) - 1 - i
		}
		k := s.keys[j]
		if !bytes.HasPrefix(k, rng.Prefix) {
			continue
		}
		if len(rng.Start) > 0 {
			c := bytes.Compare(k[len(rng.Prefix):], rng.Start)
			if (!rng.Backwards && c < 0) || (rng.Backwards && c > 0) {
				continue
			}
		}
		ks = append(ks, k)
	}
	return
}

func vhRunDisk(bolt bool, maxKeys int) {
	s := &vhSorted{}
	n := vfChoose("nkeys", 1, maxKeys)
	for i := 0; i < n; i++ {
		s.insert(vhDiskKey("key"), []byte{byte(i + 1)})
	}
	rng := SeekRange{Prefix: vfBytes("prefix", vfChoose("prefix.len", 1, 2))}
	if sl := vfChoose("start.len", 0, 2); sl > 0 {
		rng.Start = vfBytes("start", sl)
	}
	rng.Backwards = vfBool("backwards")
	// signature of the recorded finding: going backwards from a start point, a stored key
	// strictly extends Prefix+Start
	ext := false
	if rng.Backwards && len(rng.Start) > 0 {
		ps := append(append([]byte{}, rng.Prefix...), rng.Start...)
		for _, k := range s.keys {
			if len(k) > len(ps) && bytes.HasPrefix(k, ps) {
				ext = true
			}
		}
	}
	vfKnown("disk-backwards-start-includes-extensions", ext)
	var got [][]byte
	collect := func(k []byte) { got = append(got, bytes.Clone(k)) }
	if bolt {
		if vfSymbolic() {
			vhBolt.s = s
			_ = boltSeek(func(f func(*bbolt.Tx) error) error { return f(nil) }, Bucket, rng, func(c *bbolt.Cursor, k, v []byte) (bool, error) {
				collect(k)
				return true, nil
			})
		} else {
			dir, _ := os.MkdirTemp("", "vfbolt")
			defer os.RemoveAll(dir)
			db, err := bbolt.Open(filepath.Join(dir, "db"), 0o600, nil)
			if err != nil {
				panic(err)
			}
			defer db.Close()
			_ = db.Update(func(tx *bbolt.Tx) error {
				b, _ := tx.CreateBucketIfNotExists(Bucket)
				for i := range s.keys {
					_ = b.Put(s.keys[i], s.vals[i])
				}
				return nil
			})
			_ = boltSeek(db.View, Bucket, rng, func(c *bbolt.Cursor, k, v []byte) (bool, error) {
				collect(k)
				return true, nil
			})
		}
	} else {
		it := &vhIter{s: s, rng: seekRangeToPrefixes(rng)}
		(*LevelDBStore)(nil).seek(it, rng.Backwards, func(k, v []byte) bool {
			collect(k)
			return true
		})
	}
	want := vhReference(s, rng)
	vfAssert(len(got) == len(want), "disk-seek-count")
	for i := range got {
		if i < len(want) {
			vfAssert(bytes.Equal(got[i], want[i]), "disk-seek-order")
		}
	}
}

//vf:tier quick
//vf:unwind 64
//vf:redirect (*github.com/nspcc-dev/bbolt.Tx).Bucket => github.com/nspcc-dev/neo-go/pkg/core/storage.vhTxBucket
//vf:redirect (*github.com/nspcc-dev/bbolt.Bucket).Cursor => github.com/nspcc-dev/neo-go/pkg/core/storage.vhBucketCursor
//vf:redirect (*github.com/nspcc-dev/bbolt.Cursor).Seek => github.com/nspcc-dev/neo-go/pkg/core/storage.vhCursorSeek
//vf:redirect (*github.com/nspcc-dev/bbolt.Cursor).Next => github.com/nspcc-dev/neo-go/pkg/core/storage.vhCursorNext
//vf:redirect (*github.com/nspcc-dev/bbolt.Cursor).Prev => github.com/nspcc-dev/neo-go/pkg/core/storage.vhCursorPrev
//vf:redirect (*github.com/nspcc-dev/bbolt.Cursor).Last => github.com/nspcc-dev/neo-go/pkg/core/storage.vhCursorLast
//vf:bound 1..2 stored keys of 1..3 symbolic bytes; prefix 1..2 bytes, start 0..2 bytes, both directions; real seekRangeToPrefixes + boltSeek
//vf:stub the bbolt cursor is a sorted-slice model of its documented contract (native replay uses a real Bolt database)
func VF_C09_bolt_range_translation() { vhRunDisk(true, 2) }

//vf:tier quick
//vf:unwind 64
//vf:bound as above through LevelDBStore.seek over an iterator model of goleveldb's util.Range contract (Start <= k < Limit)
func VF_C09_leveldb_range_translation() { vhRunDisk(false, 2) }

//vf:tier thorough
//vf:unwind 64
//vf:wall 1500
//vf:bound three stored keys
func VF_C09_leveldb_range_translation_3keys() { vhRunDisk(false, 3) }
