//vf:pkg pkg/core/interop/contract
package contract

import (
	"errors"

	"github.com/nspcc-dev/neo-go/pkg/config"
	"github.com/nspcc-dev/neo-go/pkg/core/block"
	"github.com/nspcc-dev/neo-go/pkg/core/dao"
	"github.com/nspcc-dev/neo-go/pkg/core/interop"
	"github.com/nspcc-dev/neo-go/pkg/core/state"
	"github.com/nspcc-dev/neo-go/pkg/core/storage"
	"github.com/nspcc-dev/neo-go/pkg/smartcontract"
	"github.com/nspcc-dev/neo-go/pkg/smartcontract/callflag"
	"github.com/nspcc-dev/neo-go/pkg/smartcontract/manifest"
	"github.com/nspcc-dev/neo-go/pkg/smartcontract/nef"
	"github.com/nspcc-dev/neo-go/pkg/smartcontract/trigger"
	"github.com/nspcc-dev/neo-go/pkg/util"
	"github.com/nspcc-dev/neo-go/pkg/vm"
	"github.com/nspcc-dev/neo-go/pkg/vm/opcode"
	"github.com/nspcc-dev/neo-go/pkg/vm/stackitem"
	"github.com/nspcc-dev/neo-go/pkg/vm/vmstate"
)

// C04: when a called contract throws and the caller catches, the callee's storage changes and
// notifications are undone and the caller's own effects before and after are kept; when the
// callee returns normally everything is kept.

type vhLedger4 struct{}

func (vhLedger4) BlockHeight() uint32                         { return 0 }
func (vhLedger4) CurrentBlockHash() util.Uint256              { return util.Uint256{} }
func (vhLedger4) GetBlock(util.Uint256) (*block.Block, error) { return nil, errors.New("no") }
func (vhLedger4) GetConfig() config.Blockchain                { return config.Blockchain{} }
func (vhLedger4) GetHeaderHash(uint32) util.Uint256           { return util.Uint256{} }
func (vhLedger4) NativeManagementID() int32                   { return -1 }

var (
	vhCaller4 = util.Uint160{0xc1}
	vhCallee4 = util.Uint160{0xc2}
)

func b4(op opcode.Opcode) byte { return byte(op) }

// caller scripts with a NOP marking the place where the call is made
func vhCallerScript(shape int) []byte {
	switch shape {
	case 0: // try { CALL } catch { }
		return []byte{
			b4(opcode.TRY), 6, 0, // 0: catch at 6
			b4(opcode.NOP),       // 3: call site
			b4(opcode.ENDTRY), 5, // 4: -> 9
			b4(opcode.DROP),      // 6: catch
			b4(opcode.ENDTRY), 2, // 7: -> 9
			b4(opcode.RET), // 9
		}
	case 1: // try { try { throw } catch { CALL } finally { } } catch { }
		return []byte{
			b4(opcode.TRY), 15, 0, // 0: outer, catch at 15
			b4(opcode.TRY), 5, 9, // 3: inner, catch at 8, finally at 12
			b4(opcode.PUSH1),     // 6
			b4(opcode.THROW),     // 7
			b4(opcode.DROP),      // 8: inner catch
			b4(opcode.NOP),       // 9: call site
			b4(opcode.ENDTRY), 3, // 10: -> 13 (through finally)
			b4(opcode.ENDFINALLY), // 12: inner finally
			b4(opcode.ENDTRY), 5, // 13: -> 18
			b4(opcode.DROP),      // 15: outer catch
			b4(opcode.ENDTRY), 2, // 16: -> 18
			b4(opcode.RET), // 18
		}
	}
	return nil
}

//vf:tier quick
//vf:unwind 64
//vf:bound caller (deployed contract) in a try block -- plain, or inside the catch of an inner try that has a finally -- calls a method with any requested flags from any caller flag set; the callee writes one storage item (if it may) and emits one notification (if it may), then throws or returns; storage value and notification name symbolic
func VF_C04_callee_effects_rolled_back_on_caught_throw() {
	cf := callflag.CallFlag(vfU8("caller.flags")) & callflag.All
	tf := callflag.CallFlag(vfU8("requested.flags")) & callflag.All
	throws := vfBool("callee.throws")
	shape := vfChoose("shape", 0, 1)
	calleeScript := []byte{b4(opcode.RET)}
	if throws {
		calleeScript = []byte{b4(opcode.PUSH2), b4(opcode.THROW)}
	}
	callee := &state.Contract{}
	callee.ID = 7
	callee.Hash = vhCallee4
	callee.NEF = nef.File{Script: calleeScript}
	callee.Manifest = manifest.Manifest{Name: "callee", ABI: manifest.ABI{Methods: []manifest.Method{{Name: "m", Offset: 0, ReturnType: smartcontract.VoidType}}}}
	callerM := &manifest.Manifest{Name: "caller", Permissions: []manifest.Permission{{Contract: manifest.PermissionDesc{Type: manifest.PermissionWildcard}}}}
	callerNEF := &nef.File{Script: vhCallerScript(shape)}
	getContract := func(_ *dao.Simple, h util.Uint160) (*state.Contract, error) {
		if h == vhCallee4 {
			return callee, nil
		}
		return nil, errors.New("not found")
	}
	d := dao.NewSimple(storage.NewMemoryStore(), false)
	ic := interop.NewContext(trigger.Application, vhLedger4{}, d, 0, 0, getContract, nil, nil, &block.Block{}, nil, nil)
	v := vm.New()
	ic.VM = v
	v.LoadNEFMethod(callerNEF, callerM, util.Uint160{}, vhCaller4, cf, false, 0, -1, nil, nil, false)
	// run the caller up to the call site
	for i := 0; i < 16; i++ {
		if _, op := v.Context().NextInstr(); op == opcode.NOP {
			break
		}
		vfAssert(v.Step() == nil, "caller-reaches-call-site")
	}
	// caller's own effects before the call
	keyBefore, keyCallee, keyAfter := []byte{1}, []byte{2}, []byte{3}
	val := []byte{vfU8("value")}
	ic.DAO.PutStorageItem(5, keyBefore, val)
	_ = ic.AddNotification(vhCaller4, "before", stackitem.NewArray(nil))
	err := callInternal(ic, callee, &callee.Manifest.ABI.Methods[0], tf, false, nil, true)
	vfAssert(err == nil, "call-accepted")
	// the callee's effects, as far as its flags allow them
	nf := v.Context().GetCallFlags()
	wrote, notified := false, false
	if nf.Has(callflag.WriteStates) {
		ic.DAO.PutStorageItem(7, keyCallee, val)
		wrote = true
	}
	if nf.Has(callflag.AllowNotify) {
		_ = ic.AddNotification(vhCallee4, "callee", stackitem.NewArray(nil))
		notified = true
	}
	// run until the caller is back in control (the callee context is gone)
	depth := len(v.Istack())
	for i := 0; i < 16 && len(v.Istack()) >= depth && v.State() != vmstate.Fault; i++ {
		_ = v.Step()
	}
	vfAssert(v.State() != vmstate.Fault, "caught=>no-fault")
	// caller's effects after the call
	ic.DAO.PutStorageItem(5, keyAfter, val)
	_ = ic.AddNotification(vhCaller4, "after", stackitem.NewArray(nil))
	vfAssert(v.Run() == nil && v.State() == vmstate.Halt, "caller-halts")
	vfAssert(ic.DAO.GetStorageItem(5, keyBefore) != nil && ic.DAO.GetStorageItem(5, keyAfter) != nil, "caller-writes-kept")
	calleeItem := ic.DAO.GetStorageItem(7, keyCallee)
	nCallee, nBefore, nAfter := 0, 0, 0
	for _, n := range ic.Notifications {
		switch n.Name {
		case "callee":
			nCallee++
		case "before":
			nBefore++
		case "after":
			nAfter++
		}
	}
	vfAssert(nBefore == 1 && nAfter == 1, "caller-notifications-kept")
	if throws {
		vfAssert(calleeItem == nil, "failed-callee-storage-write-undone")
		vfAssert(nCallee == 0, "failed-callee-notification-undone")
	} else {
		vfAssert((calleeItem != nil) == wrote, "successful-callee-storage-write-kept")
		vfAssert((nCallee == 1) == notified, "successful-callee-notification-kept")
	}
}
