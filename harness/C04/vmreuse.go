//vf:pkg pkg/vm
package vm

import (
	"github.com/nspcc-dev/neo-go/pkg/smartcontract/callflag"
	"github.com/nspcc-dev/neo-go/pkg/smartcontract/trigger"
	"github.com/nspcc-dev/neo-go/pkg/util"
	"github.com/nspcc-dev/neo-go/pkg/vm/opcode"
	"github.com/nspcc-dev/neo-go/pkg/vm/vmstate"
)

// C04: a block executes all its transactions on one reused VM. Whatever way the previous
// execution ended (HALT, ABORT, failed ASSERT, unhandled THROW, fault inside an instruction),
// after Reset the next execution starts clean: a context unloaded by a normal return is
// committed (its unload callback sees commit == true) and the result is HALT.

//vf:tier quick
//vf:bigint theory
//vf:unwind 64
//vf:bound first execution: one of RET / ABORT / PUSHF ASSERT / PUSH1 THROW / PUSH0 PUSH0 DIV / THROW inside a try with finally only; then Reset and a second execution of a called context that returns normally
func VF_C04_vm_reuse_starts_clean() {
	first := [][]byte{
		{byte(opcode.PUSH1), byte(opcode.RET)},
		{byte(opcode.ABORT)},
		{byte(opcode.PUSHF), byte(opcode.ASSERT)},
		{byte(opcode.PUSH1), byte(opcode.THROW)},
		{byte(opcode.PUSH0), byte(opcode.PUSH0), byte(opcode.DIV)},
		{byte(opcode.TRY), 0, 5, byte(opcode.PUSH1), byte(opcode.THROW), byte(opcode.ENDFINALLY), byte(opcode.RET)},
	}[vfChoose("first-execution", 0, 5)]
	v := New()
	v.LoadScript(first)
	_ = v.Run()
	v.Reset(trigger.Application)
	committed, unloaded := false, false
	v.LoadScriptWithFlags([]byte{byte(opcode.PUSH2), byte(opcode.RET)}, callflag.All)
	v.loadScriptWithCallingHash([]byte{byte(opcode.PUSH1), byte(opcode.RET)}, nil, nil, util.Uint160{1}, util.Uint160{2}, callflag.All, 1, 0,
		func(_ *VM, _ *Context, commit bool) error { unloaded, committed = true, commit; return nil }, nil, false)
	err := v.Run()
	vfAssert(err == nil && v.state == vmstate.Halt, "second-execution-halts")
	vfAssert(unloaded && committed, "normally-returning-context-is-committed")
	vfAssert(v.estack.Len() == 2, "both-results-on-the-stack")
}
