//vf:pkg pkg/core/dao
package dao

import (
	"bytes"

	"github.com/nspcc-dev/neo-go/pkg/core/storage"
)

// C04 §a: the per-invocation storage layer: writes are invisible below until Persist, all
// visible after it, none if the layer is dropped.

//vf:tier quick
//vf:unwind 64
//vf:bound base DAO with one stored item; a private layer (GetPrivate) with 2 operations (put/delete on symbolic 1-byte keys with symbolic values); then Persist or drop; reads of a symbolic key below, in the layer and after
func VF_C04_private_layer_commit_or_drop() {
	base := NewSimple(storage.NewMemoryStore(), false)
	k0 := []byte{vfU8("k0")}
	v0 := []byte{vfU8("v0")}
	base.PutStorageItem(1, k0, v0)
	priv := base.GetPrivate()
	type w struct {
		k, v []byte
		del  bool
	}
	var ws []w
	for i := 0; i < 2; i++ {
		x := w{k: []byte{vfU8("k")}}
		if vfBool("del") {
			x.del = true
			priv.DeleteStorageItem(1, x.k)
		} else {
			x.v = []byte{vfU8("v")}
			priv.PutStorageItem(1, x.k, x.v)
		}
		ws = append(ws, x)
	}
	q := []byte{vfU8("q")}
	// expected view in the layer
	want := []byte(nil)
	if bytes.Equal(q, k0) {
		want = v0
	}
	for _, x := range ws {
		if bytes.Equal(x.k, q) {
			if x.del {
				want = nil
			} else {
				want = x.v
			}
		}
	}
	inLayer := priv.GetStorageItem(1, q)
	vfAssert(bytes.Equal(inLayer, want) && (inLayer == nil) == (want == nil), "layer-sees-its-own-writes")
	below := base.GetStorageItem(1, q)
	if bytes.Equal(q, k0) {
		vfAssert(bytes.Equal(below, v0), "uncommitted-writes-invisible-below")
	} else {
		vfAssert(below == nil, "uncommitted-writes-invisible-below(absent)")
	}
	if vfBool("commit") {
		_, err := priv.Persist()
		vfAssert(err == nil, "persist-ok")
		after := base.GetStorageItem(1, q)
		vfAssert(bytes.Equal(after, want) && (after == nil) == (want == nil), "committed-writes-all-visible")
	} else {
		after := base.GetStorageItem(1, q)
		vfAssert(bytes.Equal(after, below) && (after == nil) == (below == nil), "dropped-layer-leaves-no-trace")
	}
}
