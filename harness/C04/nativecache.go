//vf:pkg pkg/core/native
package native

import (
	"errors"
	"math/big"
	"slices"

	"github.com/nspcc-dev/neo-go/pkg/config"
	"github.com/nspcc-dev/neo-go/pkg/core/block"
	"github.com/nspcc-dev/neo-go/pkg/core/dao"
	"github.com/nspcc-dev/neo-go/pkg/core/interop"
	"github.com/nspcc-dev/neo-go/pkg/core/state"
	"github.com/nspcc-dev/neo-go/pkg/core/storage"
	"github.com/nspcc-dev/neo-go/pkg/core/transaction"
	"github.com/nspcc-dev/neo-go/pkg/crypto/keys"
	"github.com/nspcc-dev/neo-go/pkg/smartcontract/trigger"
	"github.com/nspcc-dev/neo-go/pkg/util"
	"github.com/nspcc-dev/neo-go/pkg/vm/stackitem"
)

// C04 (b): native cache copy-on-write. A failed (dropped) execution layer must leave no trace in
// the native cache of the layer below: while a contract mutates its cache through a private
// DAO layer, the lower layer's cache object graph is never written (write barrier in the
// symbolic run, deep comparison with a snapshot in both runs); after Persist the lower layer
// sees exactly the upper layer's cache, after a drop it still sees the snapshot.

type vhLedger4n struct{}

func (vhLedger4n) BlockHeight() uint32                         { return 0 }
func (vhLedger4n) CurrentBlockHash() util.Uint256              { return util.Uint256{} }
func (vhLedger4n) GetBlock(util.Uint256) (*block.Block, error) { return nil, errors.New("no") }
func (vhLedger4n) GetConfig() config.Blockchain                { return config.Blockchain{} }
func (vhLedger4n) GetHeaderHash(uint32) util.Uint256           { return util.Uint256{} }
func (vhLedger4n) NativeManagementID() int32                   { return -1 }

type vhNEO4 struct{ interop.Contract }

func (vhNEO4) GetCommitteeAddress(*dao.Simple) util.Uint160              { return util.Uint160{} }
func (vhNEO4) GetNextBlockValidatorsInternal(*dao.Simple) keys.PublicKeys { return nil }
func (vhNEO4) BalanceOf(*dao.Simple, util.Uint160) (*big.Int, uint32)     { return big.NewInt(0), 0 }
func (vhNEO4) CalculateBonus(*interop.Context, util.Uint160, uint32) (*big.Int, error) {
	return big.NewInt(0), nil
}
func (vhNEO4) GetCommitteeMembers(*dao.Simple) keys.PublicKeys        { return nil }
func (vhNEO4) ComputeNextBlockValidators(*dao.Simple) keys.PublicKeys { return nil }
func (vhNEO4) GetCandidates(*dao.Simple) ([]state.Validator, error)   { return nil, nil }
func (vhNEO4) CheckCommittee(*interop.Context) bool                   { return true }
func (vhNEO4) CheckAlmostFullCommittee(*interop.Context) bool         { return true }
func (vhNEO4) RevokeVotesDeferrable(*interop.Context, util.Uint160, func()) (bool, error) {
	return false, nil
}

type vhPolicySnap struct {
	exec, price uint32
	fee         int64
	blocked     []util.Uint160
	attr        map[transaction.AttrType]uint32
}

func vhSnapPolicy(c *PolicyCache) vhPolicySnap {
	s := vhPolicySnap{exec: c.execFeeFactor, price: c.storagePrice, fee: c.feePerByte, blocked: slices.Clone(c.blockedAccounts), attr: map[transaction.AttrType]uint32{}}
	for k, v := range c.attributeFee {
		s.attr[k] = v
	}
	return s
}

func vhPolicyIs(c *PolicyCache, s vhPolicySnap) bool {
	if c.execFeeFactor != s.exec || c.storagePrice != s.price || c.feePerByte != s.fee || len(c.blockedAccounts) != len(s.blocked) || len(c.attributeFee) != len(s.attr) {
		return false
	}
	for i := range s.blocked {
		if c.blockedAccounts[i] != s.blocked[i] {
			return false
		}
	}
	for k, v := range s.attr {
		if w, ok := c.attributeFee[k]; !ok || w != v {
			return false
		}
	}
	return true
}

func vhTry4(f func()) {
	defer func() { _ = recover() }()
	f()
}

//vf:tier quick
//vf:bigint theory
//vf:unwind 200
//vf:stub the NEO contract is a stub whose committee always signs; pre-Faun rules
//vf:bound Policy cache with two blocked accounts (symbolic first bytes) and one attribute fee in the lower DAO layer; one operation (setFeePerByte, setExecFeeFactor, setStoragePrice, setAttributeFee, blockAccount, unblockAccount with symbolic arguments) through a private upper layer; then the upper layer is persisted or dropped
func VF_C04_native_cache_copy_on_write() {
	p := NewPolicy()
	p.NEO = vhNEO4{}
	d := dao.NewSimple(storage.NewMemoryStore(), false)
	ic := interop.NewContext(trigger.Application, vhLedger4n{}, d, 0, 0, nil, nil, nil, &block.Block{Header: block.Header{Index: 1, Timestamp: 1000}}, &transaction.Transaction{}, nil)
	ic.DAO = d
	vfAssert(p.Initialize(ic, nil, nil) == nil, "policy-initialize")
	a1, a2 := util.Uint160{vfU8("blocked1"), 0x77}, util.Uint160{vfU8("blocked2"), 0x77}
	p.BlockAccountInternalDeferrable(ic, a1, func(bool) {})
	p.BlockAccountInternalDeferrable(ic, a2, func(bool) {})
	vhTry4(func() {
		p.setAttributeFeeV0(ic, []stackitem.Item{stackitem.NewBigInteger(big.NewInt(int64(transaction.ConflictsT))), stackitem.NewBigInteger(big.NewInt(5))})
	})
	lowerCache := d.GetROCache(p.ID).(*PolicyCache)
	snap := vhSnapPolicy(lowerCache)

	up := d.GetPrivate()
	ic.DAO = up
	vfFreeze(lowerCache)
	switch vfChoose("op", 0, 5) {
	case 0:
		v := vfI64("fee-per-byte")
		vhTry4(func() { p.setFeePerByte(ic, []stackitem.Item{stackitem.NewBigInteger(big.NewInt(v))}) })
	case 1:
		v := int64(vfU32("exec-fee-factor"))
		vhTry4(func() { p.setExecFeeFactor(ic, []stackitem.Item{stackitem.NewBigInteger(big.NewInt(v))}) })
	case 2:
		v := int64(vfU32("storage-price"))
		vhTry4(func() { p.setStoragePrice(ic, []stackitem.Item{stackitem.NewBigInteger(big.NewInt(v))}) })
	case 3:
		t := []transaction.AttrType{transaction.ConflictsT, transaction.OracleResponseT}[vfChoose("attr", 0, 1)]
		v := int64(vfU32("attr-fee"))
		vhTry4(func() {
			p.setAttributeFeeV0(ic, []stackitem.Item{stackitem.NewBigInteger(big.NewInt(int64(t))), stackitem.NewBigInteger(big.NewInt(v))})
		})
	case 4:
		p.BlockAccountInternalDeferrable(ic, util.Uint160{vfU8("block"), 0x77}, func(bool) {})
	case 5:
		h := util.Uint160{vfU8("unblock"), 0x77}
		vhTry4(func() { p.unblockAccount(ic, []stackitem.Item{stackitem.NewByteArray(h.BytesBE())}) })
	}
	vfThaw(lowerCache)
	vfAssert(vhPolicyIs(d.GetROCache(p.ID).(*PolicyCache), snap), "lower-layer-cache-untouched-by-upper-mutation")
	upSnap := vhSnapPolicy(up.GetROCache(p.ID).(*PolicyCache))
	if vfBool("persist") {
		_, err := up.Persist()
		vfAssert(err == nil, "persist-ok")
		vfAssert(vhPolicyIs(d.GetROCache(p.ID).(*PolicyCache), upSnap), "after-persist:lower==upper")
	} else {
		vfAssert(vhPolicyIs(d.GetROCache(p.ID).(*PolicyCache), snap), "after-drop:lower==before")
	}
}
