//vf:pkg pkg/core/native
package native

import (
	"bytes"
	"crypto/elliptic"
	"errors"
	"math/big"

	"github.com/nspcc-dev/neo-go/pkg/config"
	"github.com/nspcc-dev/neo-go/pkg/core/block"
	"github.com/nspcc-dev/neo-go/pkg/core/dao"
	"github.com/nspcc-dev/neo-go/pkg/core/interop"
	"github.com/nspcc-dev/neo-go/pkg/core/native/noderoles"
	"github.com/nspcc-dev/neo-go/pkg/core/state"
	"github.com/nspcc-dev/neo-go/pkg/core/storage"
	"github.com/nspcc-dev/neo-go/pkg/core/transaction"
	"github.com/nspcc-dev/neo-go/pkg/crypto/keys"
	"github.com/nspcc-dev/neo-go/pkg/smartcontract/trigger"
	"github.com/nspcc-dev/neo-go/pkg/util"
	"github.com/nspcc-dev/neo-go/pkg/vm/stackitem"
)

// C01 (restart transparency of native caches): what a running node keeps in its in-memory
// native cache after a state change equals what a node restarted at that height rebuilds
// from storage with the contract's InitializeCache.

type vhLedger1 struct{}

func (vhLedger1) BlockHeight() uint32                         { return 0 }
func (vhLedger1) CurrentBlockHash() util.Uint256              { return util.Uint256{} }
func (vhLedger1) GetBlock(util.Uint256) (*block.Block, error) { return nil, errors.New("no") }
func (vhLedger1) GetConfig() config.Blockchain                { return config.Blockchain{} }
func (vhLedger1) GetHeaderHash(uint32) util.Uint256           { return util.Uint256{} }
func (vhLedger1) NativeManagementID() int32                   { return -1 }

func vhHex1(s string) *big.Int {
	b, _ := new(big.Int).SetString(s, 16)
	return b
}

// G and 2G on P-256
var vhKeys1 = []*keys.PublicKey{
	{X: vhHex1("6b17d1f2e12c4247f8bce6e563a440f277037d812deb33a0f4a13945d898c296"), Y: vhHex1("4fe342e2fe1a7f9b8ee7eb4a7c0f9e162bce33576b315ececbb6406837bf51f5")},
	{X: vhHex1("7cf27b188d034f7e8a52380304b51ac3c08969e277f21b35a60b48fc47669978"), Y: vhHex1("07775510db8ed040293d9ac69f7430dbba7dade63ce982299e04b79d227873d1")},
}

func vhKeyFromBytes1(b []byte, _ elliptic.Curve) (*keys.PublicKey, error) {
	for _, k := range vhKeys1 {
		if bytes.Equal(b, k.Bytes()) {
			return k, nil
		}
	}
	return nil, errors.New("unknown key")
}

func vhNodes1(sel int) keys.PublicKeys {
	switch sel {
	case 0:
		return keys.PublicKeys{vhKeys1[0]}
	case 1:
		return keys.PublicKeys{vhKeys1[1]}
	}
	return keys.PublicKeys{vhKeys1[1], vhKeys1[0]}
}

func vhSameRole(a, b *roleData) bool {
	if a.height != b.height || a.addr != b.addr || len(a.nodes) != len(b.nodes) {
		return false
	}
	for i := range a.nodes {
		if !a.nodes[i].Equal(b.nodes[i]) {
			return false
		}
	}
	return true
}

// vhDesignRebuilt: the cache a node restarted at this height builds from the same storage.
func vhDesignRebuilt(s *Designate, d *dao.Simple, height uint32) *DesignationCache {
	fresh := d.GetPrivate()
	err := s.InitializeCache(func(*config.Hardfork, uint32) bool { return false }, height, fresh)
	vfAssert(err == nil, "rebuild-ok")
	return fresh.GetROCache(s.ID).(*DesignationCache)
}

var vhRoles1 = []noderoles.Role{noderoles.Oracle, noderoles.StateValidator, noderoles.NeoFSAlphabet, noderoles.P2PNotary}

//vf:tier quick
//vf:bigint theory
//vf:unwind 200
//vf:redirect github.com/nspcc-dev/neo-go/pkg/crypto/keys.NewPublicKeyFromBytes => github.com/nspcc-dev/neo-go/pkg/core/native.vhKeyFromBytes1
//vf:stub public keys are G and 2G decoded by table lookup; designation runs with the OnPersist trigger (no committee witness)
//vf:bound one or two role designations (any of the four roles, node lists of 1..2 keys) in blocks h1 < h2 < 2^8; after each the RoleManagement cache of the running node is compared, role by role (nodes, address, height), with the cache rebuilt by InitializeCache from storage at that height
func VF_C01_designation_cache_equals_rebuild() {
	s := NewDesignate(nil)
	d := dao.NewSimple(storage.NewMemoryStore(), false)
	vfAssert(s.InitializeCache(func(*config.Hardfork, uint32) bool { return false }, 0, d) == nil, "initial-cache")
	ic := interop.NewContext(trigger.OnPersist, vhLedger1{}, d, 0, 0, nil, nil, nil, &block.Block{}, &transaction.Transaction{}, nil)
	ic.DAO = d
	n := 1 + vfChoose("second-designation", 0, 1)
	h := uint32(0)
	for i := 0; i < n; i++ {
		step := uint32(vfU8("block-gap"))
		vfAssume(step >= 1 && step <= 100)
		h += step
		ic.Block = &block.Block{Header: block.Header{Index: h}}
		r := vhRoles1[vfChoose("role", 0, 3)]
		err := s.DesignateAsRole(ic, r, vhNodes1(vfChoose("nodes", 0, 2)))
		vfAssert(err == nil, "designation-accepted")
		live := d.GetROCache(s.ID).(*DesignationCache)
		re := vhDesignRebuilt(s, d, h)
		vfAssert(vhSameRole(&live.oracles, &re.oracles), "oracles:live==rebuilt")
		vfAssert(vhSameRole(&live.stateVals, &re.stateVals), "state-validators:live==rebuilt")
		vfAssert(vhSameRole(&live.neofsAlphabet, &re.neofsAlphabet), "neofs-alphabet:live==rebuilt")
		vfAssert(vhSameRole(&live.notaries, &re.notaries), "notaries:live==rebuilt")
	}
}


// vhNEO1 stands in for the NEO contract where Policy needs it: the committee always signs.
type vhNEO1 struct{ interop.Contract }

func (vhNEO1) GetCommitteeAddress(*dao.Simple) util.Uint160                  { return util.Uint160{} }
func (vhNEO1) GetNextBlockValidatorsInternal(*dao.Simple) keys.PublicKeys     { return nil }
func (vhNEO1) BalanceOf(*dao.Simple, util.Uint160) (*big.Int, uint32)         { return big.NewInt(0), 0 }
func (vhNEO1) CalculateBonus(*interop.Context, util.Uint160, uint32) (*big.Int, error) {
	return big.NewInt(0), nil
}
func (vhNEO1) GetCommitteeMembers(*dao.Simple) keys.PublicKeys                { return nil }
func (vhNEO1) ComputeNextBlockValidators(*dao.Simple) keys.PublicKeys         { return nil }
func (vhNEO1) GetCandidates(*dao.Simple) ([]state.Validator, error)           { return nil, nil }
func (vhNEO1) CheckCommittee(*interop.Context) bool                           { return true }
func (vhNEO1) CheckAlmostFullCommittee(*interop.Context) bool                 { return true }
func (vhNEO1) RevokeVotesDeferrable(*interop.Context, util.Uint160, func()) (bool, error) {
	return false, nil
}

func vhPolicyRebuilt(p *Policy, d *dao.Simple) *PolicyCache {
	fresh := d.GetPrivate()
	err := p.InitializeCache(func(*config.Hardfork, uint32) bool { return false }, 1, fresh)
	vfAssert(err == nil, "policy-rebuild-ok")
	return fresh.GetROCache(p.ID).(*PolicyCache)
}

func vhSamePolicy(a, b *PolicyCache) bool {
	if a.execFeeFactor != b.execFeeFactor || a.feePerByte != b.feePerByte || a.storagePrice != b.storagePrice ||
		a.maxVerificationGas != b.maxVerificationGas || len(a.blockedAccounts) != len(b.blockedAccounts) || len(a.attributeFee) != len(b.attributeFee) {
		return false
	}
	for i := range a.blockedAccounts {
		if a.blockedAccounts[i] != b.blockedAccounts[i] {
			return false
		}
	}
	for k, v := range a.attributeFee {
		if w, ok := b.attributeFee[k]; !ok || w != v {
			return false
		}
	}
	return true
}

func vhNoPanic(f func()) (ok bool) {
	defer func() {
		if recover() != nil {
			ok = false
		}
	}()
	f()
	return true
}

//vf:tier quick
//vf:bigint theory
//vf:unwind 200
//vf:stub the NEO contract is a stub whose committee always signs; pre-Faun rules (no hard fork enabled)
//vf:bound Policy after 1..3 committee operations from {setFeePerByte, setExecFeeFactor, setStoragePrice, setAttributeFee (Conflicts / OracleResponse type), blockAccount, unblockAccount} with symbolic values (accepted or rejected) and symbolic account hashes (first byte symbolic): the running node's Policy cache equals the cache rebuilt from storage by InitializeCache (scalars, attribute fees, ordered blocked list)
func VF_C01_policy_cache_equals_rebuild() {
	p := NewPolicy()
	p.NEO = vhNEO1{}
	d := dao.NewSimple(storage.NewMemoryStore(), false)
	ic := interop.NewContext(trigger.Application, vhLedger1{}, d, 0, 0, nil, nil, nil, &block.Block{Header: block.Header{Index: 1, Timestamp: 1000}}, &transaction.Transaction{}, nil)
	ic.DAO = d
	vfAssert(p.Initialize(ic, nil, nil) == nil, "policy-initialize")
	n := 1 + vfChoose("more-ops", 0, 2)
	for i := 0; i < n; i++ {
		switch vfChoose("op", 0, 5) {
		case 0:
			v := vfI64("fee-per-byte")
			vhNoPanic(func() { p.setFeePerByte(ic, []stackitem.Item{stackitem.NewBigInteger(big.NewInt(v))}) })
		case 1:
			v := vfI64("exec-fee-factor")
			vfAssume(v >= -1 && v < 1<<33)
			vhNoPanic(func() { p.setExecFeeFactor(ic, []stackitem.Item{stackitem.NewBigInteger(big.NewInt(v))}) })
		case 2:
			v := vfI64("storage-price")
			vfAssume(v >= -1 && v < 1<<33)
			vhNoPanic(func() { p.setStoragePrice(ic, []stackitem.Item{stackitem.NewBigInteger(big.NewInt(v))}) })
		case 3:
			t := []transaction.AttrType{transaction.ConflictsT, transaction.OracleResponseT}[vfChoose("attr", 0, 1)]
			v := vfI64("attr-fee")
			vfAssume(v >= -1 && v < 1<<33)
			vhNoPanic(func() {
				p.setAttributeFeeV0(ic, []stackitem.Item{stackitem.NewBigInteger(big.NewInt(int64(t))), stackitem.NewBigInteger(big.NewInt(v))})
			})
		case 4:
			h := util.Uint160{vfU8("blocked-account"), 0x77}
			p.BlockAccountInternalDeferrable(ic, h, func(bool) {})
		case 5:
			h := util.Uint160{vfU8("unblocked-account"), 0x77}
			vhNoPanic(func() { p.unblockAccount(ic, []stackitem.Item{stackitem.NewByteArray(h.BytesBE())}) })
		}
		live := d.GetROCache(p.ID).(*PolicyCache)
		vfAssert(vhSamePolicy(live, vhPolicyRebuilt(p, d)), "policy:live==rebuilt")
	}
}
