//vf:pkg pkg/vm
package vm

import (
	"math/big"

	"github.com/nspcc-dev/neo-go/pkg/smartcontract/callflag"
	"github.com/nspcc-dev/neo-go/pkg/vm/opcode"
	"github.com/nspcc-dev/neo-go/pkg/vm/stackitem"
	"github.com/nspcc-dev/neo-go/pkg/vm/vmstate"
)

// C14 translation validation. zz_data.go (script, manifest and debug-info method tables) and
// zz_corpus.go (the corpus as part of this package) are regenerated on every run by
// tools/c14gen, which compiles harness/C14/corpus/corpus.go with /repo's current compiler.
// Each harness runs one exported function both ways for symbolic arguments: the real VM on
// the emitted bytecode, entered at the manifest's offset with the manifest's parameter count
// after _initialize, and the Go function itself; the returned value and fault/panic must agree.

func c14Find(tab []c14Method, name string) *c14Method {
	for i := range tab {
		if tab[i].Name == name {
			return &tab[i]
		}
	}
	return nil
}

// c14VM runs the compiled method; ok=false on FAULT.
func c14VM(name string, args []int) (stackitem.Item, bool) {
	md := c14Find(c14Manifest, name)
	vfAssert(md != nil, "method-in-manifest")
	if md == nil {
		return nil, false
	}
	vfAssert(md.Params == len(args), "manifest-parameter-count")
	v := New()
	v.LoadScriptWithFlags(c14Script, callflag.All)
	v.Context().Jump(md.Offset)
	if ini := c14Find(c14Manifest, "_initialize"); ini != nil {
		v.Call(ini.Offset)
	}
	for i := len(args) - 1; i >= 0; i-- {
		v.estack.PushItem(stackitem.NewBigInteger(big.NewInt(int64(args[i]))))
	}
	err := v.Run()
	if err != nil || v.state != vmstate.Halt {
		return nil, false
	}
	vfAssert(v.estack.Len() == 1, "one-result-on-the-stack")
	if v.estack.Len() != 1 {
		return nil, false
	}
	return v.estack.Pop().Item(), true
}

func c14GoInt(f func() int) (r int, ok bool) {
	defer func() {
		if recover() != nil {
			ok = false
		}
	}()
	return f(), true
}

func c14GoBool(f func() bool) (r bool, ok bool) {
	defer func() {
		if recover() != nil {
			ok = false
		}
	}()
	return f(), true
}

func c14CheckInt(name string, f func() int, args ...int) {
	want, wok := c14GoInt(f)
	got, gok := c14VM(name, args)
	vfAssert(gok == wok, name+":VM-faults<=>Go-panics")
	if !gok || !wok {
		return
	}
	bi, isInt := got.(*stackitem.BigInteger)
	vfAssert(isInt, name+":integer-result")
	if !isInt {
		return
	}
	vfAssert(bi.Big().IsInt64() && bi.Big().Int64() == int64(want), name+":same-value")
}

func c14CheckBool(name string, f func() bool, args ...int) {
	want, wok := c14GoBool(f)
	got, gok := c14VM(name, args)
	vfAssert(gok == wok, name+":VM-faults<=>Go-panics")
	if !gok || !wok {
		return
	}
	b, err := got.TryBool()
	vfAssert(err == nil && b == want, name+":same-value")
}

// c14Small: an argument from a small range, case-split (loop and recursion bounds).
func c14Small(name string, lo, hi int) int { return vfChoose(name, lo, hi) }

// c14Arg: a symbolic argument. Quick tier: any value in [-128,127] (one symbolic byte, sign
// extended); thorough tier: any value with |x| < 2^bits. No intermediate value of the corpus
// leaves the 64-bit range for such arguments.
func c14Arg(name string, bits uint) int {
	if vfTier() == 0 {
		return int(int8(vfU8(name)))
	}
	x := vfI64(name)
	vfAssume(x > -(1<<bits) && x < 1<<bits)
	return int(x)
}

//vf:tier quick
//vf:bigint theory
//vf:unwind 200
//vf:bound emitted manifest vs debug information vs bytecode for the corpus: same methods, offsets and parameter counts; every method offset is an instruction boundary and starts with INITSLOT taking that many arguments (or takes none)
func VF_C14_manifest_debuginfo_bytecode_agree() {
	starts := map[int]bool{}
	for i := 0; i < len(c14Script); {
		starts[i] = true
		prefix, fixed := 0, 0
		op := opcode.Opcode(c14Script[i])
		switch {
		case op <= opcode.PUSHINT256:
			fixed = 1 << uint(op)
		case op == opcode.PUSHA, op == opcode.SYSCALL, op >= opcode.JMPL && op <= opcode.CALLL && (op-opcode.JMP)%2 == 1, op == opcode.ENDTRYL:
			fixed = 4
		case op == opcode.PUSHDATA1:
			prefix = 1
		case op == opcode.PUSHDATA2:
			prefix = 2
		case op == opcode.PUSHDATA4:
			prefix = 4
		case op >= opcode.JMP && op <= opcode.CALL, op == opcode.ENDTRY, op == opcode.INITSSLOT, op == opcode.LDSFLD, op == opcode.STSFLD,
			op == opcode.LDLOC, op == opcode.STLOC, op == opcode.LDARG, op == opcode.STARG, op == opcode.NEWARRAYT, op == opcode.ISTYPE, op == opcode.CONVERT:
			fixed = 1
		case op == opcode.CALLT, op == opcode.TRY, op == opcode.INITSLOT:
			fixed = 2
		case op == opcode.TRYL:
			fixed = 8
		}
		p := i + 1
		for k := 0; k < prefix; k++ {
			fixed |= int(c14Script[p+k]) << (8 * uint(k))
		}
		i = p + prefix + fixed
	}
	nExported := 0
	for _, m := range c14Manifest {
		if m.Name == "_initialize" {
			vfAssert(starts[m.Offset], "initialize-offset-is-boundary")
			continue
		}
		nExported++
		vfAssert(starts[m.Offset], m.Name+":offset-is-boundary")
		d := c14Find(c14Debug, m.Name)
		vfAssert(d != nil && d.Offset == m.Offset && d.Params == m.Params && d.Ret == m.Ret, m.Name+":debug-info-agrees")
		if m.Params > 0 {
			vfAssert(opcode.Opcode(c14Script[m.Offset]) == opcode.INITSLOT && int(c14Script[m.Offset+2]) == m.Params, m.Name+":bytecode-takes-declared-parameters")
		}
	}
	vfAssert(nExported == 34, "all-exported-functions-in-manifest")
}

//vf:tier quick
//vf:bigint theory
//vf:unwind 300
//vf:bound integer and boolean expressions: C14Abs, C14Arith, C14Compare, C14Bits, C14Max3 for all arguments with x in [-128,127] (thorough: |x| < 2^20)
func VF_C14_expressions() {
	a, b := c14Arg("a", 20), c14Arg("b", 20)
	switch vfChoose("fn", 0, 4) {
	case 0:
		c14CheckInt("c14Abs", func() int { return C14Abs(a) }, a)
	case 1:
		c14CheckInt("c14Arith", func() int { return C14Arith(a, b) }, a, b)
	case 2:
		c14CheckBool("c14Compare", func() bool { return C14Compare(a, b) }, a, b)
	case 3:
		vfAssume(b >= 0)
		c14CheckInt("c14Bits", func() int { return C14Bits(a, b) }, a, b)
	case 4:
		c := c14Arg("c", 20)
		c14CheckInt("c14Max3", func() int { return C14Max3(a, b, c) }, a, b, c)
	}
}

//vf:tier quick
//vf:bigint theory
//vf:unwind 400
//vf:bound control flow: C14SumTo, C14Nested, C14SwitchInLoop, C14SwitchTag, C14RangeBreak for all arguments in [-2, 8]
func VF_C14_control_flow() {
	n := c14Small("n", -2, 8)
	switch vfChoose("fn", 0, 4) {
	case 0:
		c14CheckInt("c14SumTo", func() int { return C14SumTo(n) }, n)
	case 1:
		m := c14Small("m", -2, 8)
		c14CheckInt("c14Nested", func() int { return C14Nested(n, m) }, n, m)
	case 2:
		c14CheckInt("c14SwitchInLoop", func() int { return C14SwitchInLoop(n) }, n)
	case 3:
		c14CheckInt("c14SwitchTag", func() int { return C14SwitchTag(n) }, n)
	case 4:
		c14CheckInt("c14RangeBreak", func() int { return C14RangeBreak(n) }, n)
	}
}

//vf:tier quick
//vf:bigint theory
//vf:unwind 400
//vf:bound calls: C14MultiRet (a, b in [-128,127]; thorough: |a|,|b| < 2^20), C14Fact and C14Fib (n in [-2, 6]), C14Recover, C14RecoverPair and C14Panics (a in [-128,127]; thorough |a| < 2^20)
func VF_C14_calls_and_panics() {
	switch vfChoose("fn", 0, 5) {
	case 0:
		a, b := c14Arg("a", 20), c14Arg("b", 20)
		c14CheckInt("c14MultiRet", func() int { return C14MultiRet(a, b) }, a, b)
	case 1:
		n := c14Small("n", -2, 6)
		c14CheckInt("c14Fact", func() int { return C14Fact(n) }, n)
	case 2:
		n := c14Small("n", -2, 6)
		c14CheckInt("c14Fib", func() int { return C14Fib(n) }, n)
	case 3:
		a := c14Arg("a", 20)
		c14CheckInt("c14Recover", func() int { return C14Recover(a) }, a)
	case 4:
		a := c14Arg("a", 20)
		c14CheckInt("c14Panics", func() int { return C14Panics(a) }, a)
	case 5:
		a := c14Arg("a", 20)
		c14CheckInt("c14RecoverPair", func() int { return C14RecoverPair(a) }, a)
	}
}

//vf:tier quick
//vf:bigint theory
//vf:unwind 400
//vf:bound data: C14Globals (i in [-128,127]; thorough |i| < 2^20; globals re-initialised per run on both sides), C14Slices, C14Maps, C14Structs, C14StructAssign (a, b in [-128,127]; thorough: |a|,|b| < 2^20), C14Bytes (a in [0,255])
func VF_C14_data() {
	switch vfChoose("fn", 0, 5) {
	case 0:
		i := c14Arg("i", 20)
		c14Base, c14Table = 7, []int{3, 1, 4, 1, 5}
		c14Derived = c14Base*2 + len(c14Table)
		c14CheckInt("c14Globals", func() int { return C14Globals(i) }, i)
	case 1:
		a, b := c14Arg("a", 20), c14Arg("b", 20)
		c14CheckInt("c14Slices", func() int { return C14Slices(a, b) }, a, b)
	case 2:
		a, b := c14Arg("a", 20), c14Arg("b", 20)
		c14CheckInt("c14Maps", func() int { return C14Maps(a, b) }, a, b)
	case 3:
		a, b := c14Arg("a", 20), c14Arg("b", 20)
		c14CheckInt("c14Structs", func() int { return C14Structs(a, b) }, a, b)
	case 5:
		a, b := c14Arg("a", 20), c14Arg("b", 20)
		vfKnown("struct-assignment-aliases", true)
		c14CheckInt("c14StructAssign", func() int { return C14StructAssign(a, b) }, a, b)
	case 4:
		a := c14Arg("a", 9)
		vfAssume(a >= 0 && a <= 255)
		c14CheckInt("c14Bytes", func() int { return C14Bytes(a) }, a)
	}
}

//vf:tier quick
//vf:bigint theory
//vf:unwind 400
//vf:bound forward conditional jumps over 36..47 increment statements (bodies of about 108..141 bytes: both sides of the short/long jump boundary), argument in [-128,127] (thorough: |a| < 2^20)
func VF_C14_jump_distances() {
	a := c14Arg("a", 20)
	switch vfChoose("body", 0, 11) {
	case 0:
		c14CheckInt("c14Jump36", func() int { return C14Jump36(a) }, a)
	case 1:
		c14CheckInt("c14Jump37", func() int { return C14Jump37(a) }, a)
	case 2:
		c14CheckInt("c14Jump38", func() int { return C14Jump38(a) }, a)
	case 3:
		c14CheckInt("c14Jump39", func() int { return C14Jump39(a) }, a)
	case 4:
		c14CheckInt("c14Jump40", func() int { return C14Jump40(a) }, a)
	case 5:
		c14CheckInt("c14Jump41", func() int { return C14Jump41(a) }, a)
	case 6:
		c14CheckInt("c14Jump42", func() int { return C14Jump42(a) }, a)
	case 7:
		c14CheckInt("c14Jump43", func() int { return C14Jump43(a) }, a)
	case 8:
		c14CheckInt("c14Jump44", func() int { return C14Jump44(a) }, a)
	case 9:
		c14CheckInt("c14Jump45", func() int { return C14Jump45(a) }, a)
	case 10:
		c14CheckInt("c14Jump46", func() int { return C14Jump46(a) }, a)
	case 11:
		c14CheckInt("c14Jump47", func() int { return C14Jump47(a) }, a)
	}
}
