// Package corpus is the fixed set of Go functions used for the C14 translation validation:
// each exported function is compiled to NeoVM bytecode by the real compiler and executed by
// the real VM, and the same Go source is executed as Go; results must agree for all arguments
// within the stated bounds. Only constructs of the documented compiler dialect are used.
package corpus

// ---- integers and booleans

func C14Abs(a int) int {
	if a < 0 {
		return -a
	}
	return a
}

func C14Arith(a, b int) int {
	return (a+b)*3 - a*11 + (a-b)/7 + a%5 - b/(-3)
}

func C14Compare(a, b int) bool {
	return a < b && a+1 <= b || a == b*2 || !(a >= 3)
}

func C14Bits(a, b int) int {
	return (a&b | a ^ b) + (a << 3) + (b >> 2)
}

func C14Max3(a, b, c int) int {
	m := a
	if b > m {
		m = b
	}
	if c > m {
		m = c
	}
	return m
}

// ---- loops, break/continue, labels

func C14SumTo(n int) int {
	s := 0
	for i := 0; i < n; i++ {
		if i%3 == 1 {
			continue
		}
		if i > 4 {
			break
		}
		s += i * 2
	}
	return s
}

func C14Nested(n, m int) int {
	s := 0
outer:
	for i := 0; i < n; i++ {
		for j := 0; j < m; j++ {
			if j == 2 {
				continue outer
			}
			if i+j == 5 {
				break outer
			}
			s += i*10 + j
		}
	}
	return s
}

func C14SwitchInLoop(n int) int {
	s := 0
	for i := 0; i < n; i++ {
		switch {
		case i == 1:
			s += 100
		case i%2 == 0:
			for _, v := range []int{1, 2, 3} {
				s += v
			}
			if i == 2 {
				break
			}
			s += 10
		default:
			s += 1
		}
	}
	return s
}

func C14SwitchTag(a int) int {
	switch a {
	case 0, 1:
		return 10
	case 2:
		a += 5
		fallthrough
	case 3:
		return a * 2
	}
	return -1
}

func C14RangeBreak(n int) int {
	s := 0
	for i, v := range []int{5, 6, 7, 8, 9} {
		if i == n {
			break
		}
		if v == 7 {
			continue
		}
		s += v
	}
	return s
}

// ---- multiple returns, discarded results, recursion

func c14DivMod(a, b int) (q, r int) {
	q = a / b
	r = a % b
	return
}

func C14MultiRet(a, b int) int {
	if b == 0 {
		return -1
	}
	q, r := c14DivMod(a, 7)
	c14DivMod(b+1, 3)
	_, r2 := c14DivMod(a+b, -2)
	return q*100 + r*10 + r2
}

func C14Fact(n int) int {
	if n <= 1 {
		return 1
	}
	return n * C14Fact(n-1)
}

func C14Fib(n int) int {
	if n < 2 {
		return n
	}
	return C14Fib(n-1) + C14Fib(n-2)
}

// ---- globals and init order

var c14Base = 7
var c14Table = []int{3, 1, 4, 1, 5}
var c14Derived = c14Base*2 + len(c14Table)

func C14Globals(i int) int {
	if i < 0 || i >= len(c14Table) {
		return c14Derived
	}
	c14Base += i
	return c14Table[i] + c14Base
}

// ---- slices and maps

func C14Slices(a, b int) int {
	s := []int{a, b}
	s = append(s, a+b)
	s[0] = s[2] - 1
	sum := 0
	for i, v := range s {
		if i > 0 {
			sum += v
		}
	}
	return sum + len(s)*1000 + s[0]
}

func C14Maps(a, b int) int {
	m := map[int]int{1: 10, 2: 20}
	m[a] = b
	m[2] += 5
	v, ok := m[3]
	r := m[a] + m[2] + len(m)*1000
	if ok {
		r += v
	}
	delete(m, 1)
	return r + len(m)
}

// ---- structs through pointers and methods

type c14Point struct {
	X, Y int
}

func (p *c14Point) move(dx int) { p.X += dx }
func (p c14Point) sum() int     { return p.X + p.Y }

func C14Structs(a, b int) int {
	p := c14Point{X: a, Y: b}
	q := c14Point{X: p.X, Y: p.Y + 1}
	p.move(3)
	pp := &c14Point{X: b, Y: a}
	pp.Y = 9
	pp.move(a)
	return p.sum()*100 + q.sum() + pp.sum()*10000
}

// ---- defer / recover, panics

func c14MayPanic(a int) int {
	if a == 3 {
		panic("three")
	}
	return a * 2
}

var c14Recovered int

func c14Guarded(a int) int {
	defer func() {
		if x := recover(); x != nil {
			c14Recovered = -7
		} else {
			c14Recovered = 1
		}
	}()
	c14Recovered = 0
	r := c14MayPanic(a) + 1
	return r
}

func C14Recover(a int) int {
	r := c14Guarded(a)
	return r*10 + c14Recovered
}

// C14StructAssign: in Go the assignment copies the struct value.
func C14StructAssign(a, b int) int {
	p := c14Point{X: a, Y: b}
	q := p
	p.X += 1
	return q.X*2 + p.X
}

func C14Panics(a int) int {
	if a == 2 {
		panic("two")
	}
	arr := []int{1, 2, 3}
	return arr[a]
}

// recovered panic in a function with several unnamed results of different types: the zero
// values come back in their declared positions
func c14Lookup(i int) (int, string) {
	defer func() { recover() }()
	if i < 0 {
		panic("negative index")
	}
	return i * 2, "ok"
}

func C14RecoverPair(i int) int {
	v, s := c14Lookup(i)
	if s == "" {
		return 1000 + v
	}
	return v
}

// ---- strings and byte slices

func C14Bytes(a int) int {
	b := []byte{1, 2, 3}
	b[1] = byte(a)
	s := "abc"
	if len(s) == 3 && s == "abc" {
		return int(b[1]) + len(b)
	}
	return 0
}

// ---- forward jumps over bodies of graded length (jump-shortening boundaries)

func C14Jump36(a int) int {
	x := a
	if x < 0 {
		x++
		x++
		x++
		x++
		x++
		x++
		x++
		x++
		x++
		x++
		x++
		x++
		x++
		x++
		x++
		x++
		x++
		x++
		x++
		x++
		x++
		x++
		x++
		x++
		x++
		x++
		x++
		x++
		x++
		x++
		x++
		x++
		x++
		x++
		x++
		x++
	}
	return x
}

func C14Jump37(a int) int {
	x := a
	if x < 0 {
		x++
		x++
		x++
		x++
		x++
		x++
		x++
		x++
		x++
		x++
		x++
		x++
		x++
		x++
		x++
		x++
		x++
		x++
		x++
		x++
		x++
		x++
		x++
		x++
		x++
		x++
		x++
		x++
		x++
		x++
		x++
		x++
		x++
		x++
		x++
		x++
		x++
	}
	return x
}

func C14Jump38(a int) int {
	x := a
	if x < 0 {
		x++
		x++
		x++
		x++
		x++
		x++
		x++
		x++
		x++
		x++
		x++
		x++
		x++
		x++
		x++
		x++
		x++
		x++
		x++
		x++
		x++
		x++
		x++
		x++
		x++
		x++
		x++
		x++
		x++
		x++
		x++
		x++
		x++
		x++
		x++
		x++
		x++
		x++
	}
	return x
}

func C14Jump39(a int) int {
	x := a
	if x < 0 {
		x++
		x++
		x++
		x++
		x++
		x++
		x++
		x++
		x++
		x++
		x++
		x++
		x++
		x++
		x++
		x++
		x++
		x++
		x++
		x++
		x++
		x++
		x++
		x++
		x++
		x++
		x++
		x++
		x++
		x++
		x++
		x++
		x++
		x++
		x++
		x++
		x++
		x++
		x++
	}
	return x
}

func C14Jump40(a int) int {
	x := a
	if x < 0 {
		x++
		x++
		x++
		x++
		x++
		x++
		x++
		x++
		x++
		x++
		x++
		x++
		x++
		x++
		x++
		x++
		x++
		x++
		x++
		x++
		x++
		x++
		x++
		x++
		x++
		x++
		x++
		x++
		x++
		x++
		x++
		x++
		x++
		x++
		x++
		x++
		x++
		x++
		x++
		x++
	}
	return x
}

func C14Jump41(a int) int {
	x := a
	if x < 0 {
		x++
		x++
		x++
		x++
		x++
		x++
		x++
		x++
		x++
		x++
		x++
		x++
		x++
		x++
		x++
		x++
		x++
		x++
		x++
		x++
		x++
		x++
		x++
		x++
		x++
		x++
		x++
		x++
		x++
		x++
		x++
		x++
		x++
		x++
		x++
		x++
		x++
		x++
		x++
		x++
		x++
	}
	return x
}

func C14Jump42(a int) int {
	x := a
	if x < 0 {
		x++
		x++
		x++
		x++
		x++
		x++
		x++
		x++
		x++
		x++
		x++
		x++
		x++
		x++
		x++
		x++
		x++
		x++
		x++
		x++
		x++
		x++
		x++
		x++
		x++
		x++
		x++
		x++
		x++
		x++
		x++
		x++
		x++
		x++
		x++
		x++
		x++
		x++
		x++
		x++
		x++
		x++
	}
	return x
}

func C14Jump43(a int) int {
	x := a
	if x < 0 {
		x++
		x++
		x++
		x++
		x++
		x++
		x++
		x++
		x++
		x++
		x++
		x++
		x++
		x++
		x++
		x++
		x++
		x++
		x++
		x++
		x++
		x++
		x++
		x++
		x++
		x++
		x++
		x++
		x++
		x++
		x++
		x++
		x++
		x++
		x++
		x++
		x++
		x++
		x++
		x++
		x++
		x++
		x++
	}
	return x
}

func C14Jump44(a int) int {
	x := a
	if x < 0 {
		x++
		x++
		x++
		x++
		x++
		x++
		x++
		x++
		x++
		x++
		x++
		x++
		x++
		x++
		x++
		x++
		x++
		x++
		x++
		x++
		x++
		x++
		x++
		x++
		x++
		x++
		x++
		x++
		x++
		x++
		x++
		x++
		x++
		x++
		x++
		x++
		x++
		x++
		x++
		x++
		x++
		x++
		x++
		x++
	}
	return x
}

func C14Jump45(a int) int {
	x := a
	if x < 0 {
		x++
		x++
		x++
		x++
		x++
		x++
		x++
		x++
		x++
		x++
		x++
		x++
		x++
		x++
		x++
		x++
		x++
		x++
		x++
		x++
		x++
		x++
		x++
		x++
		x++
		x++
		x++
		x++
		x++
		x++
		x++
		x++
		x++
		x++
		x++
		x++
		x++
		x++
		x++
		x++
		x++
		x++
		x++
		x++
		x++
	}
	return x
}

func C14Jump46(a int) int {
	x := a
	if x < 0 {
		x++
		x++
		x++
		x++
		x++
		x++
		x++
		x++
		x++
		x++
		x++
		x++
		x++
		x++
		x++
		x++
		x++
		x++
		x++
		x++
		x++
		x++
		x++
		x++
		x++
		x++
		x++
		x++
		x++
		x++
		x++
		x++
		x++
		x++
		x++
		x++
		x++
		x++
		x++
		x++
		x++
		x++
		x++
		x++
		x++
		x++
	}
	return x
}

func C14Jump47(a int) int {
	x := a
	if x < 0 {
		x++
		x++
		x++
		x++
		x++
		x++
		x++
		x++
		x++
		x++
		x++
		x++
		x++
		x++
		x++
		x++
		x++
		x++
		x++
		x++
		x++
		x++
		x++
		x++
		x++
		x++
		x++
		x++
		x++
		x++
		x++
		x++
		x++
		x++
		x++
		x++
		x++
		x++
		x++
		x++
		x++
		x++
		x++
		x++
		x++
		x++
		x++
	}
	return x
}
