//vf:pkg pkg/core/interop/runtime
package runtime

import (
	"encoding/json"
	"errors"

	"github.com/nspcc-dev/neo-go/pkg/config"
	"github.com/nspcc-dev/neo-go/pkg/core/block"
	"github.com/nspcc-dev/neo-go/pkg/core/dao"
	"github.com/nspcc-dev/neo-go/pkg/core/interop"
	"github.com/nspcc-dev/neo-go/pkg/core/state"
	"github.com/nspcc-dev/neo-go/pkg/core/storage"
	"github.com/nspcc-dev/neo-go/pkg/core/transaction"
	"github.com/nspcc-dev/neo-go/pkg/crypto/keys"
	"github.com/nspcc-dev/neo-go/pkg/io"
	"github.com/nspcc-dev/neo-go/pkg/smartcontract"
	"github.com/nspcc-dev/neo-go/pkg/smartcontract/callflag"
	"github.com/nspcc-dev/neo-go/pkg/smartcontract/manifest"
	"github.com/nspcc-dev/neo-go/pkg/smartcontract/nef"
	"github.com/nspcc-dev/neo-go/pkg/smartcontract/trigger"
	"github.com/nspcc-dev/neo-go/pkg/util"
	"github.com/nspcc-dev/neo-go/pkg/vm"
	"github.com/nspcc-dev/neo-go/pkg/vm/opcode"
	"github.com/nspcc-dev/neo-go/pkg/vm/stackitem"
)

// C15: witness scopes and rules, over the real VM invocation stack and interop context.

type vfLedger struct{}

func (vfLedger) BlockHeight() uint32                               { return 0 }
func (vfLedger) CurrentBlockHash() util.Uint256                    { return util.Uint256{} }
func (vfLedger) GetBlock(util.Uint256) (*block.Block, error)       { return nil, errors.New("no") }
func (vfLedger) GetConfig() config.Blockchain                      { return config.Blockchain{} }
func (vfLedger) GetHeaderHash(uint32) util.Uint256                 { return util.Uint256{} }
func (vfLedger) NativeManagementID() int32                         { return -1 }

// Script hashes are 20 fully symbolic bytes; which of them coincide is decided by the solver.
func vfH(name string) (h util.Uint160) {
	copy(h[:], vfBytes(name, 20))
	return
}

// Group keys are arbitrary coordinate pairs (matching only compares coordinates).
func vfKey(name string) *keys.PublicKey {
	return &keys.PublicKey{X: vfBig(name+".x", 257), Y: vfBig(name+".y", 257)}
}

func vfSameKey(a, b *keys.PublicKey) bool { return a.X.Cmp(b.X) == 0 && a.Y.Cmp(b.Y) == 0 }

type vfContractInfo struct {
	hash   util.Uint160
	found  bool
	groups []*keys.PublicKey
}

var vfContracts []*vfContractInfo

// vfGetContract lazily decides (once per distinct hash) whether the contract exists and which
// groups (0..2 arbitrary keys) it has.
func vfGetContract(_ *dao.Simple, h util.Uint160) (*state.Contract, error) {
	var c *vfContractInfo
	for _, k := range vfContracts {
		if k.hash == h {
			c = k
			break
		}
	}
	if c == nil {
		c = &vfContractInfo{hash: h, found: vfBool("contract.found")}
		if c.found {
			n := vfChoose("contract.ngroups", 0, 2)
			for k := 0; k < n; k++ {
				c.groups = append(c.groups, vfKey("contract.group"))
			}
		}
		vfContracts = append(vfContracts, c)
	}
	if !c.found {
		return nil, errors.New("not found")
	}
	cs := &state.Contract{}
	cs.Hash = h
	for _, g := range c.groups {
		cs.Manifest.Groups = append(cs.Manifest.Groups, manifest.Group{PublicKey: g})
	}
	return cs, nil
}

func vfHasGroup(h util.Uint160, key *keys.PublicKey) bool {
	for _, c := range vfContracts {
		if c.hash == h && c.found {
			for _, g := range c.groups {
				if vfSameKey(g, key) {
					return true
				}
			}
		}
	}
	return false
}

// vfCond is an arbitrary witness condition: its outcome is unconstrained, which stands for
// any condition tree (the tree combinators themselves are checked in package transaction).
type vfCond struct {
	res bool
	err error
}

func (c *vfCond) Type() transaction.WitnessConditionType             { return transaction.WitnessBoolean }
func (c *vfCond) Match(transaction.MatchContext) (bool, error)       { return c.res, c.err }
func (c *vfCond) EncodeBinary(*io.BinWriter)                         {}
func (c *vfCond) DecodeBinarySpecific(*io.BinReader, int)            {}
func (c *vfCond) ToStackItem() stackitem.Item                        { return stackitem.Null{} }
func (c *vfCond) ToSCParameter() (smartcontract.Parameter, error)    { return smartcontract.Parameter{}, nil }
func (c *vfCond) Copy() transaction.WitnessCondition                 { return c }
func (c *vfCond) MarshalJSON() ([]byte, error)                       { return json.Marshal(nil) }

var vfErrCond = errors.New("condition error")

type vfWorld struct {
	ic      *interop.Context
	v       *vm.VM
	depth   int
	cur     util.Uint160
	calling util.Uint160
	flags   callflag.CallFlag
}

// vfBuild loads 1..3 contexts; the top one optionally through LoadNEFMethod with an explicit
// (possibly zero or foreign) calling hash, as native contracts and dynamic scripts do.
func vfBuild() *vfWorld {
	w := &vfWorld{}
	vfContracts = nil
	w.v = vm.New()
	w.depth = vfChoose("depth", 1, 3)
	w.flags = callflag.CallFlag(vfU8("flags")) & callflag.All
	ret := []byte{byte(opcode.RET)}
	for i := 0; i < w.depth; i++ {
		h := vfH("ctx.hash")
		vfAssume(h != (util.Uint160{})) // a zero hash would make the VM derive the hash from the script bytes
		last := i == w.depth-1
		how := 0
		if last {
			how = vfChoose("load", 0, 2)
		}
		if how == 1 {
			caller := vfH("caller.hash") // any hash, including zero (no caller) and the account itself
			w.v.LoadNEFMethod(&nef.File{Script: ret}, nil, caller, h, w.flags, false, 0, -1, nil, nil, false)
			w.calling = caller
		} else if how == 2 && i > 0 {
			// a dynamic script (System.Runtime.LoadScript): its caller is the loading contract and
			// its own hash is derived from the script bytes
			w.calling = w.v.GetCurrentScriptHash()
			w.v.LoadDynamicScript(ret, w.flags)
			h = w.v.GetCurrentScriptHash()
		} else {
			w.calling = w.v.GetCurrentScriptHash()
			w.v.LoadScriptWithHash(ret, h, w.flags)
		}
		w.cur = h
	}
	d := dao.NewSimple(storage.NewMemoryStore(), false)
	w.ic = interop.NewContext(trigger.Application, vfLedger{}, d, 0, 0, vfGetContract, nil, nil, nil, nil, nil)
	w.ic.VM = w.v
	return w
}

func (w *vfWorld) calledByEntry() bool { return w.depth <= 2 }

//vf:tier quick
//vf:bigint theory
//vf:unwind 32
//vf:bound invocation stack depth 1..3 with fully symbolic 20-byte script hashes (any coincidences), top context loaded as a contract, with an explicit caller hash (native/LoadNEFMethod), or as a dynamic script; one signer (account equal to the checked one or not); every valid scope combination; <=2 allowed contracts, <=1 allowed group, <=2 rules with arbitrary condition outcome; contracts with 0..2 groups (arbitrary keys) or missing
//vf:assume loaded contexts carry non-zero script hashes
//vf:stub public keys are arbitrary coordinate pairs; rule conditions are arbitrary (bool, error) outcomes
func VF_C15_check_scope_one_signer() { vfCheckScope(1, 1) }

//vf:tier thorough
//vf:bigint theory
//vf:unwind 32
//vf:bound as above with exactly two signers (distinct accounts)
func VF_C15_check_scope_two_signers() { vfCheckScope(2, 2) }

func vfCheckScope(nsLo, nsHi int) {
	w := vfBuild()
	// the account being checked
	acc := vfH("account")
	// signers: 1..2 with distinct accounts
	ns := vfChoose("nsigners", nsLo, nsHi)
	tx := &transaction.Transaction{}
	type sspec struct {
		account   util.Uint160
		scope     transaction.WitnessScope
		contracts []util.Uint160
		group     *keys.PublicKey
		rules     []*vfCond
		actions   []transaction.WitnessAction
	}
	var specs []sspec
	for i := 0; i < ns; i++ {
		var s sspec
		s.account = vfH("signer.account")
		for _, p := range specs {
			vfAssume(p.account != s.account)
		}
		s.scope = transaction.WitnessScope(vfU8("signer.scope"))
		vfAssume(s.scope == transaction.Global || s.scope&^(transaction.CalledByEntry|transaction.CustomContracts|transaction.CustomGroups|transaction.Rules) == 0)
		sg := transaction.Signer{Account: s.account, Scopes: s.scope}
		if s.scope != transaction.Global && s.scope&transaction.CustomContracts != 0 {
			for k, n := 0, vfChoose("signer.ncontracts", 0, 2); k < n; k++ {
				s.contracts = append(s.contracts, vfH("signer.contract"))
			}
			sg.AllowedContracts = s.contracts
		}
		if s.scope != transaction.Global && s.scope&transaction.CustomGroups != 0 {
			s.group = vfKey("signer.group")
			sg.AllowedGroups = []*keys.PublicKey{s.group}
		}
		if s.scope != transaction.Global && s.scope&transaction.Rules != 0 {
			for k, n := 0, vfChoose("signer.nrules", 0, 2); k < n; k++ {
				c := &vfCond{res: vfBool("rule.res")}
				if vfBool("rule.err") {
					c.err = vfErrCond
				}
				act := transaction.WitnessDeny
				if vfBool("rule.allow") {
					act = transaction.WitnessAllow
				}
				s.rules = append(s.rules, c)
				s.actions = append(s.actions, act)
				sg.Rules = append(sg.Rules, transaction.WitnessRule{Action: act, Condition: c})
			}
		}
		tx.Signers = append(tx.Signers, sg)
		specs = append(specs, s)
	}
	w.ic.Tx = tx
	vfCover("built")
	got, err := CheckHashedWitness(w.ic, acc)

	// reference, written from the property statement
	want, wantErr := false, false
	if w.calling != (util.Uint160{}) && acc == w.calling {
		want = true // a contract always witnesses calls it makes itself
	} else {
		for _, s := range specs {
			if s.account != acc {
				continue
			}
			switch {
			case s.scope == transaction.Global:
				want = true
			default:
				if s.scope&transaction.CalledByEntry != 0 && w.calledByEntry() {
					want = true
					break
				}
				if s.scope&transaction.CustomContracts != 0 {
					for _, c := range s.contracts {
						if c == w.cur {
							want = true
						}
					}
					if want {
						break
					}
				}
				if s.scope&transaction.CustomGroups != 0 {
					if !w.flags.Has(callflag.ReadStates) {
						wantErr = true
						break
					}
					if vfHasGroupLazy(w.cur, s.group) {
						want = true
						break
					}
				}
				if s.scope&transaction.Rules != 0 {
					for i, r := range s.rules {
						if r.err != nil {
							wantErr = true
							break
						}
						if r.res {
							want = s.actions[i] == transaction.WitnessAllow
							break
						}
					}
				}
			}
			break
		}
	}
	if wantErr {
		vfAssert(err != nil && !got, "error=>not-witnessed")
	} else {
		vfAssert(err == nil, "no-error-expected")
		vfAssert(got == want, "witnessed<=>scope-allows")
	}
}

// vfHasGroupLazy answers group membership of contract h for the reference; the contract record is
// created on demand exactly as the code under test would see it.
func vfHasGroupLazy(h util.Uint160, key *keys.PublicKey) bool {
	_, _ = vfGetContract(nil, h)
	return vfHasGroup(h, key)
}

//vf:tier quick
//vf:bigint theory
//vf:unwind 32
//vf:bound every leaf condition kind evaluated through the real scopeContext over the same worlds (depth 1..3, explicit callers, contracts with 0..2 groups or missing)
func VF_C15_leaf_conditions_real_context() {
	w := vfBuild()
	sc := scopeContext{w.v, w.ic}
	kind := vfChoose("kind", 0, 4)
	switch kind {
	case 0:
		h := vfH("cond.hash")
		c := transaction.ConditionScriptHash(h)
		got, err := c.Match(sc)
		vfAssert(err == nil && got == (h == w.cur), "ScriptHash<=>current")
	case 1:
		h := vfH("cond.hash")
		c := transaction.ConditionCalledByContract(h)
		got, err := c.Match(sc)
		vfAssert(err == nil && got == (h == w.calling), "CalledByContract<=>calling")
	case 2:
		got, err := transaction.ConditionCalledByEntry{}.Match(sc)
		vfAssert(err == nil && got == w.calledByEntry(), "CalledByEntry<=>depth<=2")
	case 3:
		k := vfKey("cond.key")
		c := (*transaction.ConditionGroup)(k)
		got, err := c.Match(sc)
		if !w.flags.Has(callflag.ReadStates) {
			vfAssert(err != nil && !got, "Group-needs-ReadStates")
		} else {
			vfAssert(err == nil && got == vfHasGroupLazy(w.cur, k), "Group<=>current-in-group")
		}
	case 4:
		k := vfKey("cond.key")
		c := (*transaction.ConditionCalledByGroup)(k)
		got, err := c.Match(sc)
		if !w.flags.Has(callflag.ReadStates) {
			vfAssert(err != nil && !got, "CalledByGroup-needs-ReadStates")
		} else {
			vfAssert(err == nil && got == vfHasGroupLazy(w.calling, k), "CalledByGroup<=>calling-in-group")
		}
	}
}
