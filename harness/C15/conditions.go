//vf:pkg pkg/core/transaction
package transaction

import (
	"encoding/json"
	"errors"

	"github.com/nspcc-dev/neo-go/pkg/crypto/keys"
	"github.com/nspcc-dev/neo-go/pkg/io"
	"github.com/nspcc-dev/neo-go/pkg/smartcontract"
	"github.com/nspcc-dev/neo-go/pkg/util"
	"github.com/nspcc-dev/neo-go/pkg/vm/stackitem"
)

// C15: witness-condition combinators by structural induction. Children are arbitrary
// conditions (any (bool, error) outcome), so one step covers every nesting depth.

type vfAnyCond struct {
	res   bool
	err   error
	calls *int
}

func (c *vfAnyCond) Type() WitnessConditionType { return WitnessBoolean }
func (c *vfAnyCond) Match(MatchContext) (bool, error) {
	*c.calls++
	return c.res, c.err
}
func (c *vfAnyCond) EncodeBinary(*io.BinWriter)                      {}
func (c *vfAnyCond) DecodeBinarySpecific(*io.BinReader, int)         {}
func (c *vfAnyCond) ToStackItem() stackitem.Item                     { return stackitem.Null{} }
func (c *vfAnyCond) ToSCParameter() (smartcontract.Parameter, error) { return smartcontract.Parameter{}, nil }
func (c *vfAnyCond) Copy() WitnessCondition                          { return c }
func (c *vfAnyCond) MarshalJSON() ([]byte, error)                    { return json.Marshal(nil) }

var vfCondErr = errors.New("child error")

type vfCtx struct {
	cur, calling   util.Uint160
	entry          bool
	curG, callingG bool
	gErr           bool
}

func (c *vfCtx) GetCallingScriptHash() util.Uint160 { return c.calling }
func (c *vfCtx) GetCurrentScriptHash() util.Uint160 { return c.cur }
func (c *vfCtx) CallingScriptHasGroup(*keys.PublicKey) (bool, error) {
	if c.gErr {
		return false, vfCondErr
	}
	return c.callingG, nil
}
func (c *vfCtx) CurrentScriptHasGroup(*keys.PublicKey) (bool, error) {
	if c.gErr {
		return false, vfCondErr
	}
	return c.curG, nil
}
func (c *vfCtx) IsCalledByEntry() bool { return c.entry }

func vfChildren(n int, calls *int) ([]WitnessCondition, []*vfAnyCond) {
	var cs []WitnessCondition
	var raw []*vfAnyCond
	for i := 0; i < n; i++ {
		c := &vfAnyCond{res: vfBool("child.res"), calls: calls}
		if vfBool("child.err") {
			c.err = vfCondErr
		}
		cs = append(cs, c)
		raw = append(raw, c)
	}
	return cs, raw
}

//vf:tier quick
//vf:unwind 16
//vf:bound Not over an arbitrary child; And/Or over 1..3 arbitrary children (MaxSubitems is 16; the loops are uniform); Boolean leaf
func VF_C15_condition_combinators() {
	calls := 0
	ctx := &vfCtx{}
	switch vfChoose("kind", 0, 3) {
	case 0:
		b := vfBool("b")
		c := ConditionBoolean(b)
		got, err := (&c).Match(ctx)
		vfAssert(err == nil && got == b, "Boolean")
	case 1:
		cs, raw := vfChildren(1, &calls)
		c := &ConditionNot{Condition: cs[0]}
		got, err := c.Match(ctx)
		if raw[0].err != nil {
			vfAssert(err != nil && !got, "Not-propagates-error")
		} else {
			vfAssert(err == nil && got == !raw[0].res, "Not-negates")
		}
	case 2:
		n := vfChoose("n", 1, 3)
		cs, raw := vfChildren(n, &calls)
		c := ConditionAnd(cs)
		got, err := (&c).Match(ctx)
		// reference: the first child that fails or errs decides
		want, wantErr, evaluated := true, false, 0
		for _, r := range raw {
			evaluated++
			if r.err != nil {
				want, wantErr = false, true
				break
			}
			if !r.res {
				want = false
				break
			}
		}
		vfAssert((err != nil) == wantErr && got == want, "And=all-in-order")
		vfAssert(calls == evaluated, "And-short-circuits")
	case 3:
		n := vfChoose("n", 1, 3)
		cs, raw := vfChildren(n, &calls)
		c := ConditionOr(cs)
		got, err := (&c).Match(ctx)
		want, wantErr, evaluated := false, false, 0
		for _, r := range raw {
			evaluated++
			if r.err != nil {
				want, wantErr = false, true
				break
			}
			if r.res {
				want = true
				break
			}
		}
		vfAssert((err != nil) == wantErr && got == want, "Or=any-in-order")
		vfAssert(calls == evaluated, "Or-short-circuits")
	}
}

//vf:tier quick
//vf:bigint theory
//vf:unwind 16
//vf:bound the five context-dependent leaf kinds against an arbitrary match context (symbolic hashes, entry flag, group answers and errors)
func VF_C15_condition_leaves() {
	ctx := &vfCtx{entry: vfBool("entry"), curG: vfBool("curG"), callingG: vfBool("callingG"), gErr: vfBool("gErr")}
	copy(ctx.cur[:], vfBytes("cur", 20))
	copy(ctx.calling[:], vfBytes("calling", 20))
	var h util.Uint160
	copy(h[:], vfBytes("h", 20))
	key := &keys.PublicKey{X: vfBig("k.x", 257), Y: vfBig("k.y", 257)}
	switch vfChoose("kind", 0, 4) {
	case 0:
		c := ConditionScriptHash(h)
		got, err := (&c).Match(ctx)
		vfAssert(err == nil && got == (h == ctx.cur), "ScriptHash")
	case 1:
		c := ConditionCalledByContract(h)
		got, err := (&c).Match(ctx)
		vfAssert(err == nil && got == (h == ctx.calling), "CalledByContract")
	case 2:
		got, err := ConditionCalledByEntry{}.Match(ctx)
		vfAssert(err == nil && got == ctx.entry, "CalledByEntry")
	case 3:
		got, err := (*ConditionGroup)(key).Match(ctx)
		vfAssert((err != nil) == ctx.gErr && got == (!ctx.gErr && ctx.curG), "Group")
	case 4:
		got, err := (*ConditionCalledByGroup)(key).Match(ctx)
		vfAssert((err != nil) == ctx.gErr && got == (!ctx.gErr && ctx.callingG), "CalledByGroup")
	}
}
