//vf:pkg internal/vfselftest
package vfselftest

import (
	"bytes"
	"encoding/binary"
	"errors"
	"fmt"
	"math/big"
	"math/bits"
	"slices"
	"sort"
	"strings"
)

// Translator self-test: small Go programs whose noted results are compared between the
// engine's evaluation under a solver model and a native run with the same inputs.

type pt struct {
	X, Y int32
	Tag  string
}

type shape interface {
	Area() int
}
type sq struct{ s int }
type rc struct{ w, h int }

func (s sq) Area() int  { return s.s * s.s }
func (r *rc) Area() int { return r.w * r.h }

var errNeg = errors.New("negative")

func chk(x int) (r int, err error) {
	defer func() {
		if e := recover(); e != nil {
			r, err = -1, fmt.Errorf("recovered: %v", e)
		}
	}()
	if x < 0 {
		return 0, errNeg
	}
	arr := []int{1, 2, 3}
	return arr[x], nil
}

//vf:unwind 80
func VF_SELF_intops() {
	a, b := vfI64("a"), vfI64("b")
	u, v := vfU32("u"), vfU8("v")
	vfAssume(b != 0)
	vfNote("add", a+b)
	vfNote("sub", a-b)
	vfNote("mul", a*3)
	vfNote("div", a/b)
	vfNote("rem", a%b)
	vfNote("and", a&b)
	vfNote("or", a|b)
	vfNote("xor", a^b)
	vfNote("andnot", a&^b)
	vfNote("neg", -a)
	vfNote("not", ^a)
	vfNote("shl", a<<(v%70))
	vfNote("shr", a>>(v%70))
	vfNote("ushr", uint64(a)>>(v%70))
	vfNote("u32shl", u<<(v&31))
	vfNote("conv8", int8(a))
	vfNote("convu16", uint16(a))
	vfNote("sext", int64(int8(v)))
	vfNote("zext", uint64(v))
	vfNote("lt", a < b)
	vfNote("ule", uint64(a) <= uint64(b))
	vfNote("u32", u*u+7)
	vfNote("min", min(a, b, 5))
	vfNote("max", max(int64(u), b))
	vfNote("lz", bits.LeadingZeros64(uint64(a)))
	vfNote("tz", bits.TrailingZeros32(u))
	vfNote("len", bits.Len8(v))
	vfNote("ones", bits.OnesCount32(u))
	vfNote("rev", bits.ReverseBytes32(u))
	hi, lo := bits.Mul64(uint64(a), 12345)
	vfNote("mulhi", hi)
	vfNote("mullo", lo)
	s, c := bits.Add64(uint64(a), uint64(b), 1)
	vfNote("adds", s)
	vfNote("addc", c)
	vfCover("end")
}

//vf:unwind 80
func VF_SELF_slices() {
	b := vfBytes("b", 6)
	k := vfU8("k")
	vfAssume(k < 6)
	s := make([]byte, 0, 4)
	s = append(s, b[:3]...)
	t := append(s, 9)
	s2 := append(s, 8) // aliases t's slot
	vfNote("t3", t[3])
	vfNote("s2", s2)
	t = append(t, b[3:]...) // grows
	t[0] = 0xee
	vfNote("s0", s[0])
	vfNote("t", t)
	vfNote("bk", b[k])
	b[k] = 0x55
	vfNote("b", b)
	c := make([]byte, 4)
	n := copy(c, b[2:])
	vfNote("n", n)
	vfNote("c", c)
	copy(b[1:], b[:4]) // overlapping
	vfNote("bov", b)
	vfNote("eq", bytes.Equal(b[:2], c[:2]))
	vfNote("cmp", bytes.Compare(b[:3], c[:3]))
	vfNote("hp", bytes.HasPrefix(b, c[:1]))
	vfNote("idx", bytes.IndexByte(b, 0x55))
	var arr [4]uint16
	arr[k%4] = uint16(k) * 300
	arr2 := arr
	arr2[0]++
	vfNote("arr", arr[:])
	vfNote("arr2", arr2[:])
	vfNote("le", binary.LittleEndian.Uint32(b))
	vfNote("be", binary.BigEndian.Uint16(b[2:]))
	vfCover("end")
}

//vf:unwind 80
func VF_SELF_slices2() {
	b := vfBytes("b", 5)
	x := []int{int(b[0]), int(b[1]), int(b[2]), int(b[3]), int(b[4])}
	sort.Ints(x)
	vfNote("sorted", x)
	y := []int{int(b[4]), int(b[2]), int(b[0])}
	sort.Slice(y, func(i, j int) bool { return y[i] > y[j] })
	vfNote("sorted2", y)
	z := slices.Clone(x)
	slices.Reverse(z)
	vfNote("rev", z)
	vfNote("contains", slices.Contains(x, 7))
	i, found := slices.BinarySearch(x, int(b[1]))
	vfNote("bs", i)
	vfNote("bsf", found)
	z = slices.Delete(z, 1, 3)
	vfNote("del", z)
	z = slices.Insert(z, 1, 100, 200)
	vfNote("ins", z)
	var buf [8]byte
	binary.LittleEndian.PutUint32(buf[2:], uint32(b[0])<<8|uint32(b[1]))
	vfNote("buf", buf[:])
	vfCover("end")
}

//vf:unwind 80
func VF_SELF_maps() {
	a, b, c := vfU8("a"), vfU8("b"), vfU8("c")
	m := map[uint8]int{}
	m[a] = 1
	m[b] += 2
	m[c] += 4
	vfNote("len", len(m))
	vfNote("ma", m[a])
	vfNote("mb", m[b])
	v, ok := m[7]
	vfNote("v7", v)
	vfNote("ok7", ok)
	delete(m, b)
	vfNote("len2", len(m))
	sum := 0
	for k, v := range m {
		sum += int(k) * v
	}
	vfNote("sum", sum)
	ms := map[string][]byte{}
	key := string([]byte{a, 'x'})
	ms[key] = append(ms[key], b)
	ms["ax"] = append(ms["ax"], c)
	vfNote("mslen", len(ms))
	vfNote("msax", ms["ax"])
	type k2 struct {
		A uint8
		B [2]byte
	}
	mk := map[k2]bool{{a, [2]byte{b, c}}: true}
	vfNote("mk", mk[k2{1, [2]byte{2, 3}}])
	vfCover("end")
}

//vf:unwind 80
func VF_SELF_structs_ifaces() {
	a, b := vfI32("a"), vfI32("b")
	p := pt{a, b, "p"}
	q := p
	q.X++
	pp := &p
	pp.Y = 7
	vfNote("px", p.X)
	vfNote("py", p.Y)
	vfNote("qx", q.X)
	vfNote("eq", p == q)
	var sh shape = sq{int(a)}
	vfNote("area1", sh.Area())
	sh = &rc{int(a), int(b)}
	vfNote("area2", sh.Area())
	_, isSq := sh.(sq)
	vfNote("issq", isSq)
	switch x := sh.(type) {
	case sq:
		vfNote("sw", 1)
	case *rc:
		vfNote("sw", 2+x.w-x.w)
	}
	var e error
	vfNote("nilerr", e == nil)
	r, err := chk(int(a))
	vfNote("r", r)
	vfNote("errnil", err == nil)
	vfNote("isneg", errors.Is(err, errNeg))
	w := fmt.Errorf("wrap: %w", errNeg)
	vfNote("wrapped", errors.Is(w, errNeg))
	fs := []func(int) int{func(x int) int { return x + int(a) }, func(x int) int { return x * 2 }}
	acc := 1
	for _, f := range fs {
		acc = f(acc)
	}
	vfNote("acc", acc)
	cnt := 0
	inc := func() { cnt++ }
	inc()
	inc()
	vfNote("cnt", cnt)
	vfCover("end")
}

//vf:unwind 80
func VF_SELF_strings() {
	b := vfBytes("b", 4)
	s := string(b)
	vfNote("s", s)
	vfNote("lt", s < "ab")
	vfNote("eq", s == "abcd")
	vfNote("cat", s+"!")
	vfNote("sub", s[1:3])
	vfNote("b2", []byte(s[2:]))
	vfNote("hp", strings.HasPrefix(s, "a"))
	vfNote("cmp", strings.Compare(s, "b"))
	var sb strings.Builder
	sb.WriteString("x")
	sb.WriteByte(b[0])
	sb.Write(b[1:2])
	vfNote("sb", sb.String())
	var bb bytes.Buffer
	bb.Write(b)
	bb.WriteByte(1)
	vfNote("bb", bb.Bytes())
	rd := bytes.NewReader(b)
	x, _ := rd.ReadByte()
	vfNote("rb", x)
	vfNote("rlen", rd.Len())
	vfCover("end")
}

func gen[T any](xs []T, f func(T) bool) (out []T) {
	for _, x := range xs {
		if f(x) {
			out = append(out, x)
		}
	}
	return
}

func iter(n int) func(func(int) bool) {
	return func(yield func(int) bool) {
		for i := 0; i < n; i++ {
			if !yield(i) {
				return
			}
		}
	}
}

//vf:unwind 80
func VF_SELF_control() {
	n := vfU8("n")
	vfAssume(n < 6)
	s := 0
	for i := 0; i < int(n); i++ {
		if i == 3 {
			continue
		}
		s += i
	}
	vfNote("s", s)
	ev := gen([]int{1, 2, 3, 4, int(n)}, func(x int) bool { return x%2 == 0 })
	vfNote("ev", ev)
	t := 0
	for i := range iter(int(n)) {
		if i == 4 {
			break
		}
		t += i * i
	}
	vfNote("t", t)
	d := 0
	func() {
		defer func() { d += 10 }()
		defer func() { d *= 2 }()
		d = int(n)
	}()
	vfNote("d", d)
	var lbl int
outer:
	for i := 0; i < 3; i++ {
		for j := 0; j < 3; j++ {
			if i*j == int(n) {
				break outer
			}
			lbl++
		}
	}
	vfNote("lbl", lbl)
	switch {
	case n < 2:
		vfNote("sw", "lt2")
	case n == 2, n == 3:
		vfNote("sw", "23")
		fallthrough
	default:
		vfNote("sw2", "dflt")
	}
	ch := make(chan int, 2)
	ch <- int(n)
	ch <- 5
	close(ch)
	tot := 0
	for v := range ch {
		tot += v
	}
	vfNote("tot", tot)
	vfCover("end")
}

// Integer<->bit-vector bridge: theory-mode big.Int values that originate from machine
// integers and byte strings, pushed through the shift/mask/div/mod/compare/truncate rewrites
// of the term layer; every noted value is compared with the native run.
//
//vf:bigint theory
//vf:unwind 80
func VF_SELF_bigbridge() {
	r := vfChoose("region", 0, 3)
	x := vfI64("x")
	bs := vfBytes("bs", 3)
	switch r {
	case 0:
		vfAssume(x < -70000)
	case 1:
		vfAssume(x > 70000)
	case 2:
		vfAssume(x >= -300 && x < 0)
	case 3:
		vfAssume(x >= 0 && x < 300)
	}
	vfAssume((bs[2] >= 0x80) == (r%2 == 0))
	vfAssume(bs[0] != 0 && bs[1] != 0)
	n := big.NewInt(x)
	m := new(big.Int)
	for i := 2; i >= 0; i-- {
		m = new(big.Int).Add(new(big.Int).Lsh(m, 8), new(big.Int).SetUint64(uint64(bs[i])))
	}
	if bs[2] >= 0x80 {
		m = new(big.Int).Sub(m, big.NewInt(1<<24))
	}
	k255, k256, k64k := big.NewInt(255), big.NewInt(256), big.NewInt(65536)
	vfNote("n", n)
	vfNote("m", m)
	vfNote("n>>8", new(big.Int).Rsh(n, 8))
	vfNote("m>>8", new(big.Int).Rsh(m, 8))
	vfNote("m>>30", new(big.Int).Rsh(m, 30))
	vfNote("n&255", new(big.Int).And(n, k255))
	vfNote("m&255", new(big.Int).And(m, k255))
	vfNote("(m>>8)&255", new(big.Int).And(new(big.Int).Rsh(m, 8), k255))
	vfNote("n mod 256", new(big.Int).Mod(n, k256))
	vfNote("m mod 65536", new(big.Int).Mod(m, k64k))
	vfNote("(m-65536) div 256", new(big.Int).Div(new(big.Int).Sub(m, k64k), k256))
	vfNote("(m-65536) mod 256", new(big.Int).Mod(new(big.Int).Sub(m, k64k), k256))
	vfNote("(n+65536) mod 65536", new(big.Int).Mod(new(big.Int).Add(n, k64k), k64k))
	vfNote("m mod 2^40", new(big.Int).Mod(m, new(big.Int).Lsh(big.NewInt(1), 40)))
	vfNote("n.Int64", n.Int64())
	vfNote("m.Int64", m.Int64())
	vfNote("(m-65536).Int64", new(big.Int).Sub(m, k64k).Int64())
	vfNote("byte(m)", byte(m.Int64()))
	vfNote("uint16((m>>4)&0xffff)", uint16(new(big.Int).And(new(big.Int).Rsh(m, 4), big.NewInt(0xffff)).Uint64()))
	vfNote("m<n", m.Cmp(n) < 0)
	vfNote("m<-128", m.Cmp(big.NewInt(-128)) < 0)
	vfNote("m-65536<-70000", new(big.Int).Sub(m, k64k).Cmp(big.NewInt(-70000)) < 0)
	vfNote("n==300", n.Cmp(big.NewInt(300)) == 0)
	vfNote("m+n", new(big.Int).Add(m, n))
	vfNote("m.IsInt64", m.IsInt64())
	vfNote("n.Sign", n.Sign())
	vfNote("m.BitLen", m.BitLen())
	vfCover("end-region-" + string(rune('0'+r)))
}
