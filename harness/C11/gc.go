//vf:pkg pkg/core/stateroot
package stateroot

import (
	"encoding/binary"

	"github.com/nspcc-dev/neo-go/pkg/config"
	"github.com/nspcc-dev/neo-go/pkg/core/storage"
	"go.uber.org/zap"
)

// C11 §2: garbage collection up to height G removes exactly the trie records that are marked
// inactive with a height <= G; active records and records that became inactive later stay.

//vf:tier quick
//vf:unwind 64
//vf:bound 3 stored trie records with symbolic payload byte, active flag and height/count word, any GC height; records of other key classes untouched
func VF_C11_gc_removes_exactly_old_inactive_records() {
	ms := storage.NewMemoryStore()
	type rec struct {
		key    []byte
		active bool
		word   uint32
	}
	var recs []rec
	puts := map[string][]byte{}
	for i := 0; i < 3; i++ {
		r := rec{key: []byte{byte(storage.DataMPT), byte(i + 1)}, active: vfBool("active"), word: vfU32("word")}
		v := []byte{vfU8("payload"), 0, 0, 0, 0, 0}
		if r.active {
			v[1] = 1
		}
		binary.LittleEndian.PutUint32(v[2:], r.word)
		puts[string(r.key)] = v
		recs = append(recs, r)
	}
	other := []byte{byte(storage.DataMPTAux), 9}
	puts[string(other)] = []byte{1, 0, 0, 0, 0, 0}
	_ = ms.PutChangeSet(puts, nil)
	cfg := config.Blockchain{}
	cfg.RemoveUntraceableBlocks = true
	cfg.KeepOnlyLatestState = true
	m := NewModule(cfg, nil, zap.NewNop(), storage.NewMemCachedStore(ms))
	g := vfU32("gc-height")
	m.GC(g, ms)
	for _, r := range recs {
		_, err := ms.Get(r.key)
		gone := err != nil
		vfAssert(gone == (!r.active && r.word <= g), "removed<=>inactive-since-height<=G")
	}
	_, err := ms.Get(other)
	vfAssert(err == nil, "other-key-classes-untouched")
}
