//vf:pkg pkg/core/mpt
package mpt

import (
	"encoding/binary"

	"github.com/nspcc-dev/neo-go/pkg/core/storage"
	"github.com/nspcc-dev/neo-go/pkg/util"
)

// C11 §1,§3: after every flush, in the latest-state-only and the garbage-collecting modes, the
// store holds exactly the nodes the current root needs, each with a count equal to the number
// of times it occurs in the trie; nodes no longer referenced
// are deleted (latest) or marked inactive with the flush height (GC).

type vhNodeInfo struct {
	h     util.Uint256
	bytes []byte
	refs  int
}

type vhNodeSet struct{ ns []*vhNodeInfo }

func (s *vhNodeSet) get(h util.Uint256) *vhNodeInfo {
	for _, n := range s.ns {
		if n.h == h {
			return n
		}
	}
	return nil
}

// vhCollect walks the in-memory trie and counts the occurrences of every distinct node.
func vhCollect(n Node, s *vhNodeSet) {
	switch n.(type) {
	case EmptyNode:
		return
	case *HashNode:
		panic("harness expects an uncollapsed trie")
	}
	h := n.Hash()
	if x := s.get(h); x != nil {
		x.refs++ // every occurrence in the trie counts, also below a shared parent
	} else {
		s.ns = append(s.ns, &vhNodeInfo{h: h, bytes: n.Bytes(), refs: 1})
	}
	switch t := n.(type) {
	case *BranchNode:
		for _, c := range t.Children {
			vhCollect(c, s)
		}
	case *ExtensionNode:
		vhCollect(t.next, s)
	}
}

// vhExpand replaces every hash node of t by the node loaded from the store.
func vhExpand(t *Trie) {
	var ex func(n Node) Node
	ex = func(n Node) Node {
		switch x := n.(type) {
		case *HashNode:
			r, err := t.getFromStore(x.hash)
			if err != nil {
				vfFail("reachable-node-missing-from-store")
				return n
			}
			return ex(r)
		case *BranchNode:
			for i := range x.Children {
				x.Children[i] = ex(x.Children[i])
			}
		case *ExtensionNode:
			x.next = ex(x.next)
		}
		return n
	}
	t.root = ex(t.root)
}

func vhKeyRC(name string) []byte {
	k := vfBytes(name, vfChoose(name+".len", 1, 1+vfTier()))
	for _, b := range k {
		vfAssume(b&0xEE == 0) // nibbles in {0,1}
	}
	return k
}

func vhCheckStore(st *storage.MemCachedStore, mode TrieMode, live, old *vhNodeSet, index uint32) {
	for _, n := range live.ns {
		data, err := st.Get(makeStorageKey(n.h))
		vfAssert(err == nil, "live-node-stored")
		if err != nil {
			continue
		}
		vfAssert(len(data) == len(n.bytes)+5 && data[len(data)-5] == 1, "live-node-active")
		vfAssert(int(binary.LittleEndian.Uint32(data[len(data)-4:])) == n.refs, "stored-count==references")
	}
	for _, n := range old.ns {
		if live.get(n.h) != nil {
			continue
		}
		data, err := st.Get(makeStorageKey(n.h))
		if mode.GC() {
			vfAssert(err == nil && data[len(data)-5] == 0 && binary.LittleEndian.Uint32(data[len(data)-4:]) == index, "dead-node-marked-inactive-with-height")
		} else {
			vfAssert(err != nil, "dead-node-deleted")
		}
	}
}

func vhRefcountRun(mode TrieMode) {
	st := storage.NewMemCachedStore(storage.NewMemoryStore())
	t := NewTrie(nil, mode, st)
	// block 1: two keys, possibly with the same value (shared leaf)
	k1, k2 := vhKeyRC("k1"), vhKeyRC("k2")
	v1 := []byte{vfU8("v1")}
	v2 := []byte{vfU8("v2")}
	vfAssert(t.Put(k1, v1) == nil && t.Put(k2, v2) == nil, "puts-ok")
	t.Flush(1)
	s1 := &vhNodeSet{}
	vhCollect(t.root, s1)
	vhCheckStore(st, mode, s1, &vhNodeSet{}, 1)
	vfCover("block1-checked")
	if vfBool("collapse") {
		t.Collapse(0) // block 2 then loads the nodes it touches from the store
	}
	// block 2: one or two more changes
	for i, n := 0, 1+vfChoose("second-change", 0, 1); i < n; i++ {
		switch vfChoose("op", 0, 4) {
		case 4:
			// a block whose change set removes a key that may not be in the trie (storage Delete
			// records such removals unconditionally), applied as a batch
			b := MapToMPTBatch(map[string][]byte{string(vhKeyRC("k4")): nil})
			_, err := t.PutBatch(b)
			vfAssert(err == nil, "batch-remove-ok")
		case 0:
			vfAssert(t.Put(vhKeyRC("k3"), []byte{vfU8("v3")}) == nil, "put3-ok")
		case 1:
			vfAssert(t.Delete(k1) == nil, "delete-ok")
		case 2:
			// delete and recreate within one block
			vfAssert(t.Delete(k2) == nil && t.Put(k2, v2) == nil, "delete-recreate-ok")
		case 3:
			vfAssert(t.Put(k2, []byte{vfU8("v2b")}) == nil, "update-ok")
		}
	}
	t.Flush(2)
	if _, collapsed := t.root.(*HashNode); collapsed {
		return
	}
	// read the whole trie back so that the in-memory walk below sees every node
	s2 := &vhNodeSet{}
	if !isEmpty(t.root) {
		t2 := NewTrie(NewHashNode(t.root.Hash()), mode, st)
		vhExpand(t2)
		vhCollect(t2.root, s2)
	}
	vhCheckStore(st, mode, s2, s1, 2)
	// block 3 (optional): bring back what block 1 had (nodes dropped in block 2 and not yet
	// collected are created again)
	if !vfBool("third-block-restores-block-1") {
		return
	}
	vfAssert(t.Put(k1, v1) == nil && t.Put(k2, v2) == nil, "restore-ok")
	t.Flush(3)
	if _, collapsed := t.root.(*HashNode); collapsed {
		return
	}
	s3 := &vhNodeSet{}
	t3 := NewTrie(NewHashNode(t.root.Hash()), mode, st)
	vhExpand(t3)
	vhCollect(t3.root, s3)
	both := &vhNodeSet{}
	both.ns = append(append(both.ns, s1.ns...), s2.ns...)
	vhCheckStoreLive(st, s3)
}

// vhCheckStoreLive: every node of the latest trie is stored active with the right count.
func vhCheckStoreLive(st *storage.MemCachedStore, live *vhNodeSet) {
	for _, n := range live.ns {
		data, err := st.Get(makeStorageKey(n.h))
		vfAssert(err == nil, "block3:live-node-stored")
		if err != nil {
			continue
		}
		vfAssert(len(data) == len(n.bytes)+5 && data[len(data)-5] == 1, "block3:live-node-active")
		vfAssert(int(binary.LittleEndian.Uint32(data[len(data)-4:])) == n.refs, "block3:stored-count==references")
	}
}

//vf:tier quick
//vf:unwind 64
//vf:hash uf+injective
//vf:bound latest-state mode: block 1 puts two keys (1 byte in quick, 1..2 in thorough, nibbles {0,1}, 1-byte values that may coincide), optional Collapse, then block 2 makes 1..2 changes out of: put a third key / delete one / delete and recreate one / update one / batch-remove a symbolic key that may be absent; optionally a third block that puts block 1's pairs back; store checked after each flush
func VF_C11_stored_counts_latest() { vhRefcountRun(ModeLatest) }

//vf:tier quick
//vf:unwind 64
//vf:hash uf+injective
//vf:bound same in the garbage-collecting mode (unreferenced nodes marked inactive with the flush height)
func VF_C11_stored_counts_gc() { vhRefcountRun(ModeGC) }

//vf:tier quick
//vf:unwind 64
//vf:hash uf+injective
//vf:bound both reference-counting modes: a flushed trie with the keys 0000 and 0001 (a three-nibble extension above a branch) and optionally 0100; a second block whose change set removes any 2-byte key over nibbles {0,1} (present or absent, diverging anywhere along the extension) and optionally updates 0000; store checked after the flush
func VF_C11_batch_removal_along_an_extension() {
	mode := []TrieMode{ModeLatest, ModeGC}[vfChoose("mode", 0, 1)]
	st := storage.NewMemCachedStore(storage.NewMemoryStore())
	t := NewTrie(nil, mode, st)
	v := []byte{vfU8("v")}
	vfAssert(t.Put([]byte{0x00, 0x00}, v) == nil && t.Put([]byte{0x00, 0x01}, []byte{vfU8("w")}) == nil, "puts-ok")
	if vfBool("third-key") {
		vfAssert(t.Put([]byte{0x01, 0x00}, v) == nil, "put3-ok")
	}
	t.Flush(1)
	s1 := &vhNodeSet{}
	vhCollect(t.root, s1)
	if vfBool("collapse") {
		t.Collapse(0)
	}
	k := vfBytes("removed", 2)
	for _, b := range k {
		vfAssume(b&0xEE == 0)
	}
	changes := map[string][]byte{string(k): nil}
	if vfBool("also-update") && !(k[0] == 0 && k[1] == 0) {
		changes[string([]byte{0x00, 0x00})] = []byte{vfU8("v2")}
	}
	_, err := t.PutBatch(MapToMPTBatch(changes))
	vfAssert(err == nil, "batch-ok")
	t.Flush(2)
	if _, collapsed := t.root.(*HashNode); collapsed || isEmpty(t.root) {
		return
	}
	s2 := &vhNodeSet{}
	t2 := NewTrie(NewHashNode(t.root.Hash()), mode, st)
	vhExpand(t2)
	vhCollect(t2.root, s2)
	vhCheckStore(st, mode, s2, s1, 2)
}
