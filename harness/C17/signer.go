//vf:pkg pkg/core/transaction
package transaction

import (
	"bytes"

	"github.com/nspcc-dev/neo-go/pkg/io"
	"github.com/nspcc-dev/neo-go/pkg/util"
)

// C17 §A: signers, witness rules and condition trees survive encode -> decode, the reported
// size is the encoding length, and the documented count limits are exact.

func vhCond(depth int) WitnessCondition {
	hi := 3
	if depth <= 1 {
		hi = 3
	}
	switch vfChoose("cond.kind", 0, 6) {
	case 0:
		b := ConditionBoolean(vfBool("cond.bool"))
		return &b
	case 1:
		var h util.Uint160
		copy(h[:], vfBytes("cond.hash", 20))
		c := ConditionScriptHash(h)
		return &c
	case 2:
		return ConditionCalledByEntry{}
	case 3:
		var h util.Uint160
		copy(h[:], vfBytes("cond.hash", 20))
		c := ConditionCalledByContract(h)
		return &c
	case 4:
		if depth <= 1 {
			return ConditionCalledByEntry{}
		}
		return &ConditionNot{Condition: vhCond(depth - 1)}
	case 5, 6:
		if depth <= 1 {
			return ConditionCalledByEntry{}
		}
		n := vfChoose("cond.n", 1, 2)
		var cs []WitnessCondition
		for i := 0; i < n; i++ {
			cs = append(cs, vhCond(depth-1))
		}
		_ = hi
		a := ConditionAnd(cs)
		return &a
	}
	return ConditionCalledByEntry{}
}

func vhSameCond(a, b WitnessCondition) bool {
	var wa, wb = io.NewBufBinWriter(), io.NewBufBinWriter()
	a.EncodeBinary(wa.BinWriter)
	b.EncodeBinary(wb.BinWriter)
	return a.Type() == b.Type() && bytes.Equal(wa.Bytes(), wb.Bytes())
}

//vf:tier quick
//vf:unwind 64
//vf:bound signer with symbolic account and every valid scope combination except CustomGroups (public-key decompression is outside); 0..2 allowed contracts; 0..1 rules with a condition tree of depth <= 2 (Boolean, ScriptHash, CalledByEntry, CalledByContract, Not, And of 1..2)
func VF_C17_signer_roundtrip() {
	var s Signer
	copy(s.Account[:], vfBytes("account", 20))
	s.Scopes = WitnessScope(vfU8("scope"))
	vfAssume(s.Scopes == Global || s.Scopes&^(CalledByEntry|CustomContracts|Rules) == 0)
	if s.Scopes != Global && s.Scopes&CustomContracts != 0 {
		for i, n := 0, vfChoose("ncontracts", 0, 2); i < n; i++ {
			var h util.Uint160
			copy(h[:], vfBytes("contract", 20))
			s.AllowedContracts = append(s.AllowedContracts, h)
		}
	}
	if s.Scopes != Global && s.Scopes&Rules != 0 {
		if vfChoose("nrules", 0, 1) == 1 {
			act := WitnessDeny
			if vfBool("allow") {
				act = WitnessAllow
			}
			s.Rules = append(s.Rules, WitnessRule{Action: act, Condition: vhCond(2)})
		}
	}
	w := io.NewBufBinWriter()
	s.EncodeBinary(w.BinWriter)
	vfAssert(w.Err == nil, "encode-ok")
	enc := w.Bytes()
	vfAssert(io.GetVarSize(&s) == len(enc), "size==len(encoding)")
	var d Signer
	r := io.NewBinReaderFromBuf(enc)
	d.DecodeBinary(r)
	vfAssert(r.Err == nil && r.Len() == 0, "decode-ok-and-consumes-all")
	if r.Err != nil {
		return
	}
	vfAssert(d.Account == s.Account && d.Scopes == s.Scopes, "account-and-scope")
	vfAssert(len(d.AllowedContracts) == len(s.AllowedContracts) && len(d.Rules) == len(s.Rules), "list-lengths")
	for i := range d.AllowedContracts {
		if i < len(s.AllowedContracts) {
			vfAssert(d.AllowedContracts[i] == s.AllowedContracts[i], "contracts")
		}
	}
	for i := range d.Rules {
		if i < len(s.Rules) {
			vfAssert(d.Rules[i].Action == s.Rules[i].Action && vhSameCond(d.Rules[i].Condition, s.Rules[i].Condition), "rules")
		}
	}
}

//vf:tier quick
//vf:unwind 64
//vf:bound And / Or conditions with 1, 15, 16 and 17 (CalledByEntry) children: exactly the counts 1..16 encode and decode back
func VF_C17_condition_count_limit() {
	n := []int{1, 15, 16, 17}[vfChoose("n", 0, 3)]
	var cs []WitnessCondition
	for i := 0; i < n; i++ {
		cs = append(cs, ConditionCalledByEntry{})
	}
	var c WitnessCondition
	if vfBool("or") {
		o := ConditionOr(cs)
		c = &o
	} else {
		a := ConditionAnd(cs)
		c = &a
	}
	w := io.NewBufBinWriter()
	c.EncodeBinary(w.BinWriter)
	vfAssert(w.Err == nil, "encode-ok")
	r := io.NewBinReaderFromBuf(w.Bytes())
	d := DecodeBinaryCondition(r)
	if n <= 16 {
		vfAssert(r.Err == nil && d != nil && vhSameCond(d, c), "up-to-16-subconditions-decode-back")
	} else {
		vfAssert(r.Err != nil, "17-subconditions-rejected")
	}
}

//vf:tier quick
//vf:unwind 64
//vf:bound witness with invocation and verification scripts of 0..2 symbolic bytes
func VF_C17_witness_roundtrip() {
	w := Witness{InvocationScript: vfBytes("inv", vfChoose("ninv", 0, 2)), VerificationScript: vfBytes("ver", vfChoose("nver", 0, 2))}
	enc := w.Bytes()
	vfAssert(io.GetVarSize(&w) == len(enc), "size==len(encoding)")
	var d Witness
	vfAssert(d.FromBytes(enc) == nil, "decode-ok")
	vfAssert(bytes.Equal(d.InvocationScript, w.InvocationScript) && bytes.Equal(d.VerificationScript, w.VerificationScript), "content")
}
