//vf:pkg pkg/io
package io

// C17 §B: length-prefixed decoders on arbitrary bytes: never panic, never allocate beyond the
// stated maximum, and fail cleanly on truncated input.

type vhElem struct{ b byte }

func (e *vhElem) DecodeBinary(r *BinReader) { e.b = r.ReadB() }
func (e *vhElem) EncodeBinary(w *BinWriter) { w.WriteB(e.b) }

//vf:tier quick
//vf:unwind 40
//vf:maxalloc 20
//vf:bound buffers of 1..11 fully symbolic bytes (every varint form incl. 9-byte prefixes with the top bit set) into ReadArray (limit 16, value and pointer elements) and ReadVarBytes (limit 16)
func VF_C17_length_prefixed_decoders() {
	n := vfChoose("n", 1, 11)
	b := vfBytes("b", n)
	switch vfChoose("kind", 0, 2) {
	case 0:
		r := NewBinReaderFromBuf(b)
		var arr []vhElem
		r.ReadArray(&arr, 16)
		if r.Err == nil {
			vfAssert(len(arr) <= 16, "ReadArray<=max")
			vfAssert(len(arr) <= n, "ReadArray-elements-come-from-input")
		}
	case 1:
		r := NewBinReaderFromBuf(b)
		var arr []*vhElem
		r.ReadArray(&arr, 16)
		if r.Err == nil {
			vfAssert(len(arr) <= 16, "ReadArray(ptr)<=max")
		}
	case 2:
		r := NewBinReaderFromBuf(b)
		bs := r.ReadVarBytes(16)
		if r.Err == nil {
			vfAssert(len(bs) <= 16 && len(bs) < n, "ReadVarBytes<=max")
		}
	}
	vfCover("no-panic")
}

//vf:tier quick
//vf:unwind 40
//vf:bound WriteArray/ReadArray and WriteVarBytes/ReadVarBytes round trip for 0..3 elements with symbolic content; GetVarSize equals the encoded length
func VF_C17_array_roundtrip() {
	n := vfChoose("n", 0, 3)
	arr := make([]vhElem, n)
	for i := range arr {
		arr[i].b = vfU8("e")
	}
	w := NewBufBinWriter()
	w.WriteArray(arr)
	vfAssert(w.Err == nil, "write-ok")
	enc := w.Bytes()
	vfAssert(len(enc) == 1+n, "array-encoding-length")
	r := NewBinReaderFromBuf(enc)
	var got []vhElem
	r.ReadArray(&got)
	vfAssert(r.Err == nil && len(got) == n, "array-decodes")
	for i := range got {
		vfAssert(got[i].b == arr[i].b, "array-elements")
	}
	bs := vfBytes("bs", n)
	w2 := NewBufBinWriter()
	w2.WriteVarBytes(bs)
	enc2 := w2.Bytes()
	vfAssert(len(enc2) == GetVarSize(bs), "GetVarSize(bytes)==len(encoding)")
	r2 := NewBinReaderFromBuf(enc2)
	got2 := r2.ReadVarBytes()
	vfAssert(r2.Err == nil && len(got2) == n, "bytes-decode")
	for i := range got2 {
		vfAssert(got2[i] == bs[i], "bytes-content")
	}
}
