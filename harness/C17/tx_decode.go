//vf:pkg pkg/core/transaction
package transaction

import (
	"errors"

	"github.com/nspcc-dev/neo-go/pkg/crypto/keys"
	"github.com/nspcc-dev/neo-go/pkg/io"
)

// vhKeyDecodeFails stands for public-key decoding (curve point decompression is outside the
// encoding): every encoded key is treated as invalid, which only removes accepting paths.
func vhKeyDecodeFails(p *keys.PublicKey, r *io.BinReader) {
	_ = r.ReadB()
	if r.Err == nil {
		r.Err = errors.New("public keys are not decoded in this harness")
	}
}

// C17 §B: decoding arbitrary bytes as a transaction: no panic; identity (hash, size)
// must not depend on the path by which the bytes arrived.

// vhVarint emits a count in one of the four accepted prefix forms (only the first is canonical
// for small values); the value bytes are symbolic.
func vhVarint(name string) ([]byte, uint64) { return vhVarintForms(name, 3) }

func vhVarintForms(name string, maxForm int) ([]byte, uint64) {
	switch vfChoose(name+".form", 0, maxForm) {
	case 0:
		v := vfU8(name)
		vfAssume(v < 0xfd)
		return []byte{v}, uint64(v)
	case 1:
		lo, hi := vfU8(name+".lo"), vfU8(name+".hi")
		return []byte{0xfd, lo, hi}, uint64(lo) | uint64(hi)<<8
	case 2:
		lo := vfU8(name + ".lo")
		return []byte{0xfe, lo, 0, 0, 0}, uint64(lo)
	default:
		lo := vfU8(name + ".lo")
		return []byte{0xff, lo, 0, 0, 0, 0, 0, 0, 0}, uint64(lo)
	}
}

//vf:tier quick
//vf:unwind 40
//vf:hash uf+injective
//vf:redirect (*github.com/nspcc-dev/neo-go/pkg/crypto/keys.PublicKey).DecodeBinary => github.com/nspcc-dev/neo-go/pkg/core/transaction.vhKeyDecodeFails
//vf:bound a one-signer, no-attribute, 1-byte-script transaction whose fixed fields, account, scope (None/CalledByEntry/Global), script byte and witness scripts (0..1 bytes) are symbolic and whose four count prefixes each take any of the four accepted varint forms with symbolic value bytes (invocation script length: two forms; verification script length canonical)
//vf:stub sha256 is an uninterpreted function per input length, assumed injective (collision-free)
func VF_C17_tx_decode_identity() {
	b := append([]byte{}, vfBytes("fixed", 25)...)
	ns, nsv := vhVarint("nsigners")
	vfAssume(nsv == 1)
	b = append(b, ns...)
	b = append(b, vfBytes("account", 20)...)
	scope := vfU8("scope")
	vfAssume(scope == 0 || scope == 1 || scope == 0x80)
	b = append(b, scope)
	na, nav := vhVarintForms("nattrs", 1+2*vfTier())
	vfAssume(nav == 0)
	b = append(b, na...)
	sl, slv := vhVarint("scriptlen")
	vfAssume(slv == 1)
	b = append(b, sl...)
	b = append(b, vfU8("script"))
	nw, nwv := vhVarintForms("nwitnesses", 1+2*vfTier())
	vfAssume(nwv == 1)
	b = append(b, nw...)
	il, ilv := vhVarintForms("invlen", 1)
	vfAssume(ilv <= 1)
	b = append(b, il...)
	if ilv == 1 {
		b = append(b, vfU8("inv"))
	}
	vl, vlv := vhVarintForms("verlen", 0)
	vfAssume(vlv <= 1)
	b = append(b, vl...)
	if vlv == 1 {
		b = append(b, vfU8("ver"))
	}
	n := len(b)
	canonical := len(ns) == 1 && len(na) == 1 && len(sl) == 1 && len(nw) == 1 && len(il) == 1 && len(vl) == 1
	tx, err := NewTransactionFromBytes(b)
	if err != nil {
		return
	}
	vfCover("decoded")
	tx2 := &Transaction{}
	r := io.NewBinReaderFromBuf(b)
	tx2.DecodeBinary(r)
	vfAssert(r.Err == nil, "both-paths-accept")
	if r.Err != nil {
		return
	}
	vfKnown("noncanonical-varint-accepted", !canonical)
	vfAssert(tx.Hash() == tx2.Hash(), "hash-path-independent")
	vfAssert(tx.Size() == tx2.Size(), "size-path-independent")
	enc := tx2.Bytes()
	vfAssert(len(enc) == tx2.Size(), "size==len(encoding)")
	vfAssert(!canonical || len(enc) == n, "canonical-input-reencodes-to-itself")
	tx3, err3 := NewTransactionFromBytes(enc)
	vfAssert(err3 == nil, "reencoding-decodes")
	if err3 == nil {
		vfAssert(tx3.Hash() == tx2.Hash(), "reencoding-same-hash")
	}
}
