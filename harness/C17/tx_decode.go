//vf:pkg pkg/core/transaction
package transaction

import "github.com/nspcc-dev/neo-go/pkg/io"

// C17 §B: decoding arbitrary bytes as a transaction: no panic; identity (hash, size)
// must not depend on the path by which the bytes arrived.

//vf:tier quick
//vf:unwind 40
//vf:maxpaths 3000
//vf:hash uf+injective
//vf:bound buffers of exactly 53..56 symbolic bytes (minimal transaction is 53 bytes); one signer, script of 1 byte up
//vf:stub sha256 is an uninterpreted function per input length, assumed injective (collision-free)
func VF_C17_tx_decode_identity() {
	n := vfChoose("n", 53, 53+vfTier()*3)
	b := vfBytes("b", n)
	tx, err := NewTransactionFromBytes(b)
	if err != nil {
		return
	}
	vfCover("decoded")
	tx2 := &Transaction{}
	r := io.NewBinReaderFromBuf(b)
	tx2.DecodeBinary(r)
	vfAssert(r.Err == nil, "both-paths-accept")
	if r.Err != nil {
		return
	}
	vfKnown("noncanonical-varint", len(tx.Bytes()) != n)
	vfAssert(tx.Hash() == tx2.Hash(), "hash-path-independent")
	vfAssert(tx.Size() == tx2.Size(), "size-path-independent")
	enc := tx2.Bytes()
	vfAssert(len(enc) == tx2.Size(), "size==len(encoding)")
	tx3, err3 := NewTransactionFromBytes(enc)
	vfAssert(err3 == nil, "reencoding-decodes")
	if err3 == nil {
		vfAssert(tx3.Hash() == tx2.Hash(), "reencoding-same-hash")
	}
}
