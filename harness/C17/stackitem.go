//vf:pkg pkg/vm/stackitem
package stackitem

import (
	"math/big"
)

// C17: stack item serialization: round trip, and agreement of the element limit between
// Serialize and Deserialize when the same compound item is referenced many times.

func vhSameItem(a, b Item, depth int) bool {
	if a.Type() != b.Type() {
		return false
	}
	switch x := a.(type) {
	case *BigInteger:
		return x.Big().Cmp(b.(*BigInteger).Big()) == 0
	case Bool:
		return x == b.(Bool)
	case *ByteArray:
		return string(*x) == string(*b.(*ByteArray))
	case *Buffer:
		return string(*x) == string(*b.(*Buffer))
	case Null:
		return true
	case *Array:
		y := b.(*Array)
		if len(x.value) != len(y.value) {
			return false
		}
		for i := range x.value {
			if !vhSameItem(x.value[i], y.value[i], depth-1) {
				return false
			}
		}
		return true
	case *Struct:
		y := b.(*Struct)
		if len(x.value) != len(y.value) {
			return false
		}
		for i := range x.value {
			if !vhSameItem(x.value[i], y.value[i], depth-1) {
				return false
			}
		}
		return true
	case *Map:
		y := b.(*Map)
		if len(x.value) != len(y.value) {
			return false
		}
		for i := range x.value {
			if !vhSameItem(x.value[i].Key, y.value[i].Key, depth-1) || !vhSameItem(x.value[i].Value, y.value[i].Value, depth-1) {
				return false
			}
		}
		return true
	}
	return false
}

func vhScalar(tag string) Item {
	switch vfChoose(tag+".kind", 0, 4) {
	case 0:
		return NewBigInteger(big.NewInt(vfI64(tag + ".int")))
	case 1:
		return NewBool(vfBool(tag + ".bool"))
	case 2:
		return NewByteArray(vfBytes(tag+".bytes", vfChoose(tag+".len", 0, 2)))
	case 3:
		return NewBuffer(vfBytes(tag+".buf", vfChoose(tag+".len", 0, 2)))
	default:
		return Null{}
	}
}

//vf:tier quick
//vf:unwind 80
//vf:bigint theory
//vf:bound scalar items (any int64, bool, byte strings and buffers of 0..2 symbolic bytes, Null) alone, inside an array/struct of 1..2 elements, and as a map value under an integer key
func VF_C17_stackitem_roundtrip() {
	var it Item
	switch vfChoose("shape", 0, 3) {
	case 0:
		it = vhScalar("a")
	case 1:
		it = NewArray([]Item{vhScalar("a"), vhScalar("b")})
	case 2:
		it = NewStruct([]Item{vhScalar("a")})
	case 3:
		m := NewMap()
		m.Add(NewBigInteger(big.NewInt(vfI64("key"))), vhScalar("a"))
		it = m
	}
	data, err := Serialize(it)
	vfAssert(err == nil, "serialize-ok")
	got, err := Deserialize(data)
	vfAssert(err == nil, "deserialize-ok")
	if err == nil {
		vfAssert(vhSameItem(it, got, 3), "roundtrip-equal")
		again, err2 := Serialize(got)
		vfAssert(err2 == nil && string(again) == string(data), "reserialization-identical")
	}
}

//vf:tier quick
//vf:unwind 5000
//vf:bigint theory
//vf:maxsteps 30000000
//vf:bound an outer array holding n references to one shared compound item (array of 2, struct of 2, map of 1 pair; 3 elements each) for n at the limit boundary (682: 2047 elements, 683: 2050); whatever Serialize accepts must deserialize, and more than 2048 elements must be refused
func VF_C17_stackitem_shared_reference_limit() {
	x := NewBigInteger(big.NewInt(vfI64("x")))
	var shared Item
	switch vfChoose("shared", 0, 2) {
	case 0:
		shared = NewArray([]Item{x, Null{}})
	case 1:
		shared = NewStruct([]Item{x, Null{}})
	case 2:
		m := NewMap()
		m.Add(NewBool(true), x)
		shared = m
	}
	n := 682 + vfChoose("over", 0, 1)
	els := make([]Item, n)
	for i := range els {
		els[i] = shared
	}
	outer := NewArray(els)
	data, err := Serialize(outer)
	total := 1 + 3*n
	if total > MaxSerialized {
		vfAssert(err != nil, "more-than-2048-elements-refused")
		return
	}
	vfAssert(err == nil, "within-limit-accepted")
	if err != nil {
		return
	}
	got, derr := Deserialize(data)
	vfAssert(derr == nil, "accepted-serialization-deserializes")
	if derr == nil {
		vfAssert(len(got.(*Array).value) == n, "same-element-count")
	}
}

//vf:tier quick
//vf:bigint theory
//vf:unwind 120
//vf:bound a reusable SerializationContext used for 2..3 consecutive Serialize calls over items that share a compound (an array with 1..2 symbolic byte elements, alone / nested in another array / nested at another depth, optionally appended to between calls): every call's output equals the output of a fresh context and decodes back to the item
func VF_C17_reused_serialization_context() {
	inner := NewArray([]Item{NewByteArray(vfBytes("e0", 1))})
	if vfBool("two-elements") {
		inner.Append(NewByteArray(vfBytes("e1", 1)))
	}
	shapes := func(k int) Item {
		switch k {
		case 0:
			return inner
		case 1:
			return NewArray([]Item{NewBool(true), inner})
		case 2:
			return NewArray([]Item{inner, NewArray([]Item{inner})})
		}
		return NewStruct([]Item{NewBigInteger(big.NewInt(5)), inner})
	}
	sc := NewSerializationContext()
	n := 2 + vfChoose("third-call", 0, 1)
	for i := 0; i < n; i++ {
		it := shapes(vfChoose("shape", 0, 3))
		if i > 0 && vfBool("mutate-between-calls") {
			inner.Append(NewByteArray(vfBytes("added", 1)))
		}
		got, err := sc.Serialize(it, false)
		want, werr := Serialize(it)
		vfAssert((err == nil) == (werr == nil), "reused-context:error-as-fresh-context")
		if err != nil || werr != nil {
			continue
		}
		vfAssert(string(got) == string(want), "reused-context:bytes-as-fresh-context")
		back, derr := Deserialize(got)
		vfAssert(derr == nil && vhSameItem(back, it, 4), "reused-context:decodes-back")
	}
}
