//vf:pkg pkg/smartcontract/nef
package nef

import (
	"bytes"

	"github.com/nspcc-dev/neo-go/pkg/smartcontract/callflag"
	"github.com/nspcc-dev/neo-go/pkg/util"
)

// C17: NEF file codec: round trip, checksum enforcement.

func vhText(name string, lo, hi int) string {
	b := vfBytes(name, vfChoose(name+".len", lo, hi))
	for _, c := range b {
		vfAssume(c >= 0x20 && c < 0x7f)
	}
	return string(b)
}

//vf:tier quick
//vf:unwind 200
//vf:hash uf
//vf:bound NEF files with a compiler name of 1..2 and a source of 0..2 printable ASCII bytes, 0..1 method tokens (symbolic hash byte, method name of 1..2 bytes not starting with an underscore, any parameter count, return flag, any valid call flags), script of 1..2 symbolic bytes, checksum as computed; decoding of the encoding, and of the encoding with one symbolic byte changed in the checksum
func VF_C17_nef_roundtrip() {
	f := &File{Header: Header{Magic: Magic, Compiler: vhText("compiler", 1, 2)}, Source: vhText("source", 0, 2), Tokens: []MethodToken{}}
	if vfBool("token") {
		m := vhText("method", 1, 2)
		vfAssume(m[0] != '_')
		f.Tokens = append(f.Tokens, MethodToken{Hash: util.Uint160{vfU8("token.hash")}, Method: m, ParamCount: vfU16("token.params"),
			HasReturn: vfBool("token.return"), CallFlag: callflag.CallFlag(vfU8("token.flags")) & callflag.All})
	}
	f.Script = vfBytes("script", vfChoose("script.len", 1, 2))
	f.Checksum = f.CalculateChecksum()
	enc, err := f.Bytes()
	vfAssert(err == nil, "encode-ok")
	back, err := FileFromBytes(enc)
	vfAssert(err == nil, "decode-ok")
	if err != nil {
		return
	}
	same := back.Magic == f.Magic && back.Compiler == f.Compiler && back.Source == f.Source && bytes.Equal(back.Script, f.Script) &&
		back.Checksum == f.Checksum && len(back.Tokens) == len(f.Tokens)
	if same && len(f.Tokens) == 1 {
		same = back.Tokens[0] == f.Tokens[0]
	}
	vfAssert(same, "decoded==original")
	// a file whose checksum does not match its content is refused
	bad := bytes.Clone(enc)
	flip := vfU8("checksum.flip")
	vfAssume(flip != 0)
	bad[len(bad)-1-vfChoose("checksum.byte", 0, 3)] ^= flip
	_, err = FileFromBytes(bad)
	vfAssert(err != nil, "wrong-checksum-refused")
}
