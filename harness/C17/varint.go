//vf:pkg pkg/io
package io

// C17 / C18: variable-length integer writer, size calculator and reader.

//vf:tier quick
//vf:unwind 10
//vf:bound every uint64 value v; size/written equality asserted for v < 2^32 (getVarIntSize takes an int and documents 1/3/5 bytes only)
//vf:encodes PutVarUint getVarIntSize BinReader.ReadVarUint BinWriter.WriteVarUint
func VF_C17_varint_roundtrip() {
	v := vfU64("v")
	var buf [9]byte
	n := PutVarUint(buf[:], v)
	vfAssert(n >= 1 && n <= 9, "written-len-range")
	r := NewBinReaderFromBuf(buf[:n])
	got := r.ReadVarUint()
	vfAssert(r.Err == nil, "read-ok")
	vfAssert(got == v, "roundtrip")
	vfAssert(r.Len() == 0, "consumed-all")
	if v < 1<<32 {
		vfKnown("varint-size-boundary", v == 0xFFFF || v == 0xFFFFFFFF)
		vfAssert(n == getVarIntSize(int(v)), "size==written")
	}
	// writer object agrees with PutVarUint
	bw := NewBufBinWriter()
	bw.WriteVarUint(v)
	vfAssert(bw.Err == nil && bw.Len() == n, "writer-len")
	out := bw.Bytes()
	for i := 0; i < n && i < len(out); i++ {
		vfAssert(out[i] == buf[i], "writer-bytes")
	}
}
