//vf:pkg pkg/core/block
package block

import (
	"bytes"

	"github.com/nspcc-dev/neo-go/pkg/core/transaction"
	"github.com/nspcc-dev/neo-go/pkg/io"
	"github.com/nspcc-dev/neo-go/pkg/util"
)

// C17: header and block binary encoding: round trip, predicted size, trimmed form.

func vhHdr(sr bool) *Header {
	h := &Header{
		Version:          vfU32("version"),
		PrevHash:         util.Uint256{vfU8("prev0"), vfU8("prev1")},
		MerkleRoot:       util.Uint256{vfU8("merkle0")},
		Timestamp:        vfU64("timestamp"),
		Nonce:            vfU64("nonce"),
		Index:            vfU32("index"),
		PrimaryIndex:     vfU8("primary"),
		NextConsensus:    util.Uint160{vfU8("next0")},
		StateRootEnabled: sr,
		Script: transaction.Witness{
			InvocationScript:   vfBytes("inv", vfChoose("inv.len", 0, 2)),
			VerificationScript: vfBytes("ver", vfChoose("ver.len", 0, 2)),
		},
	}
	if sr {
		h.PrevStateRoot = util.Uint256{vfU8("sroot0"), 0, vfU8("sroot2")}
	}
	return h
}

func vhSameHdr(a, b *Header) bool {
	return a.Version == b.Version && a.PrevHash == b.PrevHash && a.MerkleRoot == b.MerkleRoot && a.Timestamp == b.Timestamp &&
		a.Nonce == b.Nonce && a.Index == b.Index && a.PrimaryIndex == b.PrimaryIndex && a.NextConsensus == b.NextConsensus &&
		a.StateRootEnabled == b.StateRootEnabled && a.PrevStateRoot == b.PrevStateRoot &&
		bytes.Equal(a.Script.InvocationScript, b.Script.InvocationScript) && bytes.Equal(a.Script.VerificationScript, b.Script.VerificationScript)
}

//vf:tier quick
//vf:unwind 120
//vf:hash uf
//vf:bound headers with symbolic scalar fields, hashes with 1..3 symbolic bytes, witness scripts of 0..2 symbolic bytes, state root in header or not; blocks of 0..2 transactions (symbolic nonce, valid-until, 1-byte script); full and trimmed encodings
func VF_C17_header_block_roundtrip() {
	sr := vfBool("state-root-in-header")
	h := vhHdr(sr)
	w := io.NewBufBinWriter()
	h.EncodeBinary(w.BinWriter)
	vfAssert(w.Err == nil, "header:encode-ok")
	enc := w.Bytes()
	var back Header
	back.StateRootEnabled = sr
	r := io.NewBinReaderFromBuf(enc)
	back.DecodeBinary(r)
	vfAssert(r.Err == nil && r.Len() == 0, "header:decode-consumes-everything")
	vfAssert(vhSameHdr(h, &back), "header:decoded==original")
	vfAssert(back.Hash() == h.Hash(), "header:hash-preserved")

	b := &Block{Header: *h}
	ntx := vfChoose("ntx", 0, 2)
	for i := 0; i < ntx; i++ {
		b.Transactions = append(b.Transactions, &transaction.Transaction{Nonce: vfU32("tx.nonce"), ValidUntilBlock: vfU32("tx.vub"), Script: []byte{0x40},
			Signers: []transaction.Signer{{Account: util.Uint160{byte(i + 1)}}}, Scripts: []transaction.Witness{{}}})
	}
	bw := io.NewBufBinWriter()
	b.EncodeBinary(bw.BinWriter)
	vfAssert(bw.Err == nil, "block:encode-ok")
	benc := bw.Bytes()
	vfAssert(len(benc) == b.GetExpectedBlockSize(), "block:expected-size==encoded-length")
	nb := New(sr)
	br := io.NewBinReaderFromBuf(benc)
	nb.DecodeBinary(br)
	vfAssert(br.Err == nil && br.Len() == 0, "block:decode-consumes-everything")
	vfAssert(vhSameHdr(&nb.Header, h) && len(nb.Transactions) == ntx, "block:decoded==original")
	for i := 0; i < ntx && i < len(nb.Transactions); i++ {
		vfAssert(nb.Transactions[i].Nonce == b.Transactions[i].Nonce && nb.Transactions[i].ValidUntilBlock == b.Transactions[i].ValidUntilBlock &&
			nb.Transactions[i].Hash() == b.Transactions[i].Hash(), "block:transactions-preserved")
	}
	// trimmed (database) form keeps the header and the transaction hashes
	tw := io.NewBufBinWriter()
	b.EncodeTrimmed(tw.BinWriter)
	tb, err := NewTrimmedFromReader(sr, io.NewBinReaderFromBuf(tw.Bytes()))
	vfAssert(err == nil && vhSameHdr(&tb.Header, h) && len(tb.Transactions) == ntx, "trimmed:decoded==original")
	for i := 0; i < ntx && err == nil && i < len(tb.Transactions); i++ {
		vfAssert(tb.Transactions[i].Hash() == b.Transactions[i].Hash(), "trimmed:hashes-preserved")
	}
}
