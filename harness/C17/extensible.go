//vf:pkg pkg/network/payload
package payload

import (
	"bytes"

	"github.com/nspcc-dev/neo-go/pkg/core/transaction"
	"github.com/nspcc-dev/neo-go/pkg/io"
	"github.com/nspcc-dev/neo-go/pkg/util"
)

// C17: extensible (consensus/state service) payload codec: round trip, size, hash
// preservation, decoding of arbitrary bytes without panic.

//vf:tier quick
//vf:unwind 120
//vf:hash uf
//vf:bound extensible payloads with a category of 0..2 symbolic bytes, symbolic validity heights, sender byte, data and witness scripts of 0..2 symbolic bytes; and decoding of 36 arbitrary bytes
func VF_C17_extensible_roundtrip() {
	if vfBool("arbitrary-bytes") {
		var e Extensible
		r := io.NewBinReaderFromBuf(vfBytes("raw", 36))
		e.DecodeBinary(r) // must not panic; an error or a value are both fine
		if r.Err == nil {
			w := io.NewBufBinWriter()
			e.EncodeBinary(w.BinWriter)
			var e2 Extensible
			r2 := io.NewBinReaderFromBuf(w.Bytes())
			e2.DecodeBinary(r2)
			vfAssert(r2.Err == nil && e2.Category == e.Category && bytes.Equal(e2.Data, e.Data) && e2.Hash() == e.Hash(), "accepted-bytes:re-encoding-decodes-to-the-same-payload")
		}
		return
	}
	e := &Extensible{Category: string(vfBytes("category", vfChoose("category.len", 0, 2))), ValidBlockStart: vfU32("start"), ValidBlockEnd: vfU32("end"),
		Sender: util.Uint160{vfU8("sender")}, Data: vfBytes("data", vfChoose("data.len", 0, 2)),
		Witness: transaction.Witness{InvocationScript: vfBytes("inv", vfChoose("inv.len", 0, 2)), VerificationScript: vfBytes("ver", vfChoose("ver.len", 0, 1))}}
	w := io.NewBufBinWriter()
	e.EncodeBinary(w.BinWriter)
	vfAssert(w.Err == nil, "encode-ok")
	enc := w.Bytes()
	vfAssert(len(enc) == io.GetVarSize(e), "GetVarSize==encoded-length")
	var back Extensible
	r := io.NewBinReaderFromBuf(enc)
	back.DecodeBinary(r)
	vfAssert(r.Err == nil && r.Len() == 0, "decode-consumes-everything")
	vfAssert(back.Category == e.Category && back.ValidBlockStart == e.ValidBlockStart && back.ValidBlockEnd == e.ValidBlockEnd && back.Sender == e.Sender &&
		bytes.Equal(back.Data, e.Data) && bytes.Equal(back.Witness.InvocationScript, e.Witness.InvocationScript) &&
		bytes.Equal(back.Witness.VerificationScript, e.Witness.VerificationScript), "decoded==original")
	vfAssert(back.Hash() == e.Hash(), "hash-preserved")
}
