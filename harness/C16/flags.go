//vf:pkg pkg/core/interop/contract
package contract

import (
	"errors"

	"github.com/nspcc-dev/neo-go/pkg/config"
	"github.com/nspcc-dev/neo-go/pkg/core/block"
	"github.com/nspcc-dev/neo-go/pkg/core/dao"
	"github.com/nspcc-dev/neo-go/pkg/core/interop"
	"github.com/nspcc-dev/neo-go/pkg/core/state"
	"github.com/nspcc-dev/neo-go/pkg/core/storage"
	"github.com/nspcc-dev/neo-go/pkg/smartcontract"
	"github.com/nspcc-dev/neo-go/pkg/smartcontract/callflag"
	"github.com/nspcc-dev/neo-go/pkg/smartcontract/manifest"
	"github.com/nspcc-dev/neo-go/pkg/smartcontract/nef"
	"github.com/nspcc-dev/neo-go/pkg/smartcontract/trigger"
	"github.com/nspcc-dev/neo-go/pkg/util"
	"github.com/nspcc-dev/neo-go/pkg/vm"
	"github.com/nspcc-dev/neo-go/pkg/vm/opcode"
)

// C16 §3: flags only shrink along a call chain; safe methods drop write/notify; the method
// token gate needs both ReadStates and AllowCall; manifest permissions gate non-safe calls.

type vhLedger struct{ hf bool }

func (vhLedger) BlockHeight() uint32                         { return 0 }
func (vhLedger) CurrentBlockHash() util.Uint256              { return util.Uint256{} }
func (vhLedger) GetBlock(util.Uint256) (*block.Block, error) { return nil, errors.New("no") }
func (l vhLedger) GetConfig() config.Blockchain {
	c := config.Blockchain{}
	if l.hf {
		c.Hardforks = map[string]uint32{config.HFDomovoi.String(): 0}
	}
	return c
}
func (vhLedger) GetHeaderHash(uint32) util.Uint256 { return util.Uint256{} }
func (vhLedger) NativeManagementID() int32         { return -1 }

var vhCalleeHash = util.Uint160{0xca, 0x11}
var vhCallerHash = util.Uint160{0xca, 0x77}

//vf:tier quick
//vf:unwind 32
//vf:bound caller context with any of the 16 flag sets, deployed (NEF+manifest) with a wildcard / matching / non-matching hash permission; callee method safe or not, token flags any 8-bit value; via LoadToken (CALLT) and via callInternal as System.Contract.Call uses it
func VF_C16_call_flags_shrink_and_gates() {
	cf := callflag.CallFlag(vfU8("caller.flags")) & callflag.All
	tf := callflag.CallFlag(vfU8("token.flags")) & callflag.All
	safe := vfBool("callee.safe")
	hasRet := vfBool("has.return")
	viaToken := vfBool("via.token")
	hf := vfBool("domovoi")
	perm := vfChoose("perm", 0, 2) // 0 wildcard, 1 hash of callee, 2 hash of someone else
	ret := smartcontract.VoidType
	if hasRet {
		ret = smartcontract.IntegerType
	}
	callee := &state.Contract{}
	callee.Hash = vhCalleeHash
	callee.NEF = nef.File{Script: []byte{byte(opcode.RET)}}
	callee.Manifest = manifest.Manifest{Name: "callee", ABI: manifest.ABI{Methods: []manifest.Method{{Name: "m", Offset: 0, ReturnType: ret, Safe: safe}}}}
	callerM := &manifest.Manifest{Name: "caller"}
	switch perm {
	case 0:
		callerM.Permissions = []manifest.Permission{{Contract: manifest.PermissionDesc{Type: manifest.PermissionWildcard}}}
	case 1:
		callerM.Permissions = []manifest.Permission{{Contract: manifest.PermissionDesc{Type: manifest.PermissionHash, Value: vhCalleeHash}}}
	case 2:
		callerM.Permissions = []manifest.Permission{{Contract: manifest.PermissionDesc{Type: manifest.PermissionHash, Value: util.Uint160{9}}}}
	}
	callerNEF := &nef.File{Script: []byte{byte(opcode.RET)}, Tokens: []nef.MethodToken{{Hash: vhCalleeHash, Method: "m", ParamCount: 0, HasReturn: hasRet, CallFlag: tf}}}
	getContract := func(_ *dao.Simple, h util.Uint160) (*state.Contract, error) {
		switch h {
		case vhCalleeHash:
			return callee, nil
		case vhCallerHash:
			c := &state.Contract{}
			c.Hash = vhCallerHash
			c.NEF = *callerNEF
			c.Manifest = *callerM
			return c, nil
		}
		return nil, errors.New("not found")
	}
	d := dao.NewSimple(storage.NewMemoryStore(), false)
	ic := interop.NewContext(trigger.Application, vhLedger{hf: hf}, d, 0, 0, getContract, nil, nil, &block.Block{}, nil, nil)
	v := vm.New()
	ic.VM = v
	v.LoadNEFMethod(callerNEF, callerM, util.Uint160{}, vhCallerHash, cf, false, 0, -1, nil, nil, false)
	depth := len(v.Istack())
	var err error
	if viaToken {
		err = LoadToken(ic, 0)
	} else {
		err = callInternal(ic, callee, &callee.Manifest.ABI.Methods[0], tf, hasRet, nil, true)
	}
	allowed := perm != 2
	wantErr := (viaToken && !cf.Has(callflag.ReadStates|callflag.AllowCall)) || (!safe && !allowed)
	vfAssert((err != nil) == wantErr, "call-refused<=>gate-or-permission")
	if err != nil {
		vfAssert(len(v.Istack()) == depth, "refused-call-loads-nothing")
		return
	}
	vfAssert(len(v.Istack()) == depth+1, "callee-context-loaded")
	nf := v.Context().GetCallFlags()
	want := cf & tf
	if safe {
		want &^= callflag.WriteStates | callflag.AllowNotify
	}
	vfAssert(nf == want, "callee-flags==caller&requested(&^write,notify if safe)")
	vfAssert(nf&^cf == 0, "flags-only-shrink")
}
