//vf:pkg pkg/core
package core

import (
	"errors"
	"strings"

	"github.com/nspcc-dev/neo-go/pkg/config"
	"github.com/nspcc-dev/neo-go/pkg/core/block"
	"github.com/nspcc-dev/neo-go/pkg/core/dao"
	"github.com/nspcc-dev/neo-go/pkg/core/interop"
	"github.com/nspcc-dev/neo-go/pkg/core/interop/contract"
	"github.com/nspcc-dev/neo-go/pkg/core/interop/interopnames"
	"github.com/nspcc-dev/neo-go/pkg/core/storage"
	"github.com/nspcc-dev/neo-go/pkg/core/transaction"
	"github.com/nspcc-dev/neo-go/pkg/smartcontract/callflag"
	"github.com/nspcc-dev/neo-go/pkg/smartcontract/trigger"
	"github.com/nspcc-dev/neo-go/pkg/util"
	"go.uber.org/zap"
)

// C16 §1: the syscall gate. interop.Context.SyscallHandler over the real systemInterops table
// (IDs, required flags, activation hard forks; only the handler bodies are replaced by a
// recorder): a handler body runs only when the current context's call flags include the
// flags its kind of effect needs, whatever syscall id is requested.

type vhGateLedger struct{}

func (vhGateLedger) BlockHeight() uint32                         { return 10 }
func (vhGateLedger) CurrentBlockHash() util.Uint256              { return util.Uint256{} }
func (vhGateLedger) GetBlock(util.Uint256) (*block.Block, error) { return nil, errors.New("no") }
func (vhGateLedger) GetConfig() config.Blockchain                { return config.Blockchain{} }
func (vhGateLedger) GetHeaderHash(uint32) util.Uint256           { return util.Uint256{} }
func (vhGateLedger) NativeManagementID() int32                   { return -1 }

// vhNeeds: the flags an interop needs by the kind of effect its name denotes (written from the
// property, not read from the table).
func vhNeeds(name string) callflag.CallFlag {
	switch {
	case name == interopnames.SystemStoragePut, name == interopnames.SystemStorageDelete,
		name == interopnames.SystemStorageLocalPut, name == interopnames.SystemStorageLocalDelete:
		return callflag.WriteStates
	case strings.HasPrefix(name, "System.Storage."):
		return callflag.ReadStates
	case name == interopnames.SystemRuntimeNotify, name == interopnames.SystemRuntimeLog:
		return callflag.AllowNotify
	case name == interopnames.SystemContractCall:
		return callflag.ReadStates | callflag.AllowCall
	case name == interopnames.SystemRuntimeLoadScript:
		return callflag.AllowCall
	case name == interopnames.SystemContractNativeOnPersist, name == interopnames.SystemContractNativePostPersist:
		return callflag.States
	case name == interopnames.SystemRuntimeGetTime:
		return callflag.ReadStates
	}
	return callflag.NoneFlag
}

//vf:tier quick
//vf:unwind 200
//vf:bound any 32-bit syscall id (the 49 registered ids and every other value), any of the 16 call-flag sets of the current context, Faun hard fork enabled or not; handler bodies replaced by a recorder
func VF_C16_syscall_gate() {
	var ran string
	fs := make([]interop.Function, len(systemInterops))
	copy(fs, systemInterops)
	for i := range fs {
		name := fs[i].Name
		fs[i].Func = func(*interop.Context) error { ran = name; return nil }
	}
	d := dao.NewSimple(storage.NewMemoryStore(), false)
	ic := interop.NewContext(trigger.Application, vhGateLedger{}, d, 30, 1000, nil, nil, contract.LoadToken, &block.Block{Header: block.Header{Index: 11}}, &transaction.Transaction{}, zap.NewNop())
	ic.Functions = fs
	if vfBool("faun-enabled") {
		ic.Hardforks = map[string]uint32{config.HFFaun.String(): 0}
	}
	flags := callflag.CallFlag(vfU8("context-flags")) & callflag.All
	v := ic.SpawnVM()
	v.LoadScriptWithFlags([]byte{0x40}, flags)
	id := vfU32("syscall-id")
	err := ic.SyscallHandler(v, id)
	if ran != "" {
		vfAssert(err == nil, "handler-ran=>no-gate-error")
		vfAssert(interopnames.ToID([]byte(ran)) == id, "handler-of-the-requested-id")
		vfAssert(flags.Has(vhNeeds(ran)), "handler-ran=>context-has-the-flags-its-effect-needs")
		vfCover("some-handler-ran")
	} else {
		vfAssert(err != nil, "no-handler=>error")
	}
	// the gate is exact with respect to the table: registered, active and permitted <=> runs
	for i := range systemInterops {
		f := &systemInterops[i]
		if f.ID == id {
			active := f.ActiveFrom == config.HFDefault || ic.IsHardforkEnabled(f.ActiveFrom)
			vfAssert((ran == f.Name) == (active && flags.Has(f.RequiredFlags)), "runs<=>registered-active-and-permitted")
		}
	}
}
