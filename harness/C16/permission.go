//vf:pkg pkg/smartcontract/manifest
package manifest

import (
	"github.com/nspcc-dev/neo-go/pkg/vm/stackitem"
	"github.com/nspcc-dev/neo-go/pkg/crypto/keys"
	"github.com/nspcc-dev/neo-go/pkg/util"
)

// C16 §4: manifest permissions. A permission allows a call iff it matches the callee
// (wildcard, hash, or membership in a group) AND the method (wildcard or listed).

func vfHash160(name string) (h util.Uint160) {
	copy(h[:], vfBytes(name, 20))
	return
}

func vfKey(name string) *keys.PublicKey {
	return &keys.PublicKey{X: vfBig(name+".x", 257), Y: vfBig(name+".y", 257)}
}

func vhName(name string) string {
	n := vfChoose(name+".len", 1, 2)
	return string(vfBytes(name, n))
}

func vfSameKey(a, b *keys.PublicKey) bool {
	return a.X.Cmp(b.X) == 0 && a.Y.Cmp(b.Y) == 0
}

type vfPermSpec struct {
	kind    int
	hash    util.Uint160
	key     *keys.PublicKey
	wildM   bool
	methods []string
}

func vfMakePerm(tag string) (Permission, vfPermSpec) {
	var sp vfPermSpec
	sp.kind = vfChoose(tag+".kind", 0, 2)
	var p Permission
	switch sp.kind {
	case 0:
		p.Contract = PermissionDesc{Type: PermissionWildcard}
	case 1:
		sp.hash = vfHash160(tag + ".hash")
		p.Contract = PermissionDesc{Type: PermissionHash, Value: sp.hash}
	case 2:
		sp.key = vfKey(tag + ".group")
		p.Contract = PermissionDesc{Type: PermissionGroup, Value: sp.key}
	}
	nm := vfChoose(tag+".nmethods", -1, 2)
	if nm < 0 {
		sp.wildM = true // Methods.Value == nil
	} else {
		p.Methods.Value = []string{}
		for i := 0; i < nm; i++ {
			m := vhName(tag + ".m")
			p.Methods.Value = append(p.Methods.Value, m)
			sp.methods = append(sp.methods, m)
		}
	}
	return p, sp
}

func (sp *vfPermSpec) allows(callee util.Uint160, groups []*keys.PublicKey, method string) bool {
	target := false
	switch sp.kind {
	case 0:
		target = true
	case 1:
		target = sp.hash == callee
	case 2:
		for _, g := range groups {
			if vfSameKey(sp.key, g) {
				target = true
			}
		}
	}
	if !target {
		return false
	}
	if sp.wildM {
		return true
	}
	for _, m := range sp.methods {
		if m == method {
			return true
		}
	}
	return false
}

func vfCallee() (util.Uint160, *Manifest, []*keys.PublicKey) {
	h := vfHash160("callee")
	m := &Manifest{Name: "callee"}
	ng := vfChoose("ngroups", 0, 2)
	var gs []*keys.PublicKey
	for i := 0; i < ng; i++ {
		k := vfKey("calleegroup")
		gs = append(gs, k)
		m.Groups = append(m.Groups, Group{PublicKey: k})
	}
	return h, m, gs
}

//vf:tier quick
//vf:bigint theory
//vf:unwind 16
//vf:bound one permission of every kind; method list wildcard or 0..2 names of 1..2 symbolic bytes; callee with 0..2 groups; 20-byte hashes and key coordinates fully symbolic
//vf:stub public keys are arbitrary (X,Y) integer pairs; curve membership is irrelevant to matching
func VF_C16_permission_is_allowed() {
	p, sp := vfMakePerm("p")
	h, m, gs := vfCallee()
	method := vhName("method")
	got := p.IsAllowed(h, m, method)
	want := sp.allows(h, gs, method)
	vfKnown("group-permission-ignores-methods", sp.kind == 2 && !sp.wildM)
	vfAssert(got == want, "allowed<=>callee-and-method-match")
}

//vf:tier quick
//vf:bigint theory
//vf:unwind 16
//vf:bound manifest with 1..2 permissions (each as above); CanCall == OR over permissions
func VF_C16_manifest_can_call() {
	np := vfChoose("nperms", 1, 2)
	caller := &Manifest{Name: "caller"}
	var sps []vfPermSpec
	known := false
	for i := 0; i < np; i++ {
		p, sp := vfMakePerm("p")
		caller.Permissions = append(caller.Permissions, p)
		sps = append(sps, sp)
		if sp.kind == 2 && !sp.wildM {
			known = true
		}
	}
	h, m, gs := vfCallee()
	method := vhName("method")
	got := caller.CanCall(h, m, method)
	want := false
	for i := range sps {
		if sps[i].allows(h, gs, method) {
			want = true
		}
	}
	vfKnown("group-permission-ignores-methods", known)
	vfAssert(got == want, "cancall<=>some-permission-matches")
}

//vf:tier quick
//vf:bigint theory
//vf:unwind 32
//vf:bound a wildcard or hash permission (method list wildcard or 0..2 ASCII names) converted to its stack-item form (as stored by ContractManagement), serialised, deserialised and converted back: matching is unchanged for any callee and method
func VF_C16_permission_survives_storage_form() {
	p, sp := vfMakePerm("p")
	vfAssume(sp.kind != 2) // group keys need curve point decoding on the way back
	for _, name := range p.Methods.Value { // method names are UTF-8 strings; ASCII here
		for i := 0; i < len(name); i++ {
			vfAssume(name[i] < 0x80)
		}
	}
	data, err := stackitem.Serialize(p.ToStackItem())
	vfAssert(err == nil, "serialize-ok")
	it, err := stackitem.Deserialize(data)
	vfAssert(err == nil, "deserialize-ok")
	var back Permission
	vfAssert(back.FromStackItem(it) == nil, "from-stack-item-ok")
	h, m, gs := vfCallee()
	method := vhName("method")
	vfAssert(back.IsAllowed(h, m, method) == sp.allows(h, gs, method), "reloaded-permission-allows<=>original-rule")
}
