//vf:pkg pkg/core/mpt
package mpt

import (
	"bytes"

	"github.com/nspcc-dev/neo-go/pkg/core/storage"
)

// C03: the trie named by a state root holds exactly contract storage. Inductive step: a trie
// equal to storage, updated with a block's change set (as the node does: MapToMPTBatch +
// PutBatch), equals storage after the block. Proofs are complete and sound.

type vhStor struct {
	keys [][]byte
	vals [][]byte
}

func (c *vhStor) set(k, v []byte) {
	for i := range c.keys {
		if bytes.Equal(c.keys[i], k) {
			c.vals[i] = v
			return
		}
	}
	c.keys = append(c.keys, k)
	c.vals = append(c.vals, v)
}
func (c *vhStor) del(k []byte) {
	for i := range c.keys {
		if bytes.Equal(c.keys[i], k) {
			c.keys = append(c.keys[:i:i], c.keys[i+1:]...)
			c.vals = append(c.vals[:i:i], c.vals[i+1:]...)
			return
		}
	}
}
func (c *vhStor) get(k []byte) ([]byte, bool) {
	for i := range c.keys {
		if bytes.Equal(c.keys[i], k) {
			return c.vals[i], true
		}
	}
	return nil, false
}

func vhSKey(name string) []byte {
	lo, hi := 1, 2
	if vfTier() == 0 && name == "pre.key" {
		hi = 1
	}
	k := vfBytes(name, vfChoose(name+".len", lo, hi))
	for _, b := range k {
		vfAssume(b&0xEE == 0) // nibbles in {0,1}
	}
	return k
}

func vhSVal(name string) []byte {
	return append([]byte{}, vfBytes(name, vfChoose(name+".len", 0, 1))...)
}

//vf:tier quick
//vf:unwind 64
//vf:hash uf+injective
//vf:bound storage of 1..2 items (keys of 1 byte in quick, 1..2 in thorough, over nibbles {0,1}; changed keys 1..2 bytes; values of 0..1 bytes) flushed into a trie; a change set of 1 (quick) / 1..2 (thorough) distinct keys, each put (possibly empty value) or deleted, applied as a batch; then every involved key (thorough: and one more symbolic key) read back, and the root compared with a trie built from the new storage
func VF_C03_block_changes_reach_the_trie() {
	st := storage.NewMemCachedStore(storage.NewMemoryStore())
	t := NewTrie(nil, ModeAll, st)
	stor := &vhStor{}
	var probes [][]byte
	for i, n := 0, vfChoose("npre", 1, 2); i < n; i++ {
		k, v := vhSKey("pre.key"), vhSVal("pre.val")
		vfAssert(t.Put(k, v) == nil, "pre-put-ok")
		stor.set(k, v)
		probes = append(probes, k)
	}
	if vfBool("flush") {
		t.Flush(0)
		t.Collapse(0)
	}
	changes := map[string][]byte{}
	var ck [][]byte
	for i, n := 0, vfChoose("nchanges", 1, 1+vfTier()); i < n; i++ {
		k := vhSKey("chg.key")
		for _, o := range ck {
			vfAssume(!bytes.Equal(o, k))
		}
		ck = append(ck, k)
		probes = append(probes, k)
		if vfBool("chg.del") {
			changes["\x70"+string(k)] = nil
			stor.del(k)
		} else {
			v := vhSVal("chg.val")
			changes["\x70"+string(k)] = v
			stor.set(k, v)
		}
	}
	_, err := t.PutBatch(MapToMPTBatch(changes))
	vfAssert(err == nil, "batch-ok")
	if vfTier() > 0 {
		probes = append(probes, vhSKey("probe"))
	}
	for _, k := range probes {
		got, gerr := t.Get(k)
		if want, ok := stor.get(k); ok {
			vfAssert(gerr == nil && bytes.Equal(got, want), "trie-has-what-storage-has")
		} else {
			vfAssert(gerr != nil, "trie-has-nothing-storage-lacks")
		}
	}
	fresh := NewTrie(nil, ModeAll, storage.NewMemCachedStore(storage.NewMemoryStore()))
	for i := range stor.keys {
		vfAssert(fresh.Put(stor.keys[i], stor.vals[i]) == nil, "fresh-put-ok")
	}
	vfAssert(t.StateRoot() == fresh.StateRoot(), "root-commits-to-storage-content")
}

//vf:tier quick
//vf:unwind 64
//vf:hash uf+injective
//vf:bound trie of 2..3 items; the proof of every present key verifies to its value; a proof produced for one key does not verify for another key (present or absent) unless the value under the root is returned; an absent key has no proof and no list of the trie's own nodes verifies for it
func VF_C03_proofs_complete_and_sound() {
	st := storage.NewMemCachedStore(storage.NewMemoryStore())
	t := NewTrie(nil, ModeAll, st)
	stor := &vhStor{}
	for i, n := 0, vfChoose("n", 2, 3); i < n; i++ {
		k, v := vhSKey("key"), []byte{byte(i + 1), vfU8("val")}
		vfAssert(t.Put(k, v) == nil, "put-ok")
		stor.set(k, v)
	}
	root := t.StateRoot()
	var all [][]byte
	for i, k := range stor.keys {
		proof, err := t.GetProof(k)
		vfAssert(err == nil, "present-key-has-proof")
		val, ok := VerifyProof(root, k, proof)
		vfAssert(ok && bytes.Equal(val, stor.vals[i]), "proof-verifies-to-stored-value")
		all = append(all, proof...)
	}
	q := vhSKey("other")
	want, present := stor.get(q)
	_, perr := t.GetProof(q)
	vfAssert((perr == nil) == present, "proof-exists<=>key-present")
	// every node of the trie offered as "proof": only the stored value may come out
	val, ok := VerifyProof(root, q, all)
	if present {
		vfAssert(ok && bytes.Equal(val, want), "all-nodes-verify-present-key")
	} else {
		vfAssert(!ok, "nothing-verifies-for-absent-key")
	}
}

//vf:tier quick
//vf:unwind 64
//vf:hash uf+injective
//vf:bound range search over a root: trie of 2 (quick) / 3 (thorough) items flushed to the store; Find with prefix of 0..1 bytes, start point of 0..2 symbolic bytes and a limit of 1..3 equals the sorted storage content
func VF_C03_range_search_matches_storage() {
	st := storage.NewMemCachedStore(storage.NewMemoryStore())
	t := NewTrie(nil, ModeAll, st)
	stor := &vhStor{}
	for i, n := 0, 2+vfTier(); i < n; i++ {
		k, v := vhSKey("key"), []byte{byte(i + 1)}
		vfAssert(t.Put(k, v) == nil, "put-ok")
		stor.set(k, v)
	}
	t.Flush(0)
	prefix := vfBytes("prefix", vfChoose("prefix.len", 0, 1))
	var from []byte
	if fl := vfChoose("from.len", 0, 2); fl > 0 {
		from = vfBytes("from", fl)
	}
	max := vfChoose("max", 1, 3)
	got, err := t.Find(prefix, from, max)
	var want [][]byte
	for range stor.keys {
		// selection sort of matching keys
		var best []byte
		for _, k := range stor.keys {
			if !bytes.HasPrefix(k, prefix) {
				continue
			}
			if from != nil && bytes.Compare(k[len(prefix):], from) <= 0 {
				continue
			}
			if len(want) > 0 && bytes.Compare(k, want[len(want)-1]) <= 0 {
				continue
			}
			if best == nil || bytes.Compare(k, best) < 0 {
				best = k
			}
		}
		if best == nil {
			break
		}
		want = append(want, best)
	}
	if len(want) > max {
		want = want[:max]
	}
	if err != nil {
		vfAssert(len(want) == 0, "search-error-only-when-nothing-matches")
		return
	}
	vfAssert(len(got) == len(want), "search-count")
	for i := range got {
		if i < len(want) {
			vfAssert(bytes.Equal(got[i].Key, want[i]), "search-keys-in-order")
			v, _ := stor.get(want[i])
			vfAssert(bytes.Equal(got[i].Value, v), "search-values")
		}
	}
}

//vf:tier quick
//vf:unwind 64
//vf:hash uf+injective
//vf:bound historic reads over a root (TrieStore as used by historic contract execution): trie of 2 (quick) / 3 (thorough) items flushed to the store; Get of a symbolic key and Seek with a prefix of 0..1 key bytes in both directions without a start point (the ranges System.Storage.Find can issue), with early stop after 1..3 results, equal the sorted storage content
func VF_C03_historic_store_reads_match_storage() {
	st := storage.NewMemCachedStore(storage.NewMemoryStore())
	t := NewTrie(nil, ModeAll, st)
	stor := &vhStor{}
	for i, n := 0, 2+vfTier(); i < n; i++ {
		k, v := vhSKey("key"), []byte{byte(i + 1)}
		vfAssert(t.Put(k, v) == nil, "put-ok")
		stor.set(k, v)
	}
	t.Flush(0)
	ts := NewTrieStore(t.StateRoot(), ModeAll, st)
	// point reads
	q := vhSKey("query")
	gv, gerr := ts.Get(append([]byte{byte(storage.STStorage)}, q...))
	found := false
	for i, k := range stor.keys {
		if bytes.Equal(k, q) {
			found = true
			vfAssert(gerr == nil && bytes.Equal(gv, stor.vals[i]), "historic-Get==storage")
		}
	}
	if !found {
		vfAssert(gerr != nil, "historic-Get-absent")
	}
	// range reads
	prefix := vfBytes("prefix", vfChoose("prefix.len", 0, 1))
	backwards := vfBool("backwards")
	max := vfChoose("max", 1, 3)
	var got [][]byte
	ts.Seek(storage.SeekRange{Prefix: append([]byte{byte(storage.STStorage)}, prefix...), Backwards: backwards}, func(k, v []byte) bool {
		got = append(got, bytes.Clone(k[1:]))
		return len(got) < max
	})
	var want [][]byte
	for range stor.keys {
		var best []byte
		for _, k := range stor.keys {
			if !bytes.HasPrefix(k, prefix) {
				continue
			}
			if len(want) > 0 && ((!backwards && bytes.Compare(k, want[len(want)-1]) <= 0) || (backwards && bytes.Compare(k, want[len(want)-1]) >= 0)) {
				continue
			}
			if best == nil || (!backwards && bytes.Compare(k, best) < 0) || (backwards && bytes.Compare(k, best) > 0) {
				best = k
			}
		}
		if best == nil {
			break
		}
		want = append(want, best)
	}
	if len(want) > max {
		want = want[:max]
	}
	vfAssert(len(got) == len(want), "historic-Seek-count")
	for i := range got {
		if i < len(want) {
			vfAssert(bytes.Equal(got[i], want[i]), "historic-Seek-keys-in-order")
		}
	}
}
