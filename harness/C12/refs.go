//vf:pkg pkg/vm
package vm

import (
	"github.com/nspcc-dev/neo-go/pkg/vm/opcode"
	"github.com/nspcc-dev/neo-go/pkg/vm/stackitem"
	"github.com/nspcc-dev/neo-go/pkg/vm/vmstate"
)

// C12: the VM's item accounting (v.refs) equals what is really reachable from the stacks
// and slots, after every instruction of scripts that build shared/nested compound items and
// then mutate them with symbolic operands.

// vhReachable walks all roots: every context's evaluation stack and slots. Each root entry and
// each element slot of every distinct compound item counts once.
func vhReachable(v *VM) int {
	seen := map[stackitem.Item]bool{}
	count := 0
	var visit func(it stackitem.Item)
	visit = func(it stackitem.Item) {
		count++
		switch t := it.(type) {
		case *stackitem.Array:
			if !seen[t] {
				seen[t] = true
				for _, c := range t.Value().([]stackitem.Item) {
					visit(c)
				}
			}
		case *stackitem.Struct:
			if !seen[t] {
				seen[t] = true
				for _, c := range t.Value().([]stackitem.Item) {
					visit(c)
				}
			}
		case *stackitem.Map:
			if !seen[t] {
				seen[t] = true
				for _, e := range t.Value().([]stackitem.MapElement) {
					visit(e.Key)
					visit(e.Value)
				}
			}
		}
	}
	stacks := map[*Stack]bool{}
	scs := map[*scriptContext]bool{}
	addStack := func(s *Stack) {
		if s == nil || stacks[s] {
			return
		}
		stacks[s] = true
		for _, e := range s.elems {
			visit(e.value)
		}
	}
	addStack(v.estack)
	for _, ctx := range v.istack {
		addStack(ctx.sc.estack)
		for _, it := range ctx.local {
			visit(it)
		}
		for _, it := range ctx.arguments {
			visit(it)
		}
		if !scs[ctx.sc] {
			scs[ctx.sc] = true
			for _, it := range ctx.sc.static {
				visit(it)
			}
		}
	}
	return count
}

// vhStepAll executes the loaded script instruction by instruction, asserting after each one that
// the accounting is exact and within the limit unless the VM faulted.
func vhStepAll(v *VM, site string, maxSteps int) {
	for i := 0; i < maxSteps; i++ {
		if v.HasStopped() || len(v.istack) == 0 {
			break
		}
		err := v.Step()
		if err != nil || v.state == vmstate.Fault {
			vfAssert(v.state == vmstate.Fault, site+":error=>FAULT")
			return
		}
		vfAssert(int(v.refs) == vhReachable(v), site+":refs==reachable")
		vfAssert(int(v.refs) <= MaxStackSize, site+":refs<=2048")
	}
	vfCover(site + ":done")
}

func b(op opcode.Opcode) byte { return byte(op) }

// prefix scripts building interesting sharing shapes (all concrete), leaving operands for the
// final instruction; the final instruction's numeric operands are symbolic bytes.
func vhPrefix(k int) []byte {
	switch k {
	case 0: // [1,2,3] twice on the stack (same array), plus a copy in local 0
		return []byte{b(opcode.INITSLOT), 1, 0, b(opcode.PUSH1), b(opcode.PUSH2), b(opcode.PUSH3), b(opcode.PUSH3), b(opcode.PACK),
			b(opcode.DUP), b(opcode.STLOC0), b(opcode.DUP)}
	case 1: // array containing an array containing an array; outer also in static slot
		return []byte{b(opcode.INITSSLOT), 1, b(opcode.NEWARRAY0), b(opcode.DUP), b(opcode.NEWARRAY0), b(opcode.DUP), b(opcode.PUSH7), b(opcode.APPEND),
			b(opcode.APPEND), b(opcode.PUSH1), b(opcode.PACK), b(opcode.DUP), b(opcode.STSFLD0)}
	case 2: // struct holding a struct holding an array, duplicated (struct copy semantics on APPEND/SETITEM)
		return []byte{b(opcode.NEWARRAY0), b(opcode.PUSH1), b(opcode.PACKSTRUCT), b(opcode.PUSH5), b(opcode.PUSH2), b(opcode.PACKSTRUCT), b(opcode.DUP)}
	case 3: // map with compound values, and one of its values also directly on the stack
		return []byte{b(opcode.NEWMAP), b(opcode.DUP), b(opcode.PUSH1), b(opcode.NEWARRAY0), b(opcode.DUP), b(opcode.PUSH9), b(opcode.APPEND), b(opcode.SETITEM),
			b(opcode.DUP), b(opcode.PUSH2), b(opcode.PUSH8), b(opcode.SETITEM), b(opcode.DUP), b(opcode.PUSH1), b(opcode.PICKITEM)}
	case 4: // array of three arrays sharing one inner array
		return []byte{b(opcode.NEWARRAY0), b(opcode.DUP), b(opcode.PUSH4), b(opcode.APPEND), b(opcode.DUP), b(opcode.DUP), b(opcode.PUSH3), b(opcode.PACK), b(opcode.DUP)}
	}
	return nil
}

//vf:tier quick
//vf:bigint theory
//vf:unwind 256
//vf:bound 5 sharing shapes x one of 14 collection/stack instructions with symbolic byte operands (index/count), invariant asserted after every instruction
func VF_C12_refs_exact_after_each_instruction() {
	k := vfChoose("shape", 0, 4)
	script := append([]byte{}, vhPrefix(k)...)
	x := vfU8("x") // symbolic operand (index / count), pushed with PUSHINT8
	final := vfChoose("final", 0, 13)
	push := []byte{b(opcode.PUSHINT8), x}
	switch final {
	case 0:
		script = append(script, push...)
		script = append(script, b(opcode.PICKITEM))
	case 1:
		script = append(script, push...)
		script = append(script, b(opcode.REMOVE))
	case 2:
		script = append(script, push...)
		script = append(script, b(opcode.PUSH6), b(opcode.SETITEM))
	case 3:
		script = append(script, push...)
		script = append(script, b(opcode.NEWARRAY0), b(opcode.SETITEM))
	case 4:
		script = append(script, b(opcode.CLEARITEMS))
	case 5:
		script = append(script, b(opcode.POPITEM))
	case 6:
		script = append(script, b(opcode.REVERSEITEMS))
	case 7:
		script = append(script, b(opcode.UNPACK))
	case 8:
		script = append(script, b(opcode.OVER), b(opcode.APPEND))
	case 9:
		script = append(script, push...)
		script = append(script, b(opcode.PACK))
	case 10:
		script = append(script, b(opcode.VALUES))
	case 11:
		script = append(script, push...)
		script = append(script, b(opcode.XDROP))
	case 12:
		script = append(script, push...)
		script = append(script, b(opcode.ROLL))
	case 13:
		script = append(script, push...)
		script = append(script, b(opcode.NEWARRAY))
	}
	script = append(script, b(opcode.RET))
	v := New()
	v.LoadScript(script)
	vhStepAll(v, "refs", 64)
}
