//vf:pkg pkg/vm
package vm

import (
	"math/big"

	"github.com/nspcc-dev/neo-go/pkg/smartcontract/scparser"
	"github.com/nspcc-dev/neo-go/pkg/vm/opcode"
	"github.com/nspcc-dev/neo-go/pkg/vm/stackitem"
	"github.com/nspcc-dev/neo-go/pkg/vm/vmstate"
)

// C12: totality on arbitrary bytes. A script starting with fully symbolic bytes runs over a
// stack holding items of every kind; no Go panic may escape, the run ends in HALT or FAULT
// (or is still running when the step bound is reached), and after every instruction the VM's
// item accounting equals what is really reachable and stays within the limit.

func vhTotalRun(nsym int, steps int) {
	script := append([]byte{}, vfBytes("script", nsym)...)
	// tail: operand material for multi-byte instructions, then a normal end
	script = append(script, 0x01, 0x00, byte(opcode.PUSH2), byte(opcode.NOP), byte(opcode.RET))
	if steps == 1 {
		// the instruction decoder shared with the static script check must answer, not panic
		_, _, _ = scparser.NewContext(script, 0).Next()
	}
	v := New()
	v.LoadScript(script)
	memo := map[*rvItem]stackitem.Item{}
	bs := vfBytes("bs", 2)
	vfAssume(bs[0] < 40 && bs[1] == 0) // keeps shift counts derived from it enumerable
	in := &rvItem{k: rvArray, el: []*rvItem{rvMkSmall(1), rvMkSmall(2)}}
	init := []*rvItem{
		{k: rvStruct, el: []*rvItem{in, rvMkBool(true)}},
		in,
		rvMkBuf([]byte{7, 8}),
		rvMkBytes(bs),
		{k: rvInt, n: big.NewInt(-3)},
		{k: rvInt, n: big.NewInt(2)},
	}
	for _, it := range init {
		v.estack.PushItem(rvToReal(it, memo))
	}
	for i := 0; i < steps; i++ {
		if v.HasStopped() || len(v.istack) == 0 {
			break
		}
		err := v.Step()
		if err != nil || v.state == vmstate.Fault {
			vfAssert(v.state == vmstate.Fault, "total:error=>FAULT")
			vfCover("total:fault")
			return
		}
		vfAssert(int(v.refs) == vhReachable(v), "total:refs==reachable")
		vfAssert(int(v.refs) <= MaxStackSize, "total:refs<=2048")
	}
	vfAssert(v.state == vmstate.Halt || v.state == vmstate.None || v.state == vmstate.Break, "total:state")
	vfCover("total:end")
}

//vf:tier quick
//vf:bigint theory
//vf:unwind 300
//vf:symindex fork
//vf:wall 400
//vf:bound every script of 2 arbitrary bytes followed by the fixed tail 01 00 PUSH2 NOP RET, run for up to 8 instructions over a stack of six items (struct sharing an array, the array, a buffer, a 2-byte string with a symbolic first byte < 40, the integers -3 and 2 (arithmetic on symbolic operands is C13's subject))
func VF_C12_total_on_arbitrary_bytes_2() {
	vhTotalRun(2, 8)
}

//vf:tier quick
//vf:bigint theory
//vf:unwind 300
//vf:symindex fork
//vf:wall 400
//vf:bound the first instruction of a script of 5 arbitrary bytes (any opcode with any 1..4 operand or length bytes) followed by the fixed tail, one step, same stack; the script parser's decoder (used by the static check) run on the same bytes must not panic either
func VF_C12_total_first_instruction_any_operand() {
	vhTotalRun(5, 1)
}

//vf:tier thorough
//vf:bigint theory
//vf:unwind 300
//vf:symindex fork
//vf:bound as above with 3 arbitrary bytes, 10 instructions
func VF_C12_total_on_arbitrary_bytes_3() {
	vhTotalRun(3, 10)
}

//vf:tier quick
//vf:bigint theory
//vf:unwind 1200
//vf:maxsteps 12000000
//vf:bound nesting limits: n nested TRY blocks for n in 14..18 (HALT iff n <= 16, never more than 16 open try contexts); unbounded recursion CALL-to-self entered after 0..2 NOPs (FAULT, never more than 1024 invocation contexts, item accounting exact during the first 12 steps)
func VF_C12_nesting_limits() {
	if vfChoose("kind", 0, 1) == 0 {
		n := vfChoose("nested-try", 14, 18)
		var script []byte
		for i := 0; i < n; i++ {
			script = append(script, byte(opcode.TRY), 3, 0) // catch handler = the next instruction
		}
		script = append(script, byte(opcode.PUSH1), byte(opcode.RET))
		v := New()
		v.LoadScript(script)
		deepest := 0
		for i := 0; i < 40 && !v.HasStopped() && len(v.istack) > 0; i++ {
			if v.Step() != nil {
				break
			}
			if len(v.istack) > 0 {
				deepest = max(deepest, v.Context().tryStack.Len())
			}
		}
		vfAssert(deepest <= MaxTryNestingDepth, "try-depth<=16")
		vfAssert((v.state == vmstate.Fault) == (n > MaxTryNestingDepth), "FAULT<=>more-than-16-nested-try")
		return
	}
	pre := vfChoose("nops", 0, 2)
	var script []byte
	for i := 0; i < pre; i++ {
		script = append(script, byte(opcode.NOP))
	}
	script = append(script, byte(opcode.PUSH1), byte(opcode.CALL), 0xFF) // CALL -1: back to the PUSH1
	v := New()
	v.LoadScript(script)
	deepest := 0
	for i := 0; i < 2100 && !v.HasStopped() && len(v.istack) > 0; i++ {
		if v.Step() != nil {
			break
		}
		deepest = max(deepest, len(v.istack))
		if i < 12 {
			vfAssert(int(v.refs) == vhReachable(v), "recursion:refs==reachable")
		}
	}
	vfAssert(deepest <= MaxInvocationStackSize, "invocation-depth<=1024")
	vfAssert(v.state == vmstate.Fault, "unbounded-recursion=>FAULT")
}
