//vf:pkg pkg/vm
package vm

import (
	"github.com/holiman/uint256"
	"github.com/nspcc-dev/neo-go/pkg/vm/opcode"
	"github.com/nspcc-dev/neo-go/pkg/vm/vmstate"
)

// C12: the VM never halts having consumed more gas than the limit, for any non-negative
// per-instruction prices and any finite limit.

//vf:tier quick
//vf:bigint theory
//vf:unwind 64
//vf:bound script PUSH1 PUSH2 ADD RET with an arbitrary non-negative price (< 2^50 picoGAS) per instruction, an interop-style AddDatoshi/AddPicoGas charge of any non-negative amount before the run, any gas limit 0 <= limit <= MaxInt64 datoshi
func VF_C12_gas_within_limit() {
	v := New()
	limit := vfI64("limit")
	vfAssume(limit >= 0)
	v.SetGasLimit(limit)
	v.SetPriceGetter(func(op opcode.Opcode, param []byte) int64 {
		p := vfI64("price")
		vfAssume(p >= 0 && p < 1<<50)
		return p
	})
	v.LoadScript([]byte{byte(opcode.PUSH1), byte(opcode.PUSH2), byte(opcode.ADD), byte(opcode.RET)})
	extra := vfI64("charge")
	vfAssume(extra >= 0)
	var cerr error
	if vfBool("charge-in-datoshi") {
		vfAssume(extra < 1<<49)
		cerr = v.AddDatoshi(extra)
	} else {
		cerr = v.AddPicoGas(extra)
	}
	if cerr != nil {
		// an interop would fault here
		vfCover("charge-refused")
		return
	}
	err := v.Run()
	if err == nil && v.state == vmstate.Halt {
		// in picoGAS (GasConsumed() is ceil(pico/10000), so this is the same statement without the division)
		lim := new(uint256.Int).Mul(uint256.NewInt(uint64(limit)), uint256.NewInt(ExecFeeFactorMultiplier))
		vfAssert(!v.gasConsumed.Gt(lim), "HALT=>consumed<=limit")
		vfCover("halted")
	} else {
		vfAssert(v.state == vmstate.Fault, "error=>FAULT")
	}
}
