//vf:pkg pkg/vm
package vm

import (
	"github.com/nspcc-dev/neo-go/pkg/smartcontract/scparser"
	"github.com/nspcc-dev/neo-go/pkg/vm/opcode"
	"github.com/nspcc-dev/neo-go/pkg/vm/stackitem"
	"github.com/nspcc-dev/neo-go/pkg/vm/vmstate"
)

// C12: a script accepted by the static script check never executes an offset that is not an
// instruction boundary. Boundaries are computed by the reference decoder (linear sweep with
// the operand sizes of the specification), independently of scparser.

// vhBoundaries marks the instruction starts of a linear sweep; ok=false if an instruction is truncated.
func vhBoundaries(script []byte) (starts []bool, ok bool) {
	starts = make([]bool, len(script)+1)
	i := 0
	for i < len(script) {
		starts[i] = true
		prefix, fixed := rvOperand(script[i])
		p := i + 1
		if prefix > 0 {
			if p+prefix > len(script) {
				return starts, false
			}
			fixed = rvLE(script[p:p+prefix], false)
			p += prefix
		}
		if fixed < 0 || p+fixed > len(script) {
			return starts, false
		}
		i = p + fixed
	}
	starts[len(script)] = true
	return starts, true
}

// vhRunAligned steps the VM and asserts that every executed offset is an instruction boundary.
func vhRunAligned(v *VM, script []byte, starts []bool, maxSteps int, site string) {
	for i := 0; i < maxSteps; i++ {
		if v.HasStopped() || len(v.istack) == 0 {
			break
		}
		ctx := v.Context()
		ip := ctx.NextIP()
		aligned := ip >= 0 && ip <= len(script) && starts[ip]
		vfAssert(aligned, site+":executed-offset-is-instruction-boundary")
		if !aligned {
			return
		}
		if err := v.Step(); err != nil || v.state == vmstate.Fault {
			return
		}
	}
	vfCover(site + ":ran")
}

func vhLE32(x uint32) []byte { return []byte{byte(x), byte(x >> 8), byte(x >> 16), byte(x >> 24)} }

// vhLongScript: an instruction with a symbolic 32-bit offset operand at the start, code that
// reaches the target (throwing, ending the try block, taking the jump), then a PUSHDATA1 whose
// 246-byte payload spells valid instructions, so that most offsets are not boundaries.
func vhLongScript(form int, off uint32) []byte {
	var s []byte
	o := vhLE32(off)
	switch form {
	case 0:
		s = append(s, byte(opcode.JMPL))
		s = append(s, o...)
	case 1:
		s = append(s, byte(opcode.PUSHT), byte(opcode.JMPIFL))
		s = append(s, o...)
	case 2:
		s = append(s, byte(opcode.CALLL))
		s = append(s, o...)
	case 3:
		s = append(s, byte(opcode.PUSHA))
		s = append(s, o...)
		s = append(s, byte(opcode.CALLA))
	case 4: // catch offset, exception thrown
		s = append(s, byte(opcode.TRYL))
		s = append(s, o...)
		s = append(s, 0, 0, 0, 0, byte(opcode.PUSH1), byte(opcode.THROW))
	case 5: // finally offset, try block left normally
		s = append(s, byte(opcode.TRYL), 0, 0, 0, 0)
		s = append(s, o...)
		s = append(s, byte(opcode.ENDTRY), 2, byte(opcode.RET))
	case 6: // finally offset, exception thrown
		s = append(s, byte(opcode.TRYL), 0, 0, 0, 0)
		s = append(s, o...)
		s = append(s, byte(opcode.PUSH1), byte(opcode.THROW))
	case 7: // end offset of a try block without finally
		s = append(s, byte(opcode.TRY), 0, 3+5, byte(opcode.ENDTRYL))
		s = append(s, o...)
		s = append(s, byte(opcode.ENDFINALLY))
	case 8: // JMPEQL taken
		s = append(s, byte(opcode.PUSH1), byte(opcode.PUSH1), byte(opcode.JMPEQL))
		s = append(s, o...)
	}
	s = append(s, byte(opcode.RET), byte(opcode.PUSHDATA1), 246)
	for len(s) < 270 {
		s = append(s, byte(opcode.PUSH7), byte(opcode.DROP))
	}
	s = append(s, byte(opcode.NOP), byte(opcode.RET))
	return s
}

//vf:tier quick
//vf:bigint theory
//vf:unwind 700
//vf:concretize 300
//vf:symindex fork
//vf:bound 272-byte scripts: one of JMPL, JMPIFL, CALLL, PUSHA+CALLA, TRYL (catch / finally reached normally / finally reached by exception), ENDTRYL, JMPEQL with a fully symbolic 32-bit offset, followed by a PUSHDATA1 with a 246-byte payload of valid instructions; scripts assumed to pass IsScriptCorrect; up to 10 executed instructions
func VF_C12_static_check_long_offsets() {
	form := vfChoose("form", 0, 8)
	off := vfU32("offset")
	script := vhLongScript(form, off)
	starts, ok := vhBoundaries(script)
	vfAssume(ok)
	vfAssume(scparser.IsScriptCorrect(script, nil) == nil)
	v := New()
	v.LoadScript(script)
	vhRunAligned(v, script, starts, 10, "long")
}

var vhShortAlphabet = []opcode.Opcode{opcode.JMP, opcode.JMPIF, opcode.CALL, opcode.TRY, opcode.ENDTRY, opcode.ENDFINALLY, opcode.THROW,
	opcode.PUSH1, opcode.RET, opcode.PUSHINT8, opcode.PUSHINT16, opcode.PUSHDATA1, opcode.NOP, opcode.PUSHA, opcode.CALLA}

//vf:tier quick
//vf:bigint theory
//vf:unwind 300
//vf:symindex fork
//vf:wall 300
//vf:bound every 6-byte script whose first three bytes are symbolic bytes from a 15-opcode alphabet (jumps, call, try/endtry/endfinally/throw, pushes with 1- and 2-byte operands, PUSHDATA1, PUSHA, CALLA, NOP, RET) or small operand values 0..7 and 0xFE..0xFF, next two bytes likewise, last byte RET; assumed to pass IsScriptCorrect; up to 8 executed instructions
func VF_C12_static_check_short_scripts() {
	script := make([]byte, 6)
	for i := 0; i < 5; i++ {
		b := vfU8("b" + string(rune('0'+i)))
		inAlpha := b <= 7 || b >= 0xFE
		for _, op := range vhShortAlphabet {
			inAlpha = vfOr(inAlpha, b == byte(op))
		}
		vfAssume(inAlpha)
		script[i] = b
	}
	script[5] = byte(opcode.RET)
	vfAssume(scparser.IsScriptCorrect(script, nil) == nil)
	starts, ok := vhBoundaries(script)
	vfAssume(ok)
	v := New()
	v.LoadScript(script)
	v.estack.PushItem(rvToReal(rvMkBool(vfBool("s0")), map[*rvItem]stackitem.Item{}))
	vhRunAligned(v, script, starts, 8, "short")
}
