//vf:pkg pkg/crypto/hash
package hash

import (
	"github.com/nspcc-dev/neo-go/pkg/util"
)

// C18 §3: the Merkle root of a hash list equals the recursively defined pairwise
// double-SHA256 root (odd element paired with itself), for both implementations.

func vhPair(a, b util.Uint256) util.Uint256 {
	buf := append(a.BytesBE(), b.BytesBE()...)
	return DoubleSha256(buf)
}

// vhRoot is the textbook recursive definition.
func vhRoot(hs []util.Uint256) util.Uint256 {
	if len(hs) == 1 {
		return hs[0]
	}
	var up []util.Uint256
	for i := 0; i < len(hs); i += 2 {
		if i+1 < len(hs) {
			up = append(up, vhPair(hs[i], hs[i+1]))
		} else {
			up = append(up, vhPair(hs[i], hs[i]))
		}
	}
	return vhRoot(up)
}

//vf:tier quick
//vf:unwind 64
//vf:hash uf+injective
//vf:bound 1..9 leaves, each a fully symbolic 32-byte hash; sha256 as an uninterpreted collision-free function; CalcMerkleRoot (scratch-space version, works on a copy) and NewMerkleTree(...).Root() against the recursive definition
func VF_C18_merkle_root() {
	n := vfChoose("n", 1, 9)
	hs := make([]util.Uint256, n)
	for i := range hs {
		copy(hs[i][:], vfBytes("leaf", 32))
	}
	want := vhRoot(hs)
	t, err := NewMerkleTree(hs)
	vfAssert(err == nil && t.Root() == want, "MerkleTree.Root==definition")
	cp := make([]util.Uint256, n)
	copy(cp, hs)
	got := CalcMerkleRoot(cp)
	vfAssert(got == want, "CalcMerkleRoot==definition")
}

//vf:tier quick
//vf:unwind 64
//vf:bound the empty list: tree construction fails, CalcMerkleRoot gives the zero hash
func VF_C18_merkle_empty() {
	_, err := NewMerkleTree(nil)
	vfAssert(err != nil, "empty-tree-rejected")
	vfAssert(CalcMerkleRoot(nil) == util.Uint256{}, "empty-root-is-zero")
}
