//vf:pkg pkg/smartcontract/scparser
package scparser

import (
	"bytes"

	"github.com/nspcc-dev/neo-go/pkg/io"
	"github.com/nspcc-dev/neo-go/pkg/vm/emit"
	"github.com/nspcc-dev/neo-go/pkg/vm/opcode"
)

// C18 §2: integers and byte strings emitted into a script are read back exactly by the script
// parser, at every size boundary.

//vf:tier quick
//vf:unwind 64
//vf:maxalloc 40
//vf:bound emit.Int for every int64 followed by Context.Next + GetInt64FromInstr; the instruction is exactly consumed
func VF_C18_emit_int_roundtrip() {
	v := vfI64("v")
	w := io.NewBufBinWriter()
	emit.Int(w.BinWriter, v)
	vfAssert(w.Err == nil, "emit-ok")
	script := w.Bytes()
	ctx := NewContext(script, 0)
	op, param, err := ctx.Next()
	vfAssert(err == nil, "parse-ok")
	got, err := GetInt64FromInstr(Instruction{Op: op, Param: param})
	vfAssert(err == nil && got == v, "value-read-back")
	vfAssert(ctx.NextIP() == len(script), "one-instruction-exactly")
}

//vf:tier quick
//vf:unwind 400
//vf:maxalloc 300
//vf:bound emit.Bytes for lengths 0..3 with symbolic content and at the 255/256 PUSHDATA1/PUSHDATA2 boundary (content zero): the parser returns the same bytes and consumes the instruction exactly
func VF_C18_emit_bytes_roundtrip() {
	n := []int{0, 1, 2, 3, 255, 256}[vfChoose("n", 0, 5)]
	var b []byte
	if n <= 3 {
		b = vfBytes("b", n)
	} else {
		b = make([]byte, n)
		b[0], b[n-1] = vfU8("first"), vfU8("last")
	}
	w := io.NewBufBinWriter()
	emit.Bytes(w.BinWriter, b)
	vfAssert(w.Err == nil, "emit-ok")
	script := w.Bytes()
	ctx := NewContext(script, 0)
	op, param, err := ctx.Next()
	vfAssert(err == nil, "parse-ok")
	vfAssert(op == opcode.PUSHDATA1 || op == opcode.PUSHDATA2, "pushdata-opcode")
	vfAssert((op == opcode.PUSHDATA1) == (n <= 255), "shortest-pushdata-form")
	vfAssert(bytes.Equal(param, b), "bytes-read-back")
	vfAssert(ctx.NextIP() == len(script), "one-instruction-exactly")
}
