//vf:pkg pkg/util
package util

import "bytes"

// C18 §2: 160/256-bit integers: byte-order conversions, comparison and binary codec.

//vf:tier quick
//vf:unwind 80
//vf:bound every Uint160 / Uint256 value (fully symbolic bytes); wrong-length inputs of 19/21 and 31/33 bytes
func VF_C18_uint_conversions() {
	var a, b Uint160
	copy(a[:], vfBytes("a", 20))
	copy(b[:], vfBytes("b", 20))
	be, le := a.BytesBE(), a.BytesLE()
	for i := 0; i < 20; i++ {
		vfAssert(be[i] == a[i] && le[i] == a[19-i], "Uint160-byte-orders")
	}
	r1, e1 := Uint160DecodeBytesBE(be)
	r2, e2 := Uint160DecodeBytesLE(le)
	vfAssert(e1 == nil && e2 == nil && r1 == a && r2 == a, "Uint160-decode-roundtrip")
	vfAssert(a.Reverse().Reverse() == a, "Uint160-reverse-involution")
	vfAssert(a.Equals(b) == (a == b), "Uint160-Equals")
	c := a.Compare(b)
	vfAssert((c == 0) == (a == b), "Uint160-Compare-zero-iff-equal")
	vfAssert(c == bytes.Compare(a[:], b[:]), "Uint160-Compare-is-big-endian-byte-order")
	vfAssert(a.Less(b) == (c < 0), "Uint160-Less")
	vfAssert(b.Compare(a) == -c, "Uint160-Compare-antisymmetric")
	_, e3 := Uint160DecodeBytesBE(vfBytes("short", 19))
	_, e4 := Uint160DecodeBytesLE(vfBytes("long", 21))
	vfAssert(e3 != nil && e4 != nil, "Uint160-wrong-length-rejected")

	var x, y Uint256
	copy(x[:], vfBytes("x", 32))
	copy(y[:], vfBytes("y", 32))
	xbe, xle := x.BytesBE(), x.BytesLE()
	for i := 0; i < 32; i++ {
		vfAssert(xbe[i] == x[i] && xle[i] == x[31-i], "Uint256-byte-orders")
	}
	q1, f1 := Uint256DecodeBytesBE(xbe)
	q2, f2 := Uint256DecodeBytesLE(xle)
	vfAssert(f1 == nil && f2 == nil && q1 == x && q2 == x, "Uint256-decode-roundtrip")
	vfAssert(x.Reverse().Reverse() == x, "Uint256-reverse-involution")
	vfAssert(x.Equals(y) == (x == y), "Uint256-Equals")
	vfAssert(x.Compare(y) == bytes.Compare(x[:], y[:]), "Uint256-Compare")
	_, f3 := Uint256DecodeBytesBE(vfBytes("short256", 31))
	_, f4 := Uint256DecodeBytesLE(vfBytes("long256", 33))
	vfAssert(f3 != nil && f4 != nil, "Uint256-wrong-length-rejected")
}
