//vf:pkg pkg/encoding/bigint
package bigint

import (
	"bytes"
	"math/big"
)

// C18 §1: the VM integer codec (little-endian two's complement, minimal length), executed from
// the real math/big word arithmetic. This also discharges the contract by which the codec is
// summarised in the integer-theory harnesses of C12/C13/C17.

// vhTrim removes redundant sign bytes from a little-endian two's complement encoding.
func vhTrim(b []byte) []byte {
	n := len(b)
	for n > 0 {
		top := b[n-1]
		if top != 0x00 && top != 0xff {
			break
		}
		if n == 1 {
			if top == 0x00 {
				n = 0 // zero encodes as the empty string
			}
			break
		}
		// the byte can go iff the next one carries the same sign bit
		next := b[n-2]
		if top == 0x00 && next&0x80 == 0 {
			n--
		} else if top == 0xff && next&0x80 != 0 {
			n--
		} else {
			break
		}
	}
	return b[:n]
}

// vhValue is the reference value for up to 8 bytes.
func vhValue(b []byte) int64 {
	var v uint64
	for i := len(b) - 1; i >= 0; i-- {
		v = v<<8 | uint64(b[i])
	}
	if n := len(b); n > 0 && n < 8 && b[n-1]&0x80 != 0 {
		v |= ^uint64(0) << (8 * uint(n))
	}
	return int64(v)
}

//vf:tier quick
//vf:unwind 200
//vf:maxalloc 40
//vf:bound every byte string of 0..9 bytes (quick) / 0..17 (thorough): ToBytes(FromBytes(b)) is b without redundant sign bytes; for up to 8 bytes the decoded value equals the two's-complement reading
func VF_C18_bigint_decode_encode() {
	n := vfChoose("n", 0, 9+8*vfTier())
	b := vfBytes("b", n)
	orig := bytes.Clone(b)
	x := FromBytes(b)
	vfAssert(bytes.Equal(b, orig), "input-not-modified")
	if n <= 8 {
		vfAssert(x.IsInt64() && x.Int64() == vhValue(orig), "value==twos-complement")
	}
	out := ToBytes(x)
	vfAssert(bytes.Equal(out, vhTrim(orig)), "reencoding-is-minimal-form-of-input")
	y := FromBytes(out)
	vfAssert(y.Cmp(x) == 0, "decode(encode(x))==x")
}

//vf:tier quick
//vf:unwind 200
//vf:maxalloc 40
//vf:bound every int64, and every value (hi*2^64 + lo) of two words with either sign: FromBytes(ToBytes(n)) == n, the encoding is minimal and n is left unmodified (the in-place decrement of negative values is undone)
func VF_C18_bigint_encode_decode() {
	var n *big.Int
	if vfBool("wide") {
		hi, lo := vfU64("hi"), vfU64("lo")
		n = new(big.Int).SetUint64(hi)
		n.Lsh(n, 64)
		n.Or(n, new(big.Int).SetUint64(lo))
		if vfBool("neg") {
			n.Neg(n)
		}
	} else {
		n = big.NewInt(vfI64("v"))
	}
	keep := new(big.Int).Set(n)
	enc := ToBytes(n)
	vfAssert(n.Cmp(keep) == 0, "argument-unmodified")
	vfAssert(len(enc) == len(vhTrim(bytes.Clone(enc))), "encoding-minimal")
	if n.Sign() == 0 {
		vfAssert(len(enc) == 0, "zero-is-empty")
	}
	back := FromBytes(enc)
	vfAssert(back.Cmp(keep) == 0, "roundtrip")
	if len(enc) > 0 {
		vfAssert((enc[len(enc)-1]&0x80 != 0) == (keep.Sign() < 0), "sign-bit")
	}
}
