//vf:pkg pkg/vm
package vm

import (
	"crypto/elliptic"
	"math/big"

	"github.com/nspcc-dev/neo-go/pkg/crypto/hash"
	"github.com/nspcc-dev/neo-go/pkg/crypto/keys"
)

// C18 §4: the parallel multi-signature matcher accepts exactly when the signatures can be
// matched to keys in order, under every interleaving of its worker goroutines.

var vhSigOK [4][3]bool // vhSigOK[key id][sig]: whether that key verifies signature sig

// vhKeyFromBytes replaces public-key decompression: a key is identified by its first byte.
func vhKeyFromBytes(b []byte, _ elliptic.Curve) *keys.PublicKey {
	return &keys.PublicKey{X: big.NewInt(int64(b[0])), Y: big.NewInt(0)}
}

// vhVerify replaces ECDSA verification by a table lookup (signatures carry their index).
func vhVerify(p *keys.PublicKey, sig []byte, _ []byte) bool {
	return vhSigOK[int(p.X.Int64())][int(sig[0])]
}

// vhInOrder is the reference: greedy in-order matching of signatures to keys.
func vhInOrder(keyIDs []int, nsigs int) bool {
	s := 0
	for _, k := range keyIDs {
		if s < nsigs && vhSigOK[k][s] {
			s++
		}
	}
	return s == nsigs
}

// vhMultisig: every signature is made by one of the keys or is invalid (a signature valid under
// two different keys does not exist), keys may repeat, signatures come in any order.
func vhMultisig(nkeys, nsigs int) {
	var keyIDs []int
	for i := 0; i < nkeys; i++ {
		id := i
		if i > 0 && vfBool("repeat-previous-key") {
			id = keyIDs[i-1]
		}
		keyIDs = append(keyIDs, id)
	}
	signer := make([]int, nsigs) // key id that made the signature, -1: invalid signature
	for s := range signer {
		signer[s] = vfChoose("signer", -1, nkeys-1)
		for k := 0; k < 4; k++ {
			vhSigOK[k][s] = signer[s] == k
		}
	}
	msg := []byte{1, 2, 3}
	var got bool
	if vfSymbolic() {
		var pkeys, sigs [][]byte
		for _, id := range keyIDs {
			pkeys = append(pkeys, []byte{byte(id)})
		}
		for s := range signer {
			sigs = append(sigs, []byte{byte(s)})
		}
		got = CheckMultisigPar(nil, msg, pkeys, sigs)
	} else {
		// native replay: real P-256 keys and signatures with the same validity pattern
		var privs []*keys.PrivateKey
		for i := 0; i < 4; i++ {
			p, err := keys.NewPrivateKey()
			if err != nil {
				panic(err)
			}
			privs = append(privs, p)
		}
		var pkeys, sigs [][]byte
		for _, id := range keyIDs {
			pkeys = append(pkeys, privs[id].PublicKey().Bytes())
		}
		h := hash.Sha256(msg)
		for s := range signer {
			if signer[s] >= 0 {
				sigs = append(sigs, privs[signer[s]].SignHash(h))
			} else {
				sigs = append(sigs, make([]byte, 64))
			}
		}
		got = CheckMultisigPar(elliptic.P256(), h.BytesBE(), pkeys, sigs)
	}
	vfAssert(got == vhInOrder(keyIDs, nsigs), "accepts<=>in-order-matching-exists")
}

//vf:tier quick
//vf:unwind 64
//vf:sched all 1
//vf:redirect github.com/nspcc-dev/neo-go/pkg/vm.bytesToPublicKey => github.com/nspcc-dev/neo-go/pkg/vm.vhKeyFromBytes
//vf:redirect (*github.com/nspcc-dev/neo-go/pkg/crypto/keys.PublicKey).Verify => github.com/nspcc-dev/neo-go/pkg/vm.vhVerify
//vf:bound 2-of-3 and 2-of-2 where each signature is made by any one of the keys or is invalid, in any order, keys possibly repeated; every interleaving of the three workers with at most 1 pre-emptive switch (quick)
//vf:stub signature verification is a key x signature table derived from who signed what; key decoding is by index (native replay uses real P-256 keys and signatures)
func VF_C18_multisig_2_of_3() {
	vhMultisig(2+vfChoose("extra-key", 0, 1), 2)
}

//vf:tier quick
//vf:unwind 64
//vf:sched all 1
//vf:redirect github.com/nspcc-dev/neo-go/pkg/vm.bytesToPublicKey => github.com/nspcc-dev/neo-go/pkg/vm.vhKeyFromBytes
//vf:redirect (*github.com/nspcc-dev/neo-go/pkg/crypto/keys.PublicKey).Verify => github.com/nspcc-dev/neo-go/pkg/vm.vhVerify
//vf:bound 3 signatures over 3 keys (unmatched signatures in the middle), at most 1 pre-emptive switch
func VF_C18_multisig_3_of_3() { vhMultisig(3, 3) }

//vf:tier thorough
//vf:unwind 64
//vf:sched all 3
//vf:redirect github.com/nspcc-dev/neo-go/pkg/vm.bytesToPublicKey => github.com/nspcc-dev/neo-go/pkg/vm.vhKeyFromBytes
//vf:redirect (*github.com/nspcc-dev/neo-go/pkg/crypto/keys.PublicKey).Verify => github.com/nspcc-dev/neo-go/pkg/vm.vhVerify
//vf:bound 2..3 signatures over 3..4 keys, at most 3 pre-emptive switches
func VF_C18_multisig_3_of_4() {
	ns := vfChoose("nsigs", 2, 3)
	vhMultisig(ns+vfChoose("extra-keys", 0, 4-ns), ns)
}

//vf:tier quick
//vf:unwind 64
//vf:redirect github.com/nspcc-dev/neo-go/pkg/vm.bytesToPublicKey => github.com/nspcc-dev/neo-go/pkg/vm.vhKeyFromBytes
//vf:redirect (*github.com/nspcc-dev/neo-go/pkg/crypto/keys.PublicKey).Verify => github.com/nspcc-dev/neo-go/pkg/vm.vhVerify
//vf:bound 1 signature over 1..3 keys (the sequential fast path)
func VF_C18_multisig_1_of_n() {
	vhMultisig(vfChoose("nkeys", 1, 3), 1)
}
