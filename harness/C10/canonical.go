//vf:pkg pkg/core/mpt
package mpt

import (
	"bytes"

	"github.com/nspcc-dev/neo-go/pkg/core/storage"
)

// C10: the root depends only on the content: any order of Put/Delete/PutBatch with flushes and
// collapsing gives the root of a fresh trie built from the final content; Get/Find/proofs agree.

type vhKV struct {
	k, v []byte
	del  bool
}

// keys over a 4-letter nibble alphabet so that branch fan-out stays small while all
// prefix/extension relations between keys occur
// vhSmall narrows the case split for the quick batch harnesses: batch keys have 2 bytes,
// values 1 byte, batch entries are puts.
var vhSmall bool

var vhLen2 bool

func vhTKey(name string) []byte {
	lo := 1
	if vhSmall && (name == "b.key" || vhLen2) {
		lo = 2
	}
	n := vfChoose(name+".len", lo, 2)
	k := vfBytes(name, n)
	for _, b := range k {
		if vhSmall {
			vfAssume(b&0xEE == 0) // nibbles in {0,1}
		} else {
			vfAssume(b&0xCC == 0) // nibbles in 0..3
		}
	}
	return k
}

var vhEmptyVals bool

func vhTVal(name string) []byte {
	lo := 0
	if vhSmall && !vhEmptyVals {
		lo = 1
	}
	n := vfChoose(name+".len", lo, 1)
	return append([]byte{}, vfBytes(name, n)...) // non-nil, possibly empty
}

type vhContent struct {
	keys [][]byte
	vals [][]byte
}

func (c *vhContent) set(k, v []byte) {
	for i := range c.keys {
		if bytes.Equal(c.keys[i], k) {
			c.vals[i] = v
			return
		}
	}
	c.keys = append(c.keys, k)
	c.vals = append(c.vals, v)
}

func (c *vhContent) del(k []byte) bool {
	for i := range c.keys {
		if bytes.Equal(c.keys[i], k) {
			c.keys = append(c.keys[:i:i], c.keys[i+1:]...)
			c.vals = append(c.vals[:i:i], c.vals[i+1:]...)
			return true
		}
	}
	return false
}

func (c *vhContent) get(k []byte) ([]byte, bool) {
	for i := range c.keys {
		if bytes.Equal(c.keys[i], k) {
			return c.vals[i], true
		}
	}
	return nil, false
}

// sorted returns the indices of keys in ascending order
func (c *vhContent) sorted() []int {
	var idx []int
	for i := range c.keys {
		pos := len(idx)
		for p := range idx {
			if bytes.Compare(c.keys[i], c.keys[idx[p]]) < 0 {
				pos = p
				break
			}
		}
		idx = append(idx, 0)
		copy(idx[pos+1:], idx[pos:])
		idx[pos] = i
	}
	return idx
}

func vhTrieRun(nops int, allowBatch, allowFlush bool) { vhTrieOps(nops, "", allowBatch, allowFlush) }

// vhTrieOps runs a sequence of operations; kinds fixes the kind of each ('p' put, 'd' delete,
// 'b' batch of two keys) or leaves it to a case split when empty.
func vhTrieOps(nops int, kinds string, allowBatch, allowFlush bool) {
	if kinds == "" {
		vhSmall = false
		vhEmptyVals = false
		vhLen2 = false
	}
	st := storage.NewMemCachedStore(storage.NewMemoryStore())
	t := NewTrie(nil, ModeAll, st)
	c := &vhContent{}
	var probes [][]byte
	for i := 0; i < nops; i++ {
		hi := 1
		if allowBatch {
			hi = 2
		}
		op := 0
		if kinds != "" {
			op = map[byte]int{'p': 0, 'd': 1, 'b': 2}[kinds[i]]
		} else {
			op = vfChoose("op", 0, hi)
		}
		switch op {
		case 0:
			k, v := vhTKey("put.key"), vhTVal("put.val")
			vfAssert(t.Put(k, v) == nil, "Put-ok")
			c.set(k, v)
			probes = append(probes, k)
		case 1:
			k := vhTKey("del.key")
			err := t.Delete(k)
			c.del(k)
			vfAssert(err == nil, "Delete-ok") // deleting a missing key is not an error
			probes = append(probes, k)
		case 2:
			// a batch of two distinct keys, each put or delete
			k1, k2 := vhTKey("b.key"), vhTKey("b.key")
			vfAssume(!bytes.Equal(k1, k2))
			m := map[string][]byte{}
			for j, k := range [][]byte{k1, k2} {
				_ = j
				if !vhSmall && vfBool("b.del") {
					m["\x70"+string(k)] = nil
					c.del(k)
				} else {
					v := vhTVal("b.val")
					m["\x70"+string(k)] = v
					c.set(k, v)
				}
				probes = append(probes, k)
			}
			_, err := t.PutBatch(MapToMPTBatch(m))
			vfAssert(err == nil, "PutBatch-ok")
		}
		if allowFlush && vfBool("flush") {
			t.Flush(0)
			t.Collapse(vfChoose("collapse", 0, 1))
		}
	}
	vfCover("ops-done")
	// fresh trie from the final content, keys in sorted order
	t2 := NewTrie(nil, ModeAll, storage.NewMemCachedStore(storage.NewMemoryStore()))
	for _, i := range c.sorted() {
		vfAssert(t2.Put(c.keys[i], c.vals[i]) == nil, "fresh-Put-ok")
	}
	vfAssert(t.StateRoot() == t2.StateRoot(), "root==root-of-fresh-trie")
	// reads agree with the content
	for _, k := range probes {
		got, err := t.Get(k)
		if want, ok := c.get(k); ok {
			vfAssert(err == nil && bytes.Equal(got, want), "Get==content")
		} else {
			vfAssert(err != nil, "Get-of-absent=>error")
		}
	}
}

//vf:tier quick
//vf:unwind 64
//vf:hash uf+injective
//vf:bound 2 operations (Put/Delete) over keys of 1..2 bytes with nibbles in 0..3, values of 0..1 symbolic bytes, optional Flush+Collapse(0|1) after each; compared with a fresh trie built by sorted Puts
//vf:stub sha256 is an uninterpreted function per input length, assumed collision-free
func VF_C10_canonical_2ops() { vhTrieRun(2, false, true) }

//vf:tier thorough
//vf:unwind 64
//vf:hash uf+injective
//vf:wall 1700
//vf:bound 3 operations Put/Delete without flushing
func VF_C10_canonical_3ops_noflush() { vhTrieRun(3, false, false) }

//vf:tier thorough
//vf:unwind 64
//vf:hash uf+injective
//vf:wall 1700
//vf:bound 3 operations including batches of 2 keys, with flush/collapse
func VF_C10_canonical_3ops_batch() { vhTrieRun(3, true, true) }

//vf:tier thorough
//vf:unwind 64
//vf:hash uf+injective
//vf:wall 1700
//vf:bound 2 operations where each may be a batch of 2 keys (put or delete), with flush/collapse
func VF_C10_canonical_batch_2ops() { vhTrieRun(2, true, true) }

//vf:tier quick
//vf:unwind 64
//vf:hash uf+injective
//vf:bound (nibble alphabet {0,1}) a batch putting 2 keys of 2 bytes (1-byte values) followed by a Put of a 1..2-byte key, no flush; root vs fresh trie and Get of every involved key (in-memory nodes built by the batch are then read repeatedly)
func VF_C10_batch_then_put() { vhSmall = true; vhTrieOps(2, "bp", true, false) }

//vf:tier quick
//vf:unwind 64
//vf:hash uf+injective
//vf:bound (nibble alphabet {0,1}) a Put of a 1..2-byte key followed by a batch putting 2 keys of 2 bytes, no flush
func VF_C10_put_then_batch() { vhSmall = true; vhEmptyVals = true; vhTrieOps(2, "pb", true, false) }

//vf:tier quick
//vf:unwind 64
//vf:hash uf+injective
//vf:bound (nibble alphabet {0,1}) Put, Put, Delete over keys of 1..2 bytes with 1-byte values, no flush (restructuring of branches left with one child)
func VF_C10_put_put_delete() { vhSmall = true; vhTrieOps(3, "ppd", false, false) }

//vf:tier quick
//vf:unwind 64
//vf:hash uf+injective
//vf:bound (nibble alphabet {0,1}) three Puts then a Delete over 2-byte keys, no flush (deleting below a surviving in-memory extension/branch)
func VF_C10_put3_delete() { vhSmall = true; vhLen2 = true; vhTrieOps(4, "pppd", false, false) }

//vf:tier quick
//vf:unwind 64
//vf:hash uf+injective
//vf:bound (nibble alphabet {0,1}) trie of 2 (quick) / 3 (thorough) keys of 1..2 bytes with distinct concrete values, flushed or not; Find with prefix of 0..1 bytes, start point of 0..2 symbolic bytes, at most 1..3 results, compared with the sorted content; Get of every key afterwards
func VF_C10_find_matches_content() {
	vhSmall = true
	st := storage.NewMemCachedStore(storage.NewMemoryStore())
	t := NewTrie(nil, ModeAll, st)
	c := &vhContent{}
	n := 2 + vfTier()
	for i := 0; i < n; i++ {
		k, v := vhTKey("put.key"), []byte{byte(i + 1)}
		vfAssert(t.Put(k, v) == nil, "Put-ok")
		c.set(k, v)
	}
	flushed := vfBool("flush-before-find")
	if flushed {
		t.Flush(0)
	}
	prefix := vfBytes("prefix", vfChoose("prefix.len", 0, 1))
	var from []byte
	if fl := vfChoose("from.len", 0, 2); fl > 0 {
		from = vfBytes("from", fl)
	}
	max := vfChoose("max", 1, 3)
	got, err := t.Find(prefix, from, max)
	var want [][]byte
	for _, i := range c.sorted() {
		k := c.keys[i]
		if !bytes.HasPrefix(k, prefix) {
			continue
		}
		if from != nil && bytes.Compare(k[len(prefix):], from) <= 0 {
			continue
		}
		want = append(want, k)
	}
	if len(want) > max {
		want = want[:max]
	}
	if err != nil {
		// the only acceptable error: no node at all under the prefix
		vfAssert(len(want) == 0, "Find-error-only-when-nothing-matches")
		return
	}
	vfAssert(len(got) == len(want), "Find-count")
	for i := range got {
		if i < len(want) {
			vfAssert(bytes.Equal(got[i].Key, want[i]), "Find-keys-in-order")
			v, _ := c.get(want[i])
			vfAssert(bytes.Equal(got[i].Value, v), "Find-values")
		}
	}
	// reads after the range search still agree with the content
	vfKnown("find-on-unflushed-trie-collapses-nodes", !flushed)
	for _, i := range c.sorted() {
		k := c.keys[i]
		v, _ := c.get(k)
		gv, gerr := t.Get(k)
		vfAssert(gerr == nil && bytes.Equal(gv, v), "Get-after-Find==content")
	}
}
