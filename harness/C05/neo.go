//vf:pkg pkg/core/native
package native

import (
	"bytes"
	"crypto/elliptic"
	"errors"
	"math/big"

	"github.com/nspcc-dev/neo-go/pkg/config"
	"github.com/nspcc-dev/neo-go/pkg/core/block"
	"github.com/nspcc-dev/neo-go/pkg/core/interop"
	"github.com/nspcc-dev/neo-go/pkg/core/state"
	"github.com/nspcc-dev/neo-go/pkg/crypto/keys"
	"github.com/nspcc-dev/neo-go/pkg/encoding/bigint"
	"github.com/nspcc-dev/neo-go/pkg/util"
)

// C05: NEO vote accounting. From an arbitrary consistent state (voters count = sum of the
// balances of voting accounts, candidate votes = sum of the balances voting for it) one vote
// or one transfer keeps the counts consistent, and a rejected vote changes nothing.

func vhHexBig(s string) *big.Int {
	b, _ := new(big.Int).SetString(s, 16)
	return b
}

// Two real P-256 points (G and 2G).
func vhKey(i int) *keys.PublicKey {
	switch i {
	case 1:
		return &keys.PublicKey{
			X: vhHexBig("6b17d1f2e12c4247f8bce6e563a440f277037d812deb33a0f4a13945d898c296"),
			Y: vhHexBig("4fe342e2fe1a7f9b8ee7eb4a7c0f9e162bce33576b315ececbb6406837bf51f5")}
	case 2:
		return &keys.PublicKey{
			X: vhHexBig("7cf27b188d034f7e8a52380304b51ac3c08969e277f21b35a60b48fc47669978"),
			Y: vhHexBig("07775510db8ed040293d9ac69f7430dbba7dade63ce982299e04b79d227873d1")}
	}
	return nil
}

// vhKeyFromBytes replaces keys.NewPublicKeyFromBytes in the symbolic run: the two keys of
// the harness are recognised by their compressed encoding (no curve arithmetic is encoded).
func vhKeyFromBytes(b []byte, _ elliptic.Curve) (*keys.PublicKey, error) {
	for i := 1; i <= 2; i++ {
		k := vhKey(i)
		if bytes.Equal(b, k.Bytes()) {
			return k, nil
		}
	}
	return nil, errors.New("unknown key")
}

type vhNeoState struct {
	n        *NEO
	ic       *interop.Context
	bal      [2]*big.Int
	vote     [2]int // 0 = not voting, 1/2 = key index
	present  [3]bool
	reg      [3]bool
	extra    [3]*big.Int // votes of accounts outside the harness
	extraCnt *big.Int
}

func (s *vhNeoState) candVotes(k int) *big.Int {
	r := new(big.Int).Set(s.extra[k])
	for i := range s.bal {
		if s.vote[i] == k {
			r.Add(r, s.bal[i])
		}
	}
	return r
}

func (s *vhNeoState) voters() *big.Int {
	r := new(big.Int).Set(s.extraCnt)
	for i := range s.bal {
		if s.vote[i] != 0 {
			r.Add(r, s.bal[i])
		}
	}
	return r
}

// vhNeoSetup builds a consistent NEO state with two accounts and two candidates.
func vhNeoSetup(signer util.Uint160) *vhNeoState {
	g := newGAS(0)
	n := NewNEO(config.ProtocolConfiguration{}, g)
	s := &vhNeoState{n: n}
	s.ic = vhNewIC(signer, true)
	s.ic.Block = &block.Block{Header: block.Header{Index: 5}}
	s.ic.DAO.SetCache(n.ID, &NeoCache{gasPerVoteCache: make(map[string]big.Int)})
	s.extraCnt = big.NewInt(0)
	for k := 1; k <= 2; k++ {
		s.present[k] = vfBool("candidate-present")
		s.reg[k] = vfBool("candidate-registered")
		s.extra[k] = vfBig("other-votes", 9)
		vfAssume(s.extra[k].Sign() >= 0)
		if !s.present[k] {
			vfAssume(s.extra[k].Sign() == 0)
		}
		s.extraCnt.Add(s.extraCnt, s.extra[k])
	}
	for i := range s.bal {
		if i == 1 && vfTier() == 0 {
			// quick tier: the second account is empty (other voters are covered by "other-votes")
			s.bal[i] = big.NewInt(0)
			continue
		}
		s.bal[i] = vfBig("neo-balance", 9)
		vfAssume(s.bal[i].Sign() >= 0)
		s.vote[i] = vfChoose("votes-for", 0, 2)
		if s.vote[i] != 0 {
			// reachable states: a vote exists only for a present candidate and a non-empty account
			vfAssume(s.present[s.vote[i]] && s.bal[i].Sign() > 0)
		}
	}
	for k := 1; k <= 2; k++ {
		// an unregistered candidate with no votes is dropped by the implementation
		if s.present[k] && !s.reg[k] {
			vfAssume(s.candVotes(k).Sign() > 0)
		}
		if s.present[k] {
			c := &candidate{Registered: s.reg[k], Votes: *s.candVotes(k)}
			vfAssert(s.ic.DAO.PutStorageConvertible(n.ID, makeValidatorKey(vhKey(k)), c) == nil, "setup-candidate")
		}
	}
	for i := range s.bal {
		if s.bal[i].Sign() == 0 {
			continue
		}
		a := &state.NEOBalance{NEP17Balance: state.NEP17Balance{Balance: *s.bal[i]}, BalanceHeight: 5, VoteTo: vhKey(s.vote[i])}
		s.ic.DAO.PutStorageItem(n.ID, makeAccountKey(vhAccts[i]), a.Bytes(s.ic.DAO.GetItemCtx()))
	}
	s.ic.DAO.PutBigInt(n.ID, []byte{prefixVotersCount}, s.voters())
	return s
}

// vhNeoCheck compares the stored counts with the model in s.
func vhNeoCheck(s *vhNeoState, tag string) {
	n, d := s.n, s.ic.DAO
	vc := bigint.FromBytes(d.GetStorageItem(n.ID, []byte{prefixVotersCount}))
	vfAssert(vc.Cmp(s.voters()) == 0, tag+":voters-count==sum-of-voting-balances")
	for k := 1; k <= 2; k++ {
		si := d.GetStorageItem(n.ID, makeValidatorKey(vhKey(k)))
		if !s.present[k] {
			vfAssert(si == nil, tag+":absent-candidate-stays-absent")
			continue
		}
		want := s.candVotes(k)
		if si == nil {
			vfAssert(!s.reg[k] && want.Sign() == 0, tag+":only-unregistered-zero-vote-candidate-dropped")
			continue
		}
		c := new(candidate).FromBytes(si)
		vfAssert(c.Votes.Cmp(want) == 0, tag+":candidate-votes==sum-of-voter-balances")
		vfAssert(c.Registered == s.reg[k], tag+":registration-unchanged")
	}
	for i := range s.bal {
		si := d.GetStorageItem(n.ID, makeAccountKey(vhAccts[i]))
		if s.bal[i].Sign() == 0 {
			vfAssert(si == nil, tag+":empty-account-has-no-record")
			continue
		}
		vfAssert(si != nil, tag+":account-record-present")
		if si == nil {
			continue
		}
		a, err := state.NEOBalanceFromBytes(si)
		vfAssert(err == nil, tag+":account-decodes")
		if err != nil {
			continue
		}
		vfAssert(a.Balance.Cmp(s.bal[i]) == 0, tag+":balance")
		if s.vote[i] == 0 {
			vfAssert(a.VoteTo == nil, tag+":not-voting")
		} else {
			vfAssert(a.VoteTo != nil && a.VoteTo.Equal(vhKey(s.vote[i])), tag+":vote-target")
		}
	}
}

//vf:tier quick
//vf:bigint theory
//vf:bvints off
//vf:unwind 80
//vf:redirect github.com/nspcc-dev/neo-go/pkg/crypto/keys.NewPublicKeyFromBytes => github.com/nspcc-dev/neo-go/pkg/core/native.vhKeyFromBytes
//vf:bound NEO: two accounts (quick tier: one; balances < 2^8, voting for nothing, K1 or K2) and two candidates (present or not, registered or not, other votes < 2^8) in any consistent state; one vote by account 0 for nothing, K1 or K2; same block as the last balance change (no GAS reward is due)
//vf:stub public keys are two fixed P-256 points; decoding of their compressed form is a table lookup (curve arithmetic is not encoded)
func VF_C05_neo_vote_keeps_counts() {
	s := vhNeoSetup(vhAccts[0])
	vfAssume(s.bal[0].Sign() > 0)
	target := vfChoose("vote-target", 0, 2)
	_, err := s.n.voteInternalUncheckedDeferrable(s.ic, vhAccts[0], vhKey(target), func() {})
	wantErr := target != 0 && !(s.present[target] && s.reg[target])
	vfAssert((err != nil) == wantErr, "vote-rejected-iff-candidate-missing-or-unregistered")
	if err != nil {
		vfCover("vote-rejected")
		vhNeoCheck(s, "rejected")
		return
	}
	vfCover("vote-accepted")
	s.vote[0] = target
	vhNeoCheck(s, "accepted")
}

//vf:tier quick
//vf:bigint theory
//vf:bvints off
//vf:unwind 80
//vf:redirect github.com/nspcc-dev/neo-go/pkg/crypto/keys.NewPublicKeyFromBytes => github.com/nspcc-dev/neo-go/pkg/core/native.vhKeyFromBytes
//vf:bound NEO: the same two-account (quick tier: one-account)/two-candidate consistent state; one balance change (the increaseBalance callback of transfer/mint/burn) of any amount in (-2^8, 2^8) on account 0
//vf:stub public keys are two fixed P-256 points; decoding of their compressed form is a table lookup
func VF_C05_neo_balance_change_keeps_counts() {
	s := vhNeoSetup(vhAccts[0])
	vfAssume(s.bal[0].Sign() > 0)
	amount := vfBig("amount", 9)
	key := makeAccountKey(vhAccts[0])
	si := s.ic.DAO.GetStorageItem(s.n.ID, key)
	_, err := s.n.increaseBalance(s.ic, vhAccts[0], &si, amount, nil)
	neg := new(big.Int).Neg(amount)
	vfAssert((err != nil) == (neg.Cmp(s.bal[0]) > 0), "rejected-iff-insufficient")
	if err != nil {
		vfCover("change-rejected")
		vhNeoCheck(s, "rejected")
		return
	}
	vfCover("change-accepted")
	// the caller (nep17 updateAccBalance) stores or deletes the returned item
	if si == nil {
		s.ic.DAO.DeleteStorageItem(s.n.ID, key)
	} else {
		s.ic.DAO.PutStorageItem(s.n.ID, key, si)
	}
	s.bal[0] = new(big.Int).Add(s.bal[0], amount)
	if s.bal[0].Sign() == 0 {
		s.vote[0] = 0 // the record is removed together with its vote
	}
	vhNeoCheck(s, "accepted")
}
