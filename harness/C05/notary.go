//vf:pkg pkg/core/native
package native

import (
	"math/big"

	"github.com/nspcc-dev/neo-go/pkg/core/block"
	"github.com/nspcc-dev/neo-go/pkg/core/dao"
	"github.com/nspcc-dev/neo-go/pkg/core/native/noderoles"
	"github.com/nspcc-dev/neo-go/pkg/core/state"
	"github.com/nspcc-dev/neo-go/pkg/core/transaction"
	"github.com/nspcc-dev/neo-go/pkg/crypto/keys"
	"github.com/nspcc-dev/neo-go/pkg/util"
)

// C05: the GAS owned by the Notary contract equals the sum of notary deposits across the
// per-block fee charging of Notary-sponsored transactions.

type vhDesig struct{ *Designate }

func (vhDesig) GetDesignatedByRole(*dao.Simple, noderoles.Role, uint32) (keys.PublicKeys, uint32, error) {
	return nil, 0, nil // no notary nodes designated: no rewards are minted
}

//vf:tier quick
//vf:bigint theory
//vf:bvints off
//vf:unwind 64
//vf:bound one block with one Notary-sponsored transaction (symbolic system and network fee < 2^15, NotaryAssisted with any key count) paid by depositor D; D and another depositor E hold symbolic deposits (D's covers the fees); no notary nodes designated
//vf:stub fee burning is done as GAS.OnPersist does it (Burn from the transaction sender); Designate is a stub without notary nodes
func VF_C05_notary_gas_equals_deposits() {
	g := newGAS(0)
	n := NewNotary()
	n.GAS = g
	n.Desig = vhDesig{}
	D, E := util.Uint160{0xD1}, util.Uint160{0xE1}
	ic := vhNewIC(D, true)
	depD, depE := vfBig("depD", 17), vfBig("depE", 17)
	sysFee, netFee := int64(vfU16("sysfee")&0x7fff), int64(vfU16("netfee")&0x7fff)
	vfAssume(depD.Sign() > 0 && depE.Sign() >= 0)
	vfAssume(depD.Cmp(big.NewInt(sysFee+netFee)) >= 0)
	vfAssert(n.putDepositFor(ic.DAO, &state.Deposit{Amount: depD, Till: 100}, D) == nil, "put-deposit")
	if depE.Sign() > 0 {
		vfAssert(n.putDepositFor(ic.DAO, &state.Deposit{Amount: depE, Till: 100}, E) == nil, "put-deposit")
	}
	total := new(big.Int).Add(depD, depE)
	vhSetGAS(g, ic, n.Hash, total)
	ic.DAO.PutBigInt(g.ID, totalSupplyKey, total)
	tx := &transaction.Transaction{SystemFee: sysFee, NetworkFee: netFee}
	tx.Signers = []transaction.Signer{{Account: n.Hash}, {Account: D}}
	tx.Attributes = []transaction.Attribute{{Type: transaction.NotaryAssistedT, Value: &transaction.NotaryAssisted{NKeys: vfU8("nkeys")}}}
	ic.Block = &block.Block{Transactions: []*transaction.Transaction{tx}}
	// fees are burnt from the sender (the Notary contract) ...
	g.Burn(ic, tx.Sender(), big.NewInt(tx.SystemFee+tx.NetworkFee))
	// ... and charged to the depositor
	vfAssert(n.OnPersist(ic) == nil, "OnPersist-ok")
	sum := big.NewInt(0)
	for _, a := range []util.Uint160{D, E} {
		if d := n.GetDepositFor(ic.DAO, a); d != nil {
			vfAssert(d.Amount.Sign() > 0, "stored-deposit-positive")
			sum.Add(sum, d.Amount)
		}
	}
	vfAssert(g.balanceOfInternal(ic.DAO, n.Hash).Cmp(sum) == 0, "notary-GAS==sum-of-deposits")
	_, supply := g.getTotalSupply(ic.DAO)
	vfAssert(supply.Cmp(sum) == 0, "total-supply==sum-of-balances")
}
