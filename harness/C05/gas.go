//vf:pkg pkg/core/native
package native

import (
	"errors"
	"math/big"

	"github.com/nspcc-dev/neo-go/pkg/config"
	"github.com/nspcc-dev/neo-go/pkg/core/block"
	"github.com/nspcc-dev/neo-go/pkg/core/dao"
	"github.com/nspcc-dev/neo-go/pkg/core/interop"
	"github.com/nspcc-dev/neo-go/pkg/core/state"
	"github.com/nspcc-dev/neo-go/pkg/core/storage"
	"github.com/nspcc-dev/neo-go/pkg/core/transaction"
	"github.com/nspcc-dev/neo-go/pkg/smartcontract/callflag"
	"github.com/nspcc-dev/neo-go/pkg/smartcontract/trigger"
	"github.com/nspcc-dev/neo-go/pkg/util"
	"github.com/nspcc-dev/neo-go/pkg/vm"
	"github.com/nspcc-dev/neo-go/pkg/vm/opcode"
	"github.com/nspcc-dev/neo-go/pkg/vm/stackitem"
)

// C05: one-step conservation of the native token accounting from an arbitrary consistent state.

type vhLedger5 struct{}

func (vhLedger5) BlockHeight() uint32                         { return 10 }
func (vhLedger5) CurrentBlockHash() util.Uint256              { return util.Uint256{} }
func (vhLedger5) GetBlock(util.Uint256) (*block.Block, error) { return nil, errors.New("no") }
func (vhLedger5) GetConfig() config.Blockchain                { return config.Blockchain{} }
func (vhLedger5) GetHeaderHash(uint32) util.Uint256           { return util.Uint256{} }
func (vhLedger5) NativeManagementID() int32                   { return -1 }

var vhAccts = []util.Uint160{{0xA1}, {0xB2}}

func vhNewIC(signer util.Uint160, signed bool) *interop.Context {
	d := dao.NewSimple(storage.NewMemoryStore(), false)
	getContract := func(*dao.Simple, util.Uint160) (*state.Contract, error) { return nil, errors.New("not a contract") }
	tx := &transaction.Transaction{}
	if signed {
		tx.Signers = []transaction.Signer{{Account: signer, Scopes: transaction.Global}}
	} else {
		tx.Signers = []transaction.Signer{{Account: util.Uint160{0xEE}, Scopes: transaction.Global}}
	}
	ic := interop.NewContext(trigger.Application, vhLedger5{}, d, 0, 0, getContract, nil, nil, &block.Block{}, tx, nil)
	v := vm.New()
	v.LoadScriptWithHash([]byte{byte(opcode.RET)}, util.Uint160{0x5c}, callflag.All)
	ic.VM = v
	return ic
}

func vhSetGAS(g *GAS, ic *interop.Context, acc util.Uint160, bal *big.Int) {
	if bal.Sign() == 0 {
		return
	}
	b := state.NEP17Balance{Balance: *bal}
	ic.DAO.PutStorageItem(g.ID, makeAccountKey(acc), b.Bytes(nil))
}

//vf:tier quick
//vf:bigint theory
//vf:bvints off
//vf:unwind 64
//vf:bound GAS: two accounts with any balances in [0,2^16) (thorough: 2^40), total supply equal to their sum; one transfer(from,to,amount,data) with from/to any of the accounts (also equal), any amount in (-2^8, 2^17) (thorough: 2^41), witness present or not, recipient not a contract
//vf:stub the witness check sees one Global signer that is or is not the sender; the recipient is not a deployed contract (no payment callback)
func VF_C05_gas_transfer_conserves() {
	g := newGAS(0)
	fi, ti := vfChoose("from", 0, 1), vfChoose("to", 0, 1)
	from, to := vhAccts[fi], vhAccts[ti]
	ic := vhNewIC(from, vfBool("witness"))
	var bal [2]*big.Int
	sum := big.NewInt(0)
	for i := range bal {
		bal[i] = vfBig("balance", 17+24*vfTier())
		vfAssume(bal[i].Sign() >= 0)
		vhSetGAS(g, ic, vhAccts[i], bal[i])
		sum.Add(sum, bal[i])
	}
	ic.DAO.PutBigInt(g.ID, totalSupplyKey, sum)
	amount := vfBig("amount", 18+24*vfTier())
	vfAssume(amount.Cmp(big.NewInt(-256)) > 0)
	var result stackitem.Item
	args := []stackitem.Item{stackitem.NewByteArray(from.BytesBE()), stackitem.NewByteArray(to.BytesBE()), stackitem.NewBigInteger(amount), stackitem.Null{}}
	nBefore := len(ic.Notifications)
	panicked := vhCatch(func() {
		g.transferDeferrable(ic, args, func(res stackitem.Item) { result = res })
	})
	if amount.Sign() < 0 {
		vfAssert(panicked, "negative-amount-refused")
		return
	}
	vfAssert(!panicked && result != nil, "transfer-answers")
	ok, _ := result.TryBool()
	// conservation
	total := big.NewInt(0)
	var after [2]*big.Int
	for i := range after {
		after[i] = g.balanceOfInternal(ic.DAO, vhAccts[i])
		vfAssert(after[i].Sign() >= 0, "no-negative-balance")
		total.Add(total, after[i])
	}
	_, supply := g.getTotalSupply(ic.DAO)
	vfAssert(supply.Cmp(sum) == 0, "total-supply-unchanged")
	vfAssert(total.Cmp(supply) == 0, "sum-of-balances==total-supply")
	// events
	nEv := len(ic.Notifications) - nBefore
	if ok {
		vfAssert(nEv == 1, "one-Transfer-event-on-success")
		for i := range after {
			want := new(big.Int).Set(bal[i])
			if fi != ti {
				if i == fi {
					want.Sub(want, amount)
				}
				if i == ti {
					want.Add(want, amount)
				}
			}
			vfAssert(after[i].Cmp(want) == 0, "balances-moved-by-exactly-the-amount")
		}
	} else {
		vfAssert(nEv == 0, "no-event-on-failure")
		for i := range after {
			vfAssert(after[i].Cmp(bal[i]) == 0, "failed-transfer-changes-nothing")
		}
	}
}

func vhCatch(f func()) (panicked bool) {
	defer func() {
		if recover() != nil {
			panicked = true
		}
	}()
	f()
	return false
}

//vf:tier quick
//vf:bigint theory
//vf:bvints off
//vf:unwind 64
//vf:bound GAS mint and burn of any amount in [0,2^16) on an account with any balance in [0,2^16): total supply and balance move by exactly the amount (burn above the balance refused), one Transfer event whose amount equals the amount and stays equal to it afterwards, the caller's amount value is not modified
func VF_C05_gas_mint_burn() {
	g := newGAS(0)
	acc := vhAccts[0]
	ic := vhNewIC(acc, true)
	bal := vfBig("balance", 17)
	vfAssume(bal.Sign() >= 0)
	vhSetGAS(g, ic, acc, bal)
	ic.DAO.PutBigInt(g.ID, totalSupplyKey, bal)
	amount := vfBig("amount", 17)
	vfAssume(amount.Sign() >= 0)
	orig := new(big.Int).Set(amount)
	burn := vfBool("burn")
	nBefore := len(ic.Notifications)
	panicked := vhCatch(func() {
		if burn {
			g.Burn(ic, acc, amount)
		} else {
			g.MintDeferrable(ic, acc, amount, false, func() {})
		}
	})
	if !panicked {
		// (a refused burn faults the whole execution; the argument's state is then irrelevant)
		vfAssert(amount.Cmp(orig) == 0, "caller's-amount-not-modified")
	}
	after := g.balanceOfInternal(ic.DAO, acc)
	_, supply := g.getTotalSupply(ic.DAO)
	if burn && orig.Cmp(bal) > 0 {
		vfAssert(panicked, "burn-above-balance-refused")
		return
	}
	vfAssert(!panicked, "accepted")
	want := new(big.Int).Add(bal, orig)
	if burn {
		want = new(big.Int).Sub(bal, orig)
	}
	vfAssert(after.Cmp(want) == 0 && supply.Cmp(want) == 0, "balance-and-supply-moved-by-the-amount")
	nEv := len(ic.Notifications) - nBefore
	if orig.Sign() == 0 {
		return
	}
	vfAssert(nEv == 1, "one-Transfer-event")
	if nEv == 1 {
		items := ic.Notifications[nBefore].Item.Value().([]stackitem.Item)
		ev, err := items[2].TryInteger()
		vfAssert(err == nil && ev.Cmp(orig) == 0, "event-amount==amount")
	}
}
