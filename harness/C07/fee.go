//vf:pkg pkg/core
package core

import (
	"crypto/elliptic"
	"errors"
	"math/big"

	"github.com/nspcc-dev/neo-go/pkg/config"
	"github.com/nspcc-dev/neo-go/pkg/core/block"
	"github.com/nspcc-dev/neo-go/pkg/core/dao"
	"github.com/nspcc-dev/neo-go/pkg/core/fee"
	"github.com/nspcc-dev/neo-go/pkg/core/interop"
	"github.com/nspcc-dev/neo-go/pkg/core/interop/contract"
	"github.com/nspcc-dev/neo-go/pkg/core/storage"
	"github.com/nspcc-dev/neo-go/pkg/core/transaction"
	"github.com/nspcc-dev/neo-go/pkg/crypto/keys"
	"github.com/nspcc-dev/neo-go/pkg/io"
	"github.com/nspcc-dev/neo-go/pkg/smartcontract"
	"github.com/nspcc-dev/neo-go/pkg/smartcontract/callflag"
	"github.com/nspcc-dev/neo-go/pkg/smartcontract/trigger"
	"github.com/nspcc-dev/neo-go/pkg/util"
	"github.com/nspcc-dev/neo-go/pkg/vm/emit"
	"go.uber.org/zap"
)

// C07 §2: for standard signature and multi-signature witnesses the fee given by the fee
// calculator is exactly the acceptance threshold of the real verification run: the VM
// (real interop context, real syscall table and prices) finishes within gas limit g iff
// g >= fee.Calculate(...), and the size it reports is the size of the serialised witness.

type vhFeeLedger struct{}

func (vhFeeLedger) BlockHeight() uint32                         { return 10 }
func (vhFeeLedger) CurrentBlockHash() util.Uint256              { return util.Uint256{} }
func (vhFeeLedger) GetBlock(util.Uint256) (*block.Block, error) { return nil, errors.New("no") }
func (vhFeeLedger) GetConfig() config.Blockchain                { return config.Blockchain{} }
func (vhFeeLedger) GetHeaderHash(uint32) util.Uint256           { return util.Uint256{} }
func (vhFeeLedger) NativeManagementID() int32                   { return -1 }

func vhFeeHex(s string) *big.Int {
	b, _ := new(big.Int).SetString(s, 16)
	return b
}

// k*G for k = 1..4 on P-256
var vhFeeKeys = []*keys.PublicKey{
	{X: vhFeeHex("6b17d1f2e12c4247f8bce6e563a440f277037d812deb33a0f4a13945d898c296"), Y: vhFeeHex("4fe342e2fe1a7f9b8ee7eb4a7c0f9e162bce33576b315ececbb6406837bf51f5")},
	{X: vhFeeHex("7cf27b188d034f7e8a52380304b51ac3c08969e277f21b35a60b48fc47669978"), Y: vhFeeHex("07775510db8ed040293d9ac69f7430dbba7dade63ce982299e04b79d227873d1")},
	{X: vhFeeHex("5ecbe4d1a6330a44c8f7ef951d4bf165e6c6b721efada985fb41661bc6e7fd6c"), Y: vhFeeHex("8734640c4998ff7e374b06ce1a64a2ecd82ab036384fb83d9a79b127a27d5032")},
	{X: vhFeeHex("e2534a3532d08fbba02dde659ee62bd0031fe2db785596ef509302446b030852"), Y: vhFeeHex("e0f1575a4c633cc719dfee5fda862d764efc96c3f30ee0055c42c23f184ed8c6")},
}

// vhFeeKeyFromBytes replaces public key decompression in the symbolic run (table lookup).
func vhFeeKeyFromBytes(b []byte, _ elliptic.Curve) (*keys.PublicKey, error) {
	for _, k := range vhFeeKeys {
		kb := k.Bytes()
		if len(kb) == len(b) && string(kb) == string(b) {
			return k, nil
		}
	}
	return nil, errors.New("unknown key")
}

// vhFeeVerify replaces ECDSA verification: the dummy signatures never verify (gas is charged all the same).
func vhFeeVerify(p *keys.PublicKey, sig []byte, _ []byte) bool { return false }

var vhFeeShapes = [][2]int{{0, 0}, {1, 1}, {1, 2}, {2, 2}, {2, 3}, {3, 4}, {1, 4}}
var vhFeeBases = []int64{1, 7, 9999, 10000, 300000, 1234567}

//vf:tier quick
//vf:unwind 200
//vf:redirect github.com/nspcc-dev/neo-go/pkg/crypto/keys.NewPublicKeyFromBytes => github.com/nspcc-dev/neo-go/pkg/core.vhFeeKeyFromBytes
//vf:redirect (*github.com/nspcc-dev/neo-go/pkg/crypto/keys.PublicKey).Verify => github.com/nspcc-dev/neo-go/pkg/core.vhFeeVerify
//vf:stub public keys are k*G (k=1..4) decoded by table lookup, ECDSA verification returns false (curve arithmetic not encoded); natively the real functions run
//vf:bound witness shapes: single signature, 1-of-1, 1-of-2, 2-of-2, 2-of-3, 3-of-4, 1-of-4 multisignature (scripts from keys.GetVerificationScript / smartcontract.CreateMultiSigRedeemScript, invocation scripts of 64-byte signature pushes); execution fee factor from {1,7,9999,10000,300000,1234567} picoGAS units (symbolic 64-bit division by 10000 is beyond the solver); gas limit g any value in [0, 2^40]
func VF_C07_fee_calculator_is_the_threshold() {
	shape := vhFeeShapes[vfChoose("shape", 0, len(vhFeeShapes)-1)]
	base := vhFeeBases[vfChoose("base", 0, len(vhFeeBases)-1)]
	m, n := shape[0], shape[1]
	var verification []byte
	if n == 0 {
		verification = vhFeeKeys[0].GetVerificationScript()
		m = 1
	} else {
		pubs := make(keys.PublicKeys, n)
		copy(pubs, vhFeeKeys[:n])
		var err error
		verification, err = smartcontract.CreateMultiSigRedeemScript(m, pubs)
		vfAssume(err == nil)
	}
	bw := io.NewBufBinWriter()
	for i := 0; i < m; i++ {
		sig := make([]byte, keys.SignatureLen)
		sig[0] = byte(i + 1)
		emit.Bytes(bw.BinWriter, sig)
	}
	w := transaction.Witness{InvocationScript: bw.Bytes(), VerificationScript: verification}

	want, size := fee.Calculate(base, verification)
	vfAssert(size == io.GetVarSize(w.InvocationScript)+io.GetVarSize(w.VerificationScript), "size==serialised-witness-size")

	g := vfI64("gas-limit")
	vfAssume(g >= 0 && g <= 1<<40)
	tx := &transaction.Transaction{Script: []byte{0x40}, ValidUntilBlock: 100, Signers: []transaction.Signer{{Account: w.ScriptHash()}}, Scripts: []transaction.Witness{w}}
	d := dao.NewSimple(storage.NewMemoryStore(), false)
	ic := interop.NewContext(trigger.Verification, vhFeeLedger{}, d, base, 1000, nil, nil, contract.LoadToken, nil, tx, zap.NewNop())
	ic.Functions = systemInterops
	ic.Container = tx
	v := ic.SpawnVM()
	v.SetGasLimit(g)
	v.LoadScriptWithHash(w.VerificationScript, w.ScriptHash(), callflag.ReadOnly)
	v.LoadScript(w.InvocationScript)
	err := ic.Exec()
	finished := err == nil && !v.HasFailed()
	vfAssert(finished == (g >= want), "verification-finishes<=>gas>=calculated-fee")
	if finished {
		vfAssert(v.Estack().Len() == 1, "one-result")
	}
}
