//vf:pkg pkg/core
package core

import (
	"crypto/elliptic"
	"errors"
	"math/big"

	"github.com/nspcc-dev/neo-go/pkg/config"
	"github.com/nspcc-dev/neo-go/pkg/core/block"
	"github.com/nspcc-dev/neo-go/pkg/core/dao"
	"github.com/nspcc-dev/neo-go/pkg/core/fee"
	"github.com/nspcc-dev/neo-go/pkg/core/interop"
	"github.com/nspcc-dev/neo-go/pkg/core/interop/contract"
	"github.com/nspcc-dev/neo-go/pkg/core/storage"
	"github.com/nspcc-dev/neo-go/pkg/core/transaction"
	"github.com/nspcc-dev/neo-go/pkg/crypto/keys"
	"github.com/nspcc-dev/neo-go/pkg/io"
	"github.com/nspcc-dev/neo-go/pkg/smartcontract"
	"github.com/nspcc-dev/neo-go/pkg/smartcontract/callflag"
	"github.com/nspcc-dev/neo-go/pkg/smartcontract/trigger"
	"github.com/nspcc-dev/neo-go/pkg/util"
	"github.com/nspcc-dev/neo-go/pkg/vm/emit"
	"go.uber.org/zap"
)

// C07 §2: for standard signature and multi-signature witnesses the fee given by the fee
// calculator is exactly the acceptance threshold of the real verification run: the VM
// (real interop context, real syscall table and prices) finishes within gas limit g iff
// g >= fee.Calculate(...), and the size it reports is the size of the serialised witness.

type vhFeeLedger struct{}

func (vhFeeLedger) BlockHeight() uint32                         { return 10 }
func (vhFeeLedger) CurrentBlockHash() util.Uint256              { return util.Uint256{} }
func (vhFeeLedger) GetBlock(util.Uint256) (*block.Block, error) { return nil, errors.New("no") }
func (vhFeeLedger) GetConfig() config.Blockchain                { return config.Blockchain{} }
func (vhFeeLedger) GetHeaderHash(uint32) util.Uint256           { return util.Uint256{} }
func (vhFeeLedger) NativeManagementID() int32                   { return -1 }

func vhFeeHex(s string) *big.Int {
	b, _ := new(big.Int).SetString(s, 16)
	return b
}

// vhFeeKeyFromBytes replaces public key decompression in the symbolic run (table lookup).
func vhFeeKeyFromBytes(b []byte, _ elliptic.Curve) (*keys.PublicKey, error) {
	for _, k := range vhFeeKeys {
		kb := k.Bytes()
		if len(kb) == len(b) && string(kb) == string(b) {
			return k, nil
		}
	}
	return nil, errors.New("unknown key")
}

// vhFeeVerify replaces ECDSA verification: the dummy signatures never verify (gas is charged all the same).
func vhFeeVerify(p *keys.PublicKey, sig []byte, _ []byte) bool { return false }

var vhFeeShapes = [][2]int{{0, 0}, {1, 1}, {1, 2}, {2, 2}, {2, 3}, {3, 4}, {1, 4}, {11, 21}, {17, 17}, {16, 18}, {1, 18}, {18, 21}}
var vhFeeBases = []int64{1, 7, 9999, 10000, 300000, 1234567}

//vf:tier quick
//vf:unwind 200
//vf:redirect github.com/nspcc-dev/neo-go/pkg/crypto/keys.NewPublicKeyFromBytes => github.com/nspcc-dev/neo-go/pkg/core.vhFeeKeyFromBytes
//vf:redirect (*github.com/nspcc-dev/neo-go/pkg/crypto/keys.PublicKey).Verify => github.com/nspcc-dev/neo-go/pkg/core.vhFeeVerify
//vf:stub public keys are k*G (k=1..21) decoded by table lookup, ECDSA verification returns false (curve arithmetic not encoded); natively the real functions run
//vf:bound witness shapes: single signature, 1-of-1, 1-of-2, 2-of-2, 2-of-3, 3-of-4, 1-of-4, 11-of-21, 17-of-17, 16-of-18, 1-of-18, 18-of-21 multisignature (scripts from keys.GetVerificationScript / smartcontract.CreateMultiSigRedeemScript, invocation scripts of 64-byte signature pushes); execution fee factor from {1,7,9999,10000,300000,1234567} picoGAS units (symbolic 64-bit division by 10000 is beyond the solver); gas limit g any value in [0, 2^40]
func VF_C07_fee_calculator_is_the_threshold() {
	shape := vhFeeShapes[vfChoose("shape", 0, len(vhFeeShapes)-1)]
	base := vhFeeBases[vfChoose("base", 0, len(vhFeeBases)-1)]
	m, n := shape[0], shape[1]
	var verification []byte
	if n == 0 {
		verification = vhFeeKeys[0].GetVerificationScript()
		m = 1
	} else {
		pubs := make(keys.PublicKeys, n)
		copy(pubs, vhFeeKeys[:n])
		var err error
		verification, err = smartcontract.CreateMultiSigRedeemScript(m, pubs)
		vfAssume(err == nil)
	}
	bw := io.NewBufBinWriter()
	for i := 0; i < m; i++ {
		sig := make([]byte, keys.SignatureLen)
		sig[0] = byte(i + 1)
		emit.Bytes(bw.BinWriter, sig)
	}
	w := transaction.Witness{InvocationScript: bw.Bytes(), VerificationScript: verification}

	want, size := fee.Calculate(base, verification)
	vfAssert(size == io.GetVarSize(w.InvocationScript)+io.GetVarSize(w.VerificationScript), "size==serialised-witness-size")

	g := vfI64("gas-limit")
	vfAssume(g >= 0 && g <= 1<<40)
	tx := &transaction.Transaction{Script: []byte{0x40}, ValidUntilBlock: 100, Signers: []transaction.Signer{{Account: w.ScriptHash()}}, Scripts: []transaction.Witness{w}}
	d := dao.NewSimple(storage.NewMemoryStore(), false)
	ic := interop.NewContext(trigger.Verification, vhFeeLedger{}, d, base, 1000, nil, nil, contract.LoadToken, nil, tx, zap.NewNop())
	ic.Functions = systemInterops
	ic.Container = tx
	v := ic.SpawnVM()
	v.SetGasLimit(g)
	v.LoadScriptWithHash(w.VerificationScript, w.ScriptHash(), callflag.ReadOnly)
	v.LoadScript(w.InvocationScript)
	err := ic.Exec()
	finished := err == nil && !v.HasFailed()
	vfAssert(finished == (g >= want), "verification-finishes<=>gas>=calculated-fee")
	if finished {
		vfAssert(v.Estack().Len() == 1, "one-result")
	}
}
