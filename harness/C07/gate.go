//vf:pkg pkg/core
package core

import (
	"math/big"
	"sync/atomic"

	"github.com/nspcc-dev/neo-go/pkg/config"
	"github.com/nspcc-dev/neo-go/pkg/core/block"
	"github.com/nspcc-dev/neo-go/pkg/core/dao"
	"github.com/nspcc-dev/neo-go/pkg/core/interop"
	"github.com/nspcc-dev/neo-go/pkg/core/mempool"
	"github.com/nspcc-dev/neo-go/pkg/core/native"
	"github.com/nspcc-dev/neo-go/pkg/core/state"
	"github.com/nspcc-dev/neo-go/pkg/smartcontract/trigger"
	"github.com/nspcc-dev/neo-go/pkg/core/storage"
	"github.com/nspcc-dev/neo-go/pkg/core/transaction"
	"github.com/nspcc-dev/neo-go/pkg/crypto/keys"
	"github.com/nspcc-dev/neo-go/pkg/smartcontract"
	"github.com/nspcc-dev/neo-go/pkg/util"
	"go.uber.org/zap"
)

// C07 §1: the admission gate verifyAndPoolTx. The real gate code runs over a Blockchain value
// assembled by the harness (real DAO with on-chain records, real mempool); policy values and
// the verdicts of witness/attribute verification are harness-chosen.

var (
	vhGateFeePerByte  int64
	vhGateAttrFee     int64
	vhGateMaxInc      uint32
	vhGateMTB         uint32
	vhGateWitnessOK   bool
	vhGateAttrsOK     bool
	vhGateBlocked     bool
	vhGateNetFeeSeen  int64
	vhGateWitnessRuns int
)

func (bc *Blockchain) FeePerByte() int64                                        { return vhGateFeePerByte }
func (bc *Blockchain) CalculateAttributesFee(tx *transaction.Transaction) int64 { return vhGateAttrFee }
func (bc *Blockchain) GetMaxValidUntilBlockIncrement() uint32                   { return vhGateMaxInc }
func (bc *Blockchain) GetMaxTraceableBlocks() uint32                            { return vhGateMTB }

var vhErrGateWitness = errorString("stub: witness does not verify")
var vhErrGateAttr = errorString("stub: attribute rule violated")

type errorString string

func (e errorString) Error() string { return string(e) }

func (bc *Blockchain) verifyTxWitnesses(t *transaction.Transaction, block *block.Block, isPartialTx bool, verificationFee ...int64) error {
	vhGateWitnessRuns++
	if len(verificationFee) > 0 {
		vhGateNetFeeSeen = verificationFee[0]
	}
	if vhGateWitnessOK {
		return nil
	}
	return vhErrGateWitness
}

func (bc *Blockchain) verifyTxAttributes(d *dao.Simple, tx *transaction.Transaction, isPartialTx bool) error {
	if vhGateAttrsOK {
		return nil
	}
	return vhErrGateAttr
}

// vhGateCheckPolicy replaces (*native.Policy).CheckPolicy in the symbolic run (blocked-account
// lookup in the native cache); natively the real method runs over a default Policy.
func vhGateCheckPolicy(p *native.Policy, d *dao.Simple, tx *transaction.Transaction) error {
	if vhGateBlocked {
		return vhErrGateAttr
	}
	return nil
}

// vhGateRealPolicy (native replay only): a real Policy contract initialised with its defaults
// over d; the signer account is put on the blocked list through storage and a cache rebuild.
func vhGateRealPolicy(d *dao.Simple, blocked bool) *native.Policy {
	p := native.NewPolicy()
	ic := interop.NewContext(trigger.Application, vhFeeLedger{}, d, 1, 1, nil, nil, nil, nil, nil, zap.NewNop())
	ic.DAO = d
	if err := p.Initialize(ic, nil, nil); err != nil {
		panic(err)
	}
	if blocked {
		acc := util.Uint160{0xA1}
		d.PutStorageItem(p.ID, append([]byte{15}, acc.BytesBE()...), state.StorageItem{})
		if err := p.InitializeCache(func(*config.Hardfork, uint32) bool { return false }, 0, d); err != nil {
			panic(err)
		}
	}
	return p
}

type vhGateFeer struct{ h uint32 }

func (f vhGateFeer) FeePerByte() int64                                   { return 0 }
func (f vhGateFeer) GetUtilityTokenBalance(_, _ util.Uint160) *big.Int   { return big.NewInt(1 << 62) }
func (f vhGateFeer) BlockHeight() uint32                                 { return f.h }

//vf:tier quick
//vf:unwind 120
//vf:shadow (*Blockchain).FeePerByte
//vf:shadow (*Blockchain).CalculateAttributesFee
//vf:shadow (*Blockchain).GetMaxValidUntilBlockIncrement
//vf:shadow (*Blockchain).GetMaxTraceableBlocks
//vf:shadow (*Blockchain).verifyTxWitnesses
//vf:shadow (*Blockchain).verifyTxAttributes
//vf:redirect (*github.com/nspcc-dev/neo-go/pkg/core/native.Policy).CheckPolicy => github.com/nspcc-dev/neo-go/pkg/core.vhGateCheckPolicy
//vf:stub witness and attribute verification return harness-chosen verdicts; policy values (fee per byte, attribute fee, max VUB increment, max traceable blocks) are harness-chosen; Policy.CheckPolicy returns a harness-chosen verdict in the symbolic run (natively the real method over a real Policy contract whose blocked list is installed through storage)
//vf:bound one transaction (script RET or a jump out of the script; one signer) with symbolic ValidUntilBlock, network fee (0..2^50), against symbolic height (< 2^31), max increment (< 2^31), fee per byte (0..10^8), attribute fee (0..2^40); on chain: nothing / the same transaction / a conflict record by the same signer / by another signer; complete or partially-filled (notary) submission
func VF_C07_admission_gate() {
	st := storage.NewMemCachedStore(storage.NewMemoryStore())
	d := dao.NewSimple(st, false)
	vhGateBlocked = vfBool("signer-blocked")
	var pol *native.Policy
	if !vfSymbolic() {
		pol = vhGateRealPolicy(d, vhGateBlocked)
	}
	bc := &Blockchain{config: config.Blockchain{}, dao: d, log: zap.NewNop(), policy: pol}
	height := vfU32("height")
	vfAssume(height < 1<<31)
	atomic.StoreUint32(&bc.blockHeight, height)
	vhGateFeePerByte = vfI64("fee-per-byte")
	vfAssume(vhGateFeePerByte >= 0 && vhGateFeePerByte <= 100000000)
	vhGateAttrFee = vfI64("attribute-fee")
	vfAssume(vhGateAttrFee >= 0 && vhGateAttrFee <= 1<<40)
	vhGateMaxInc = vfU32("max-increment")
	vfAssume(vhGateMaxInc < 1<<31)
	vhGateMTB = 100
	vhGateWitnessOK, vhGateAttrsOK = vfBool("witness-ok"), vfBool("attributes-ok")
	vhGateNetFeeSeen, vhGateWitnessRuns = -1, 0

	acc, other := util.Uint160{0xA1}, util.Uint160{0xB2}
	scriptOK := vfBool("script-correct")
	script := []byte{0x40}
	if !scriptOK {
		script = []byte{0x22, 0x7f} // JMP +127: out of the script
	}
	t := &transaction.Transaction{Nonce: 7, Script: script, Signers: []transaction.Signer{{Account: acc}}, Scripts: []transaction.Witness{{}}}
	t.ValidUntilBlock = vfU32("valid-until")
	t.NetworkFee = vfI64("network-fee")
	vfAssume(t.NetworkFee >= 0 && t.NetworkFee <= 1<<50)
	size := int64(t.Size())

	// on-chain records
	onChain := vfChoose("on-chain", 0, 3)
	switch onChain {
	case 1:
		vfAssume(d.StoreAsTransaction(t, 0, nil) == nil)
	case 2, 3:
		signer := acc
		if onChain == 3 {
			signer = other
		}
		c := &transaction.Transaction{Nonce: 9, Script: []byte{0x40}, ValidUntilBlock: 5, Signers: []transaction.Signer{{Account: signer}}, Scripts: []transaction.Witness{{}},
			Attributes: []transaction.Attribute{{Type: transaction.ConflictsT, Value: &transaction.Conflicts{Hash: t.Hash()}}}}
		vfAssume(height >= 1)
		vfAssume(d.StoreAsTransaction(c, height, nil) == nil)
	}
	partial := vfBool("partially-filled")
	pool := mempool.New(10, false, nil)
	var err error
	if partial {
		err = bc.verifyAndPoolTx(t, pool, vhGateFeer{height}, 1)
	} else {
		err = bc.verifyAndPoolTx(t, pool, vhGateFeer{height})
	}
	need := size*vhGateFeePerByte + vhGateAttrFee
	inWindow := t.ValidUntilBlock > height && (partial || uint64(t.ValidUntilBlock) <= uint64(height)+uint64(vhGateMaxInc))
	want := scriptOK && inWindow && !vhGateBlocked && t.NetworkFee >= need && onChain != 1 && onChain != 2 && vhGateWitnessOK && vhGateAttrsOK
	vfAssert((err == nil) == want, "admitted<=>all-admission-conditions")
	vfAssert(pool.ContainsKey(t.Hash()) == (err == nil), "pooled<=>admitted")
	if vhGateWitnessRuns > 0 {
		vfAssert(vhGateNetFeeSeen == t.NetworkFee-need, "witness-gas==network-fee-surplus")
	}
	if err == nil {
		vfCover("admitted")
	}
}

// vhWitnessKinds: verification scripts of the four kinds the re-validation rule distinguishes.
func vhWitnessScript(kind int) []byte {
	switch kind {
	case 0: // standard signature contract
		return vhFeeKeys[0].GetVerificationScript()
	case 1: // standard 1-of-2 multisignature contract
		s, _ := smartcontract.CreateMultiSigRedeemScript(1, keys.PublicKeys{vhFeeKeys[0], vhFeeKeys[1]})
		return s
	case 2: // custom script (state dependent in general)
		return []byte{0x11, 0x40}
	}
	return nil // contract-based witness: empty verification script
}

//vf:tier quick
//vf:unwind 200
//vf:shadow (*Blockchain).FeePerByte
//vf:shadow (*Blockchain).CalculateAttributesFee
//vf:shadow (*Blockchain).GetMaxValidUntilBlockIncrement
//vf:shadow (*Blockchain).GetMaxTraceableBlocks
//vf:shadow (*Blockchain).verifyTxWitnesses
//vf:shadow (*Blockchain).verifyTxAttributes
//vf:redirect github.com/nspcc-dev/neo-go/pkg/crypto/keys.NewPublicKeyFromBytes => github.com/nspcc-dev/neo-go/pkg/core.vhFeeKeyFromBytes
//vf:stub witness and attribute verification return harness-chosen verdicts
//vf:bound pooled transaction with one or two signers whose witnesses are each a standard signature contract, a standard multisignature contract, a custom script or a contract-based (empty) one; symbolic ValidUntilBlock and height; on chain: nothing / the same transaction / a conflict record by its signer; attribute and witness re-verification verdicts symbolic
func VF_C07_pool_revalidation_after_block() {
	st := storage.NewMemCachedStore(storage.NewMemoryStore())
	d := dao.NewSimple(st, false)
	bc := &Blockchain{config: config.Blockchain{}, dao: d, log: zap.NewNop()}
	height := vfU32("height")
	vfAssume(height >= 1 && height < 1<<31)
	atomic.StoreUint32(&bc.blockHeight, height)
	vhGateMTB = 100
	vhGateWitnessOK, vhGateAttrsOK = vfBool("witness-still-ok"), vfBool("attributes-ok")
	vhGateWitnessRuns = 0
	acc := util.Uint160{0xA1}
	n := 1 + vfChoose("second-signer", 0, 1)
	t := &transaction.Transaction{Nonce: 7, Script: []byte{0x40}}
	allStandard := true
	for i := 0; i < n; i++ {
		kind := vfChoose("witness-kind", 0, 3)
		if kind >= 2 {
			allStandard = false
		}
		a := acc
		a[1] = byte(i)
		t.Signers = append(t.Signers, transaction.Signer{Account: a})
		t.Scripts = append(t.Scripts, transaction.Witness{VerificationScript: vhWitnessScript(kind)})
	}
	t.ValidUntilBlock = vfU32("valid-until")
	onChain := vfChoose("on-chain", 0, 2)
	switch onChain {
	case 1:
		vfAssume(d.StoreAsTransaction(t, 0, nil) == nil)
	case 2:
		c := &transaction.Transaction{Nonce: 9, Script: []byte{0x40}, ValidUntilBlock: 5, Signers: []transaction.Signer{{Account: acc}}, Scripts: []transaction.Witness{{}},
			Attributes: []transaction.Attribute{{Type: transaction.ConflictsT, Value: &transaction.Conflicts{Hash: t.Hash()}}}}
		c.Signers[0].Account = t.Signers[0].Account
		vfAssume(d.StoreAsTransaction(c, height, nil) == nil)
	}
	got := bc.IsTxStillRelevant(t, nil, false)
	want := t.ValidUntilBlock > height && onChain == 0 && vhGateAttrsOK && (allStandard || vhGateWitnessOK)
	vfAssert(got == want, "kept<=>still-valid")
	if !allStandard && t.ValidUntilBlock > height && onChain == 0 && vhGateAttrsOK {
		vfAssert(vhGateWitnessRuns == 1, "non-standard-witness=>re-verified")
	}
}
