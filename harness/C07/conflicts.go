//vf:pkg pkg/core/dao
package dao

import (
	"github.com/nspcc-dev/neo-go/pkg/core/storage"
	"github.com/nspcc-dev/neo-go/pkg/core/transaction"
	"github.com/nspcc-dev/neo-go/pkg/util"
)

// C07 §3: on-chain duplicate / conflict records. A transaction is refused when it is on
// chain itself, or when an on-chain transaction inside the traceable window that shares a
// signer with it names it in a Conflicts attribute.

var vhSigAccts = []util.Uint160{{0xA1}, {0xB2}}

func vhSigners(mask int) []transaction.Signer {
	var r []transaction.Signer
	for i, a := range vhSigAccts {
		if mask&(1<<i) != 0 {
			r = append(r, transaction.Signer{Account: a})
		}
	}
	return r
}

//vf:tier quick
//vf:unwind 80
//vf:bound one or two on-chain transactions (indexes <= current height < 2^8, non-decreasing), each with any non-empty signer set over two accounts and optionally a Conflicts attribute naming hash H; DAO private (buffer-reusing) or not; query for H or for the first transaction's own hash with any signer subset, any MaxTraceableBlocks in 1..255
func VF_C07_onchain_conflict_records() {
	var d *Simple = NewSimple(storage.NewMemoryStore(), false)
	if vfBool("private-dao") {
		d = d.GetPrivate()
	}
	H := util.Uint256{0x77, 0x01}
	cur := uint32(vfU8("current-index"))
	mtb := uint32(vfU8("max-traceable"))
	vfAssume(mtb > 0)
	n := 1 + vfChoose("second-tx", 0, 1)
	var (
		txs   [2]*transaction.Transaction
		idx   [2]uint32
		names [2]bool
		mask  [2]int
	)
	for j := 0; j < n; j++ {
		idx[j] = uint32(vfU8("index"))
		vfAssume(idx[j] <= cur)
		if j == 1 {
			vfAssume(idx[1] >= idx[0])
		}
		tx := &transaction.Transaction{Script: []byte{0x40}, ValidUntilBlock: 1000}
		tx.Nonce = uint32(j + 1)
		mask[j] = vfChoose("signers", 1, 3)
		tx.Signers = vhSigners(mask[j])
		tx.Scripts = make([]transaction.Witness, len(tx.Signers))
		names[j] = vfBool("names-H")
		if names[j] {
			tx.Attributes = []transaction.Attribute{{Type: transaction.ConflictsT, Value: &transaction.Conflicts{Hash: H}}}
		}
		txs[j] = tx
		vfAssert(d.StoreAsTransaction(tx, idx[j], nil) == nil, "store-ok")
	}
	qmask := vfChoose("query-signers", 0, 3)
	signers := vhSigners(qmask)
	if vfBool("query-own-hash") {
		err := d.HasTransaction(txs[0].Hash(), signers, cur, mtb)
		vfAssert(err == ErrAlreadyExists, "on-chain-transaction=>ErrAlreadyExists")
		return
	}
	err := d.HasTransaction(H, signers, cur, mtb)
	vfAssert(err != ErrAlreadyExists, "conflict-stub-is-not-a-transaction")
	named, conflict := false, false
	for j := 0; j < n; j++ {
		if !names[j] {
			continue
		}
		named = true
		traceable := idx[j] <= cur && idx[j]+mtb > cur
		if traceable && mask[j]&qmask != 0 {
			conflict = true
		}
	}
	if qmask == 0 {
		// signer-less query (used to validate Conflicts attributes): any stub counts
		vfAssert((err == ErrHasConflicts) == named, "no-signers:any-stub=>ErrHasConflicts")
		return
	}
	if conflict {
		vfCover("conflict-found")
	}
	vfAssert((err == ErrHasConflicts) == conflict, "ErrHasConflicts<=>traceable-on-chain-tx-of-a-common-signer-names-it")
	vfAssert(err == nil || err == ErrHasConflicts, "no-other-error")
}
