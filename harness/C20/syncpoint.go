//vf:pkg pkg/core/statesync
package statesync

import (
	"errors"

	"github.com/nspcc-dev/neo-go/pkg/config"
	"github.com/nspcc-dev/neo-go/pkg/core/block"
	"github.com/nspcc-dev/neo-go/pkg/core/dao"
	"github.com/nspcc-dev/neo-go/pkg/core/stateroot"
	"github.com/nspcc-dev/neo-go/pkg/core/storage"
	"github.com/nspcc-dev/neo-go/pkg/core/transaction"
	"github.com/nspcc-dev/neo-go/pkg/crypto/hash"
	"github.com/nspcc-dev/neo-go/pkg/util"
	"go.uber.org/zap"
)

// C20 §3: choice of the state synchronisation point on (re)start.

type vhSyncLedger struct {
	height uint32
	hh     uint32
}

func (l *vhSyncLedger) AddHeaders(...*block.Header) error                { return nil }
func (l *vhSyncLedger) BlockHeight() uint32                              { return l.height }
func (l *vhSyncLedger) IsHardforkEnabled(*config.Hardfork, uint32) bool  { return false }
func (l *vhSyncLedger) GetConfig() config.Blockchain                     { return config.Blockchain{} }
func (l *vhSyncLedger) GetHeader(util.Uint256) (*block.Header, error)    { return nil, errors.New("no header") }
func (l *vhSyncLedger) GetHeaderHash(uint32) util.Uint256                { return util.Uint256{} }
func (l *vhSyncLedger) HeaderHeight() uint32                             { return l.hh } // headers fetched so far (never beyond the sync point here)
func (l *vhSyncLedger) NativePolicyID() int32                            { return -7 }
func (l *vhSyncLedger) VerifyWitness(util.Uint160, hash.Hashable, *transaction.Witness, int64) (int64, error) {
	return 0, nil
}

//vf:tier quick
//vf:unwind 32
//vf:bound remote height, local block height and stored sync point any uint32 with remote < 2^31; sync interval from {1, 2, 4, 1024, 40000}; stored point present or absent; header height on (re)start any value from the local block height up to the chosen point
func VF_C20_sync_point_choice() {
	remote := vfU32("remote")
	vfAssume(remote < 1<<31)
	I := []uint32{1, 2, 4, 1024, 40000}[vfChoose("interval", 0, 4)]
	local := vfU32("local")
	vfAssume(local <= remote)
	st := storage.NewMemCachedStore(storage.NewMemoryStore())
	d := dao.NewSimple(st, false)
	hasOld := vfBool("has-stored-point")
	pOld := vfU32("stored-point")
	if hasOld {
		vfAssume(pOld%I == 0 && pOld <= remote)
		d.PutStateSyncPoint(pOld)
	}
	// header height on (re)start: anything up to the point that will be chosen (the header
	// fetching stage is then not finished and must simply be resumed)
	p0 := remote / I * I
	expect := p0
	if hasOld && pOld >= p0-I {
		expect = pOld
	}
	hh := vfU32("header-height")
	vfAssume(hh >= local && hh <= expect)
	bc := &vhSyncLedger{height: local, hh: hh}
	s := &Module{
		log:          zap.NewNop(),
		syncInterval: I,
		dao:          d,
		bc:           bc,
		stateMod:     stateroot.NewModule(config.Blockchain{}, nil, zap.NewNop(), st),
		mptpool:      NewPool(),
		syncStage:    none,
	}
	err := s.Init(remote)
	p := remote / I * I
	switch {
	case p < 2*I:
		vfAssert(err == nil && s.syncStage == inactive, "chain-too-short=>ordinary-sync")
	case local > p-2*I:
		vfAssert(err == nil && s.syncStage == inactive, "already-beyond-old-point=>ordinary-sync")
	case hasOld && pOld >= p-I:
		vfAssert(err == nil && s.syncPoint == pOld, "stored-point-not-older-than-one-interval-is-reused")
	case hasOld:
		vfAssert(err != nil, "outdated-unfinished-point=>refuse")
	case local != 0:
		vfAssert(err != nil, "stale-ordinary-chain=>refuse")
	default:
		vfAssert(err == nil && s.syncPoint == p, "fresh-node-takes-latest-point")
	}
	if err == nil && s.syncStage != inactive {
		vfAssert(s.syncStage&headersSynced == 0, "headers-not-past-the-point=>header-stage-resumed")
		vfAssert(s.syncPoint <= remote, "point-not-above-remote-height")
		vfAssert(s.syncPoint%I == 0, "point-is-a-multiple-of-the-interval")
		got, gerr := d.GetStateSyncPoint()
		vfAssert(gerr == nil && got == s.syncPoint, "chosen-point-persisted")
	}
}
