//vf:pkg pkg/core/statesync
package statesync

import (
	"bytes"

	"github.com/nspcc-dev/neo-go/pkg/util"
)

// C20 §2: the pool of still-unknown MPT nodes is a set of (hash, path) pairs: paths of one
// hash are kept sorted and unique, and a hash disappears exactly when its last path goes.

type vhPair struct {
	h util.Uint256
	p []byte
}

type vhSet struct{ ps []vhPair }

func (s *vhSet) has(h util.Uint256, p []byte) bool {
	for _, x := range s.ps {
		if x.h == h && bytes.Equal(x.p, p) {
			return true
		}
	}
	return false
}
func (s *vhSet) add(h util.Uint256, p []byte) {
	if !s.has(h, p) {
		s.ps = append(s.ps, vhPair{h, p})
	}
}
func (s *vhSet) del(h util.Uint256, p []byte) {
	for i, x := range s.ps {
		if x.h == h && bytes.Equal(x.p, p) {
			s.ps = append(s.ps[:i:i], s.ps[i+1:]...)
			return
		}
	}
}
func (s *vhSet) count(h util.Uint256) int {
	n := 0
	for _, x := range s.ps {
		if x.h == h {
			n++
		}
	}
	return n
}

func vhHash(name string) (h util.Uint256) {
	h[0] = vfU8(name) // hashes differ or coincide in one symbolic byte
	return
}

func vhPath(name string) []byte {
	return vfBytes(name, vfChoose(name+".len", 0, 2))
}

//vf:tier quick
//vf:unwind 64
//vf:bound 2 (quick) / 3 (thorough) operations out of Add(hash,path), Remove(hash), Update(remove one pair, add one pair) over hashes with one symbolic byte and paths of 0..2 symbolic nibbles; then TryGet of a symbolic hash
func VF_C20_unknown_node_pool_is_a_set() {
	mp := NewPool()
	ref := &vhSet{}
	for i := 0; i < 2+vfTier(); i++ {
		switch vfChoose("op", 0, 2) {
		case 0:
			h, p := vhHash("add.h"), vhPath("add.p")
			mp.Add(h, p)
			ref.add(h, p)
		case 1:
			h := vhHash("rm.h")
			mp.Remove(h)
			for ref.count(h) > 0 {
				for _, x := range ref.ps {
					if x.h == h {
						ref.del(x.h, x.p)
						break
					}
				}
			}
		case 2:
			rh, rp := vhHash("upd.rh"), vhPath("upd.rp")
			ah, ap := vhHash("upd.ah"), vhPath("upd.ap")
			mp.Update(map[util.Uint256][][]byte{rh: {rp}}, map[util.Uint256][][]byte{ah: {ap}})
			ref.del(rh, rp)
			ref.add(ah, ap)
		}
	}
	q := vhHash("query")
	paths, ok := mp.TryGet(q)
	vfAssert(ok == (ref.count(q) > 0), "hash-present<=>has-paths")
	vfAssert(len(paths) == ref.count(q), "path-count")
	for i, p := range paths {
		vfAssert(ref.has(q, p), "path-belongs-to-hash")
		if i > 0 {
			vfAssert(bytes.Compare(paths[i-1], p) < 0, "paths-sorted-and-unique")
		}
	}
	vfAssert(mp.ContainsKey(q) == ok, "ContainsKey-agrees")
}
