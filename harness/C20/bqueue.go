//vf:pkg pkg/network/bqueue
package bqueue

import (
	"errors"
	"sync"

	"go.uber.org/zap"
)

// C20 §1: blocks handed to the queue in any order, duplicated or far ahead, reach the ledger
// strictly in index order, each at most once, up to the highest contiguous index given.

type vhItem struct {
	idx uint32
	id  int
}

func (i *vhItem) GetIndex() uint32 { return i.idx }

type vhChain struct {
	mu     sync.Mutex
	height uint32
	added  []*vhItem
	tried  int
	// during, when set, runs once while an AddItem call is in progress (after the height moved):
	// it stands for another producer whose Put overlaps the application of a block
	during func()
}

func (c *vhChain) Height() uint32 {
	c.mu.Lock()
	defer c.mu.Unlock()
	return c.height
}

func (c *vhChain) AddItem(b *vhItem) error {
	c.mu.Lock()
	defer c.mu.Unlock()
	c.tried++
	if b.idx != c.height+1 {
		return errors.New("not the next block")
	}
	c.height++
	c.added = append(c.added, b)
	if d := c.during; d != nil {
		c.during = nil
		c.mu.Unlock()
		d()
		c.mu.Lock()
	}
	return nil
}

func (c *vhChain) AddItems(bs ...*vhItem) error {
	for _, b := range bs {
		if err := c.AddItem(b); err != nil {
			return err
		}
	}
	return nil
}

func vhQueueRun(cacheSize, nputs int) { vhQueueRunOverlap(cacheSize, nputs, false) }

func vhQueueRunOverlap(cacheSize, nputs int, overlap bool) {
	h0 := vfU32("h0")
	vfAssume(h0 < 1<<31)
	chain := &vhChain{height: h0}
	q := New[*vhItem](chain, zap.NewNop(), nil, cacheSize, nil, NonBlocking)
	var given []uint32
	firstFor := map[uint32]*vhItem{}
	put := func(tag string, id int) {
		d := uint32(vfChoose(tag+".delta", 0, 2*cacheSize+1))
		it := &vhItem{idx: h0 + d, id: id}
		hNow := chain.Height()
		_ = q.Put(it)
		// the queue promises to keep what is above the tip and within its window at that time
		if it.idx > hNow && it.idx <= hNow+uint32(cacheSize) {
			given = append(given, it.idx)
			if firstFor[it.idx] == nil {
				firstFor[it.idx] = it
			}
		}
	}
	if overlap {
		chain.during = func() { put("overlap", 100) }
	}
	go q.Run()
	for i := 0; i < nputs; i++ {
		put("put", i)
	}
	vfQuiesce()
	// applied strictly in order, each index once
	for i, b := range chain.added {
		vfAssert(b.idx == h0+1+uint32(i), "applied-in-index-order-each-once")
	}
	// progress: the tip reaches the highest contiguous index that was given
	want := h0
	for {
		found := false
		for _, g := range given {
			if g == want+1 {
				found = true
			}
		}
		if !found {
			break
		}
		want++
	}
	vfAssert(chain.Height() >= want, "reaches-highest-contiguous-given-block")
	lastQ, _ := q.LastQueued()
	_ = lastQ
	q.Discard()
}

//vf:tier quick
//vf:unwind 64
//vf:bound queue window 2, three Puts with indices h0+0..h0+3 (duplicates, gaps, out of window), arbitrary initial height; the Run goroutine scheduled after the producer blocks (deterministic) 
func VF_C20_queue_order_w2() { vhQueueRun(2, 3) }

//vf:tier quick
//vf:unwind 64
//vf:bound queue window 2, two Puts by the producer and a third Put (index up to h0+5) arriving while the first accepted block is being applied (issued from inside the ledger's AddItem, after the height moved): ring-slot reuse at wrap-around
func VF_C20_queue_put_overlapping_apply() { vhQueueRunOverlap(2, 2, true) }

//vf:tier thorough
//vf:unwind 64
//vf:sched all 2
//vf:bound queue window 2, three Puts with indices h0+0..h0+3; every interleaving of the producer and the Run goroutine with at most 2 pre-emptive switches
func VF_C20_queue_order_w2_interleaved() { vhQueueRun(2, 3) }

//vf:tier thorough
//vf:unwind 64
//vf:sched all 2
//vf:wall 1500
//vf:bound window 4, four Puts, at most 2 pre-emptive switches
func VF_C20_queue_order_w4_4puts() { vhQueueRun(4, 4) }
