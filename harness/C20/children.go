//vf:pkg pkg/core/mpt
package mpt

import (
	"bytes"

	"github.com/nspcc-dev/neo-go/pkg/util"
)

// C20 §4: the paths recorded for the children of a restored node: every hash child of a
// branch is reachable under parent-path + child index (no index for the value slot), the child of
// an extension under parent-path + extension key; equal child hashes accumulate their paths.

//vf:tier quick
//vf:unwind 80
//vf:bound branch with 3 hash children at positions from {0,16}x{1,15}x{5,9} (16 is the value slot) (two of the hashes may coincide) and the other slots empty or a leaf; extension with a hash child; parent path of 0..2 symbolic nibbles, extension key of 1..2
func VF_C20_children_paths() {
	path := vfBytes("path", vfChoose("path.len", 0, 2))
	if vfBool("extension") {
		var h util.Uint256
		h[0] = vfU8("h")
		key := vfBytes("key", vfChoose("key.len", 1, 2))
		e := NewExtensionNode(key, NewHashNode(h))
		res := GetChildrenPaths(path, e)
		vfAssert(len(res) == 1, "extension-one-child")
		ps := res[h]
		vfAssert(len(ps) == 1 && bytes.Equal(ps[0], append(append([]byte{}, path...), key...)), "extension-child-path")
		e2 := NewExtensionNode(key, NewLeafNode([]byte{1}))
		vfAssert(len(GetChildrenPaths(path, e2)) == 0, "non-hash-child-not-listed")
		return
	}
	b := NewBranchNode()
	var hs [3]util.Uint256
	var pos [3]int
	for i := range hs {
		hs[i][0] = vfU8("h")
		pos[i] = [][]int{{0, 16}, {1, 15}, {5, 9}}[i][vfChoose("pos", 0, 1)]
		b.Children[pos[i]] = NewHashNode(hs[i])
	}
	b.Children[7] = NewLeafNode([]byte{1})
	res := GetChildrenPaths(path, b)
	total := 0
	for _, ps := range res {
		total += len(ps)
	}
	vfAssert(total == 3, "one-path-per-hash-child")
	for i := range hs {
		want := append([]byte{}, path...)
		if pos[i] != lastChild {
			want = append(want, byte(pos[i]))
		}
		found := false
		for _, p := range res[hs[i]] {
			if bytes.Equal(p, want) {
				found = true
			}
		}
		vfAssert(found, "child-reachable-under-parent-path+index")
	}
}
