//vf:pkg pkg/core
package core

import (
	"errors"
	"sync/atomic"

	"github.com/nspcc-dev/neo-go/pkg/config"
	"github.com/nspcc-dev/neo-go/pkg/core/block"
	"github.com/nspcc-dev/neo-go/pkg/core/dao"
	"github.com/nspcc-dev/neo-go/pkg/core/mempool"
	"github.com/nspcc-dev/neo-go/pkg/core/mpt"
	"github.com/nspcc-dev/neo-go/pkg/core/state"
	"github.com/nspcc-dev/neo-go/pkg/core/stateroot"
	"github.com/nspcc-dev/neo-go/pkg/core/storage"
	"github.com/nspcc-dev/neo-go/pkg/core/transaction"
	"github.com/nspcc-dev/neo-go/pkg/util"
	"go.uber.org/zap"
)

// C06: the admission gate of Blockchain.AddBlock / addHeaders / verifyHeader. The real
// gate code runs over a Blockchain value assembled by the harness (real DAO, header hash
// list, state root module and mempool); the three callees that need the whole node
// (witness VM run, per-transaction verification, block execution) are shadowed by stubs
// with harness-chosen results.

var (
	vhWitnessOK   bool
	vhTxBad       map[uint32]bool // by tx nonce
	vhStoreCalls  int
	vhStoredBlock *block.Block
	vhVerified    int
)

var vhErrWitness = errors.New("stub: header witness does not verify")
var vhErrTx = errors.New("stub: transaction does not verify")

func (bc *Blockchain) verifyHeaderWitnesses(currHeader, prevHeader *block.Header) error {
	if vhWitnessOK {
		return nil
	}
	return vhErrWitness
}

func (bc *Blockchain) verifyAndPoolTx(t *transaction.Transaction, pool *mempool.Pool, feer mempool.Feer, data ...any) error {
	vhVerified++
	if vhTxBad[t.Nonce] {
		return vhErrTx
	}
	return nil
}

func (bc *Blockchain) storeBlock(b *block.Block, txpool *mempool.Pool) error {
	vhStoreCalls++
	vhStoredBlock = b
	atomic.StoreUint32(&bc.blockHeight, b.Index)
	return nil
}

func vhTx(nonce uint32) *transaction.Transaction {
	return &transaction.Transaction{Nonce: nonce, Script: []byte{0x40}, ValidUntilBlock: 100,
		Signers: []transaction.Signer{{Account: util.Uint160{0xA1}}}, Scripts: []transaction.Witness{{}}}
}

type vhChain struct {
	bc        *Blockchain
	h0, h1    *block.Header
	localRoot util.Uint256
}

// vhNewChain builds a chain with the genesis header (block height 0) and, optionally, one
// more known header (header height 1).
func vhNewChain(srInHeader, verifyTx, knownNext bool) *vhChain {
	st := storage.NewMemCachedStore(storage.NewMemoryStore())
	d := dao.NewSimple(st, srInHeader)
	cfg := config.Blockchain{ProtocolConfiguration: config.ProtocolConfiguration{StateRootInHeader: srInHeader, VerifyTransactions: verifyTx}}
	bc := &Blockchain{config: cfg, dao: d, log: zap.NewNop(), memPool: mempool.New(10, false, nil)}
	c := &vhChain{bc: bc}
	c.localRoot = util.Uint256{0x51, 0x52}
	bc.stateRoot = stateroot.NewModule(cfg, nil, zap.NewNop(), st)
	bc.stateRoot.UpdateCurrentLocal(mpt.NewTrie(nil, mpt.ModeAll, st), &state.MPTRoot{Index: 0, Root: c.localRoot})
	c.h0 = &block.Header{Index: 0, Timestamp: 1000, NextConsensus: util.Uint160{0xC0}, StateRootEnabled: srInHeader}
	vfAssert(d.StoreHeader(c.h0) == nil, "setup")
	bc.HeaderHashes.initMinTrustedHeader(d, config.HashIndex{Hash: c.h0.Hash(), Index: 0})
	if knownNext {
		c.h1 = &block.Header{Index: 1, PrevHash: c.h0.Hash(), Timestamp: 2000, Nonce: 7,
			NextConsensus: util.Uint160{0xC1}, StateRootEnabled: srInHeader, MerkleRoot: vhMerkle(vfChoose("known-header-txs", 0, 1))}
		if srInHeader {
			c.h1.PrevStateRoot = c.localRoot
		}
		vfAssert(bc.HeaderHashes.addHeaders(c.h1) == nil, "setup")
		vfAssert(bc.HeaderHeight() == 1, "setup-header-height")
	}
	return c
}

func vhTxList(n int) []*transaction.Transaction {
	var r []*transaction.Transaction
	for i := 0; i < n; i++ {
		r = append(r, vhTx(uint32(i+1)))
	}
	return r
}

func vhMerkle(n int) util.Uint256 {
	b := &block.Block{Transactions: vhTxList(n)}
	return b.ComputeMerkleRoot()
}

//vf:tier quick
//vf:unwind 64
//vf:hash uf+injective
//vf:shadow (*Blockchain).verifyHeaderWitnesses
//vf:shadow (*Blockchain).verifyAndPoolTx
//vf:shadow (*Blockchain).storeBlock
//vf:bound chain at block height 0 with a concrete genesis header (timestamp 1000) and optionally one already known next header; candidate block with symbolic index (0..3), previous hash (genesis / known header / other), timestamp, nonce, state-root flag, previous state root (local / other), Merkle root (of its 0..2 transactions / other), witness verdict and per-transaction verdicts; StateRootInHeader and VerifyTransactions symbolic
//vf:stub header witness verification, per-transaction verification and block execution are replaced by stubs with harness-chosen verdicts (shadowed in both the symbolic and the native run)
func VF_C06_add_block_header_gate() { vhGate(0) }

//vf:tier quick
//vf:unwind 64
//vf:hash uf+injective
//vf:shadow (*Blockchain).verifyHeaderWitnesses
//vf:shadow (*Blockchain).verifyAndPoolTx
//vf:shadow (*Blockchain).storeBlock
//vf:bound as above with a validly linked and signed header: 0..3 transactions with symbolic verdicts, Merkle root correct or not, the transaction list optionally corrupted after signing (last duplicated, first two swapped, last dropped), VerifyTransactions symbolic, index 0..3
//vf:stub as above
func VF_C06_add_block_body_gate() { vhGate(1) }

//vf:tier quick
//vf:unwind 64
//vf:hash uf+injective
//vf:shadow (*Blockchain).verifyHeaderWitnesses
//vf:shadow (*Blockchain).verifyAndPoolTx
//vf:shadow (*Blockchain).storeBlock
//vf:bound as above with the next header already known (header height 1, block height 0): the candidate's header fields are symbolic and must hash to the known header
//vf:stub as above
func VF_C06_add_block_known_header_gate() { vhGate(2) }

//vf:tier thorough
//vf:unwind 64
//vf:hash uf+injective
//vf:shadow (*Blockchain).verifyHeaderWitnesses
//vf:shadow (*Blockchain).verifyAndPoolTx
//vf:shadow (*Blockchain).storeBlock
//vf:bound all of the above dimensions at once
//vf:stub as above
func VF_C06_add_block_gate_full() { vhGate(3) }

// vhGate mode: 0 = header dimensions (no transactions), 1 = body dimensions (valid header),
// 2 = known next header, 3 = everything.
func vhGate(mode int) {
	srInHeader, verifyTx, known := vfBool("StateRootInHeader"), true, false
	if mode == 1 || mode == 3 {
		verifyTx = vfBool("VerifyTransactions")
	}
	if mode == 2 {
		known = true
	} else if mode == 3 {
		known = vfBool("next-header-known")
	}
	c := vhNewChain(srInHeader, verifyTx, known)
	bc := c.bc
	vhWitnessOK = true
	if mode != 1 {
		vhWitnessOK = vfBool("witness-verifies")
	}
	vhTxBad = map[uint32]bool{}
	vhStoreCalls, vhStoredBlock, vhVerified = 0, nil, 0

	ntx := 0
	if mode == 2 {
		ntx = vfChoose("block-txs", 0, 1)
	} else if mode == 1 {
		ntx = vfChoose("block-txs", 0, 3)
	} else if mode != 0 {
		ntx = vfChoose("block-txs", 0, 2)
	}
	b := &block.Block{Transactions: vhTxList(ntx)}
	anyBad := false
	for i := 0; i < ntx; i++ {
		if mode != 2 && vfBool("tx-invalid") {
			vhTxBad[uint32(i+1)] = true
			anyBad = true
		}
	}
	b.Index = uint32(vfChoose("index", 0, 3))
	prevSel := 0
	if mode != 1 {
		prevSel = vfChoose("prev-hash", 0, 2)
	}
	switch prevSel {
	case 0:
		b.PrevHash = c.h0.Hash()
	case 1:
		b.PrevHash = util.Uint256{0x0F, 0xF0}
		// an unrelated hash: sha256 is an uninterpreted function here, so say that it
		// does not happen to produce this constant
		vfAssume(b.PrevHash != c.h0.Hash() && (!known || b.PrevHash != c.h1.Hash()))
	case 2:
		vfAssume(known)
		b.PrevHash = c.h1.Hash()
	}
	b.Timestamp = vfU64("timestamp")
	b.Nonce = vfU64("nonce")
	b.NextConsensus = util.Uint160{0xC1}
	b.StateRootEnabled = srInHeader
	rootOK := true
	if mode != 1 {
		b.StateRootEnabled = vfBool("state-root-enabled")
		rootOK = vfBool("prev-state-root-is-local")
	}
	if rootOK {
		b.PrevStateRoot = c.localRoot
	} else {
		b.PrevStateRoot = util.Uint256{0x99}
	}
	merkleOK := true
	if mode != 0 {
		merkleOK = vfBool("merkle-root-correct")
	}
	if merkleOK {
		b.MerkleRoot = b.ComputeMerkleRoot() // of the intended list
	}
	// corruption of the transaction list after the header was made (and signed)
	listOK := true
	if mode == 1 || mode == 3 {
		switch vfChoose("tx-list-corruption", 0, 3) {
		case 1: // duplicate the last transaction
			vfAssume(ntx >= 1)
			b.Transactions = append(b.Transactions, b.Transactions[ntx-1])
			listOK = false
		case 2: // swap the first two
			vfAssume(ntx >= 2)
			b.Transactions[0], b.Transactions[1] = b.Transactions[1], b.Transactions[0]
			listOK = false
		case 3: // drop the last one
			vfAssume(ntx >= 1)
			b.Transactions = b.Transactions[:ntx-1]
			listOK = false
		}
	}
	if mode == 1 {
		vfAssume(b.Timestamp > c.h0.Timestamp)
	}
	if !merkleOK {
		b.MerkleRoot = util.Uint256{0x66, 0x77}
	}

	hh0 := bc.HeaderHeight()
	tip0 := bc.CurrentHeaderHash()
	err := bc.AddBlock(b)

	// the oracle, written from the property
	idxOK := b.Index == 1
	settingOK := b.StateRootEnabled == srInHeader
	var headerOK, headerRecorded bool
	if !known {
		linked := b.PrevHash == c.h0.Hash() && b.Timestamp > c.h0.Timestamp && vhWitnessOK
		if srInHeader && !rootOK {
			linked = false
		}
		headerOK = linked
		headerRecorded = idxOK && settingOK && linked
	} else {
		headerOK = b.Hash() == c.h1.Hash()
	}
	txsOK := !verifyTx || !anyBad
	accept := idxOK && settingOK && headerOK && merkleOK && listOK && txsOK
	vfAssert((err == nil) == accept, "accepted<=>valid-extension")
	if accept {
		vfCover("accepted")
		vfAssert(vhStoreCalls == 1 && vhStoredBlock == b, "accepted-block-is-executed-once")
		vfAssert(vhVerified == len(b.Transactions), "every-transaction-verified")
	} else {
		vfCover("rejected")
		vfAssert(vhStoreCalls == 0, "rejected-block-is-never-executed")
		vfAssert(bc.BlockHeight() == 0, "rejected:block-height-unchanged")
		vfAssert(bc.memPool.Count() == 0, "rejected:mempool-unchanged")
		if headerRecorded {
			vfCover("rejected-with-valid-header")
			vfAssert(bc.HeaderHeight() == 1 && bc.CurrentHeaderHash() == b.Hash(), "only-the-valid-header-is-recorded")
		} else {
			vfAssert(bc.HeaderHeight() == hh0 && bc.CurrentHeaderHash() == tip0, "rejected:header-chain-unchanged")
		}
	}
}
