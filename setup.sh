#!/bin/sh
set -e
cd /verif/engine
export GOFLAGS=-mod=mod GOPROXY=off
unset GOTOOLCHAIN GOSUMDB
mkdir -p /verif/bin /verif/evidence
go build -o /verif/bin/gosym .
echo "gosym built"
