package main

import (
	"fmt"
	"go/types"
	"strings"

	"golang.org/x/tools/go/ssa"
)

// Value is one of: *Term (scalar), *StructV, *ArrayV, SliceV, StringV, PtrV,
// IfaceV, MapV, *FuncV, ChanV, TupleV, *BigV, PoisonV, *RangeIter, DeferStackV.
type Value interface{}

type Obj struct {
	ID   int
	Typ  types.Type // type of the content
	Name string
}

type StructV struct{ F []Value }
type ArrayV struct{ E []Value }

type SliceV struct {
	O             *Obj
	Path          []int // location of the backing array inside O
	Off, Len, Cap int
}

func sameSlice(a, b SliceV) bool {
	if a.O != b.O || a.Off != b.Off || a.Len != b.Len || a.Cap != b.Cap || len(a.Path) != len(b.Path) {
		return false
	}
	for i := range a.Path {
		if a.Path[i] != b.Path[i] {
			return false
		}
	}
	return true
}

type StringV struct {
	S   string  // valid when B == nil
	B   []*Term // symbolic bytes (BV8) when non-nil
	Sym bool
}

type PtrV struct {
	O    *Obj
	Path []int
	Sym  *Term // optional symbolic final index (BV64), range [0,SymN)
	SymN int
}

// WinPtrV is a pointer to an array that is a window of a slice's backing store (the result of
// a slice-to-array-pointer conversion).
type WinPtrV struct {
	S SliceV
	N int
}

type IfaceV struct {
	T types.Type // nil => nil interface
	V Value
}

type MapV struct{ O *Obj }
type ChanV struct{ O *Obj }

type FuncV struct {
	Fn  *ssa.Function
	Env []Value
	Bi  *ssa.Builtin
}

type TupleV []Value

// BigV is the theory-mode content of a math/big.Int.
type BigV struct{ T *Term }

type PoisonV struct{ Why string }

type DeferStackV struct{ G, Depth int }

// MapData is the (immutable) content of a map object.
type MapData struct {
	K []Value
	V []Value
}

// ChanData is the (immutable) content of a channel object.
type ChanData struct {
	Buf    []Value
	Cap    int
	Closed bool
}

// RangeIter iterates over a map snapshot or a string.
type RangeIter struct {
	O     *Obj // iterator state object: content is *IterState
	IsStr bool
}
type IterState struct {
	Keys []Value
	Vals []Value
	Str  StringV
	Pos  int
}

func (s StringV) Len() int {
	if s.B != nil || s.Sym {
		return len(s.B)
	}
	return len(s.S)
}
func (s StringV) Concrete() bool {
	if s.B == nil && !s.Sym {
		return true
	}
	for _, b := range s.B {
		if !b.IsConst() {
			return false
		}
	}
	return true
}
func (s StringV) Bytes() []*Term {
	if s.B != nil || s.Sym {
		return s.B
	}
	r := make([]*Term, len(s.S))
	for i := 0; i < len(s.S); i++ {
		r[i] = BVu(uint64(s.S[i]), 8)
	}
	return r
}
func (s StringV) Go() string {
	if s.B == nil && !s.Sym {
		return s.S
	}
	b := make([]byte, len(s.B))
	for i, t := range s.B {
		if !t.IsConst() {
			b[i] = '?'
		} else {
			b[i] = byte(t.Uint64())
		}
	}
	return string(b)
}
func mkString(s string) StringV { return StringV{S: s} }
func mkSymString(b []*Term) StringV {
	allc := true
	for _, t := range b {
		if !t.IsConst() {
			allc = false
			break
		}
	}
	if allc {
		bs := make([]byte, len(b))
		for i, t := range b {
			bs[i] = byte(t.Uint64())
		}
		return StringV{S: string(bs)}
	}
	return StringV{B: b, Sym: true}
}

// ---------- type helpers

func underlying(t types.Type) types.Type {
	for {
		switch tt := t.(type) {
		case *types.Named:
			t = tt.Underlying()
		case *types.Alias:
			t = types.Unalias(tt)
		case *types.TypeParam:
			panic("type parameter in executed code: " + tt.String())
		default:
			return t
		}
	}
}

func isBigInt(t types.Type) bool {
	t = types.Unalias(t)
	n, ok := t.(*types.Named)
	if !ok {
		return false
	}
	o := n.Obj()
	return o.Pkg() != nil && o.Pkg().Path() == "math/big" && o.Name() == "Int"
}

// hasBigIntUnderlying reports types defined as big.Int (e.g. stackitem.BigInteger)
func bigIntLike(t types.Type) bool {
	t = types.Unalias(t)
	for {
		n, ok := t.(*types.Named)
		if !ok {
			return false
		}
		if isBigInt(n) {
			return true
		}
		// type X big.Int : underlying is struct; need origin decl
		if tn := n.Obj(); tn != nil {
			// types.Named loses the RHS name; detect structurally
			if st, ok := n.Underlying().(*types.Struct); ok && st.NumFields() == 2 &&
				st.Field(0).Name() == "neg" && st.Field(1).Name() == "abs" && st.Field(0).Pkg() != nil && st.Field(0).Pkg().Path() == "math/big" {
				return true
			}
		}
		return false
	}
}

func bvWidth(b *types.Basic) int {
	switch b.Kind() {
	case types.Int8, types.Uint8:
		return 8
	case types.Int16, types.Uint16:
		return 16
	case types.Int32, types.Uint32, types.UntypedRune:
		return 32
	case types.Int, types.Uint, types.Int64, types.Uint64, types.Uintptr, types.UntypedInt:
		return 64
	case types.Float64, types.UntypedFloat:
		return 64
	case types.Float32:
		return 32
	}
	return 0
}

func isSigned(t types.Type) bool {
	b, ok := underlying(t).(*types.Basic)
	if !ok {
		return false
	}
	return b.Info()&types.IsInteger != 0 && b.Info()&types.IsUnsigned == 0
}

func isFloat(t types.Type) bool {
	b, ok := underlying(t).(*types.Basic)
	return ok && b.Info()&types.IsFloat != 0
}

func (e *Engine) zero(t types.Type) Value {
	if e.theoryBig && bigIntLike(t) {
		return &BigV{T: IntI(0)}
	}
	switch u := underlying(t).(type) {
	case *types.Basic:
		switch {
		case u.Kind() == types.Bool || u.Kind() == types.UntypedBool:
			return TFalse
		case u.Kind() == types.String || u.Kind() == types.UntypedString:
			return mkString("")
		case u.Kind() == types.UnsafePointer:
			return PtrV{}
		case u.Kind() == types.UntypedNil:
			return PtrV{}
		case u.Info()&(types.IsInteger|types.IsFloat) != 0:
			return BVu(0, bvWidth(u))
		case u.Info()&types.IsComplex != 0:
			return PoisonV{"complex"}
		}
	case *types.Struct:
		f := make([]Value, u.NumFields())
		for i := range f {
			f[i] = e.zero(u.Field(i).Type())
		}
		return &StructV{f}
	case *types.Array:
		n := int(u.Len())
		el := make([]Value, n)
		if n > 0 {
			z := e.zero(u.Elem())
			for i := range el {
				el[i] = z
			}
		}
		return &ArrayV{el}
	case *types.Slice:
		return SliceV{}
	case *types.Pointer:
		return PtrV{}
	case *types.Interface:
		return IfaceV{}
	case *types.Map:
		return MapV{}
	case *types.Chan:
		return ChanV{}
	case *types.Signature:
		return (*FuncV)(nil)
	case *types.Tuple:
		tv := make(TupleV, u.Len())
		for i := range tv {
			tv[i] = e.zero(u.At(i).Type())
		}
		return tv
	}
	panic(fmt.Sprintf("zero: unhandled type %v (%T)", t, underlying(t)))
}

// ---------- heap

type Heap struct {
	parent *Heap
	m      map[*Obj]Value
	depth  int
}

func newHeap(parent *Heap) *Heap {
	d := 0
	if parent != nil {
		d = parent.depth + 1
	}
	return &Heap{parent: parent, m: map[*Obj]Value{}, depth: d}
}

func (h *Heap) get(o *Obj) (Value, bool) {
	for x := h; x != nil; x = x.parent {
		if v, ok := x.m[o]; ok {
			return v, true
		}
	}
	return nil, false
}

func (h *Heap) set(o *Obj, v Value) { h.m[o] = v }

// flatten merges layers down to (not including) stop.
func (h *Heap) flatten(stop *Heap) *Heap {
	n := &Heap{parent: stop, m: map[*Obj]Value{}}
	if stop != nil {
		n.depth = stop.depth + 1
	}
	var chain []*Heap
	for x := h; x != nil && x != stop; x = x.parent {
		chain = append(chain, x)
	}
	for i := len(chain) - 1; i >= 0; i-- {
		for k, v := range chain[i].m {
			n.m[k] = v
		}
	}
	return n
}

// ---------- navigation inside immutable value trees

func getPath(root Value, path []int) Value {
	v := root
	for _, i := range path {
		switch x := v.(type) {
		case *StructV:
			v = x.F[i]
		case *ArrayV:
			v = x.E[i]
		default:
			panic(fmt.Sprintf("getPath: cannot index %T", v))
		}
	}
	return v
}

func setPath(root Value, path []int, nv Value) Value {
	if len(path) == 0 {
		return nv
	}
	i := path[0]
	switch x := root.(type) {
	case *StructV:
		f := make([]Value, len(x.F))
		copy(f, x.F)
		f[i] = setPath(x.F[i], path[1:], nv)
		return &StructV{f}
	case *ArrayV:
		el := make([]Value, len(x.E))
		copy(el, x.E)
		el[i] = setPath(x.E[i], path[1:], nv)
		return &ArrayV{el}
	}
	panic(fmt.Sprintf("setPath: cannot index %T", root))
}

func appendPath(p []int, i int) []int {
	r := make([]int, len(p)+1)
	copy(r, p)
	r[len(p)] = i
	return r
}

// iteValue merges two values of the same shape under condition c.
func iteValue(c *Term, a, b Value) (Value, bool) {
	if c.IsTrue() {
		return a, true
	}
	if c.IsFalse() {
		return b, true
	}
	switch x := a.(type) {
	case *Term:
		y, ok := b.(*Term)
		if !ok || x.S != y.S {
			return nil, false
		}
		return Ite(c, x, y), true
	case *StructV:
		y, ok := b.(*StructV)
		if !ok || len(x.F) != len(y.F) {
			return nil, false
		}
		if x == y {
			return x, true
		}
		f := make([]Value, len(x.F))
		for i := range f {
			v, ok := iteValue(c, x.F[i], y.F[i])
			if !ok {
				return nil, false
			}
			f[i] = v
		}
		return &StructV{f}, true
	case *ArrayV:
		y, ok := b.(*ArrayV)
		if !ok || len(x.E) != len(y.E) {
			return nil, false
		}
		if x == y {
			return x, true
		}
		el := make([]Value, len(x.E))
		for i := range el {
			v, ok := iteValue(c, x.E[i], y.E[i])
			if !ok {
				return nil, false
			}
			el[i] = v
		}
		return &ArrayV{el}, true
	case *BigV:
		y, ok := b.(*BigV)
		if !ok {
			return nil, false
		}
		return &BigV{Ite(c, x.T, y.T)}, true
	case StringV:
		y, ok := b.(StringV)
		if !ok || x.Len() != y.Len() {
			return nil, false
		}
		if x.Concrete() && y.Concrete() && x.Go() == y.Go() {
			return x, true
		}
		xb, yb := x.Bytes(), y.Bytes()
		r := make([]*Term, len(xb))
		for i := range r {
			r[i] = Ite(c, xb[i], yb[i])
		}
		return mkSymString(r), true
	case PtrV:
		y, ok := b.(PtrV)
		if ok && samePtr(x, y) {
			return x, true
		}
		return nil, false
	case SliceV:
		y, ok := b.(SliceV)
		if ok && sameSlice(x, y) {
			return x, true
		}
		return nil, false
	case IfaceV:
		y, ok := b.(IfaceV)
		if !ok {
			return nil, false
		}
		if x.T == nil && y.T == nil {
			return x, true
		}
		if x.T == nil || y.T == nil || !types.Identical(x.T, y.T) {
			return nil, false
		}
		v, ok := iteValue(c, x.V, y.V)
		if !ok {
			return nil, false
		}
		return IfaceV{x.T, v}, true
	case MapV:
		y, ok := b.(MapV)
		if ok && x == y {
			return x, true
		}
		return nil, false
	case ChanV:
		y, ok := b.(ChanV)
		if ok && x == y {
			return x, true
		}
		return nil, false
	case *FuncV:
		y, ok := b.(*FuncV)
		if ok && x == y {
			return x, true
		}
		return nil, false
	}
	return nil, false
}

func samePtr(a, b PtrV) bool {
	if a.O != b.O || len(a.Path) != len(b.Path) || a.Sym != b.Sym {
		return false
	}
	for i := range a.Path {
		if a.Path[i] != b.Path[i] {
			return false
		}
	}
	return true
}

// isSymbolic reports whether v contains any non-constant term (shallow heap: does not follow pointers).
func isSymbolic(v Value) bool {
	switch x := v.(type) {
	case *Term:
		return !x.IsConst()
	case *StructV:
		for _, f := range x.F {
			if isSymbolic(f) {
				return true
			}
		}
	case *ArrayV:
		for _, f := range x.E {
			if isSymbolic(f) {
				return true
			}
		}
	case StringV:
		return !x.Concrete()
	case IfaceV:
		return x.T != nil && isSymbolic(x.V)
	case *BigV:
		return !x.T.IsConst()
	case TupleV:
		for _, f := range x {
			if isSymbolic(f) {
				return true
			}
		}
	}
	return false
}

func showValue(v Value) string {
	switch x := v.(type) {
	case nil:
		return "<nil>"
	case *Term:
		return x.String()
	case *StructV:
		var p []string
		for _, f := range x.F {
			p = append(p, showValue(f))
		}
		return "{" + strings.Join(p, ", ") + "}"
	case *ArrayV:
		var p []string
		for i, f := range x.E {
			if i > 8 {
				p = append(p, "...")
				break
			}
			p = append(p, showValue(f))
		}
		return "[" + strings.Join(p, ", ") + "]"
	case SliceV:
		if x.O == nil {
			return "slice(nil)"
		}
		return fmt.Sprintf("slice(#%d+%d,len=%d,cap=%d)", x.O.ID, x.Off, x.Len, x.Cap)
	case StringV:
		return fmt.Sprintf("%q", x.Go())
	case PtrV:
		if x.O == nil {
			return "ptr(nil)"
		}
		return fmt.Sprintf("ptr(#%d%v)", x.O.ID, x.Path)
	case IfaceV:
		if x.T == nil {
			return "iface(nil)"
		}
		return fmt.Sprintf("iface(%v: %s)", x.T, showValue(x.V))
	case MapV:
		if x.O == nil {
			return "map(nil)"
		}
		return fmt.Sprintf("map(#%d)", x.O.ID)
	case *FuncV:
		if x == nil {
			return "func(nil)"
		}
		if x.Fn != nil {
			return "func(" + x.Fn.String() + ")"
		}
		return "builtin"
	case TupleV:
		var p []string
		for _, f := range x {
			p = append(p, showValue(f))
		}
		return "(" + strings.Join(p, ", ") + ")"
	case *BigV:
		return "big(" + x.T.String() + ")"
	case PoisonV:
		return "poison(" + x.Why + ")"
	}
	return fmt.Sprintf("%T", v)
}
