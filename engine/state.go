package main

import (
	"fmt"
	"math/big"
	"strings"
	"go/types"
	"sync/atomic"

	"golang.org/x/tools/go/ssa"
)

type FnInfo struct {
	idx map[ssa.Value]int
	n   int
}

type Deferred struct {
	Fn   Value
	Args []Value
	Pos  ssa.Instruction
}

const (
	kindCall = iota
	kindDefer
	kindGo
	kindRoot
)

type Frame struct {
	fn        *ssa.Function
	info      *FnInfo
	block     *ssa.BasicBlock
	prev      *ssa.BasicBlock
	pc        int
	locals    []Value
	defers    []*Deferred
	kind      int
	noResult  bool // result discarded (defer/go/root)
	panicking bool
	recovered bool
	panicVal  Value
	symVisits map[ssa.Instruction]int
	// for redirected / model callbacks
	onReturn func(e *Engine, st *State, g *G, res Value)
}

func (f *Frame) clone() *Frame {
	n := *f
	n.locals = make([]Value, len(f.locals))
	copy(n.locals, f.locals)
	if f.defers != nil {
		n.defers = make([]*Deferred, len(f.defers))
		copy(n.defers, f.defers)
	}
	if f.symVisits != nil {
		n.symVisits = make(map[ssa.Instruction]int, len(f.symVisits))
		for k, v := range f.symVisits {
			n.symVisits[k] = v
		}
	}
	return &n
}

const (
	gRunnable = iota
	gBlocked
	gDone
)

type G struct {
	id     int
	frames []*Frame
	status int
	// blocked-on description for diagnostics
	waitOn string
}

func (g *G) top() *Frame {
	if len(g.frames) == 0 {
		return nil
	}
	return g.frames[len(g.frames)-1]
}

func (g *G) clone() *G {
	n := *g
	n.frames = make([]*Frame, len(g.frames))
	for i, f := range g.frames {
		n.frames[i] = f.clone()
	}
	return &n
}

type InputRec struct {
	Name string
	Kind string // u8,u16,u32,u64,i64,int,bool,bytes,big,choose
	N    int    // for bytes: length
	Vars []*Term
	Val  int // for choose
}

type SiteHit struct {
	Site string
}

type State struct {
	gs      []*G
	cur     int
	heap    *Heap
	base    *Heap
	pc      []*Term
	forced  []int
	decs    []int
	decIdx  int
	pcMark  int
	steps   int64
	inputs  []*InputRec
	nameCnt map[string]int
	known   []KnownSig
	sites   map[string]bool // assert/cover sites reached on this path
	sched   []int
	preempt int
	frozen  map[*Obj]bool
	status  string
	msg     string
	model   map[string]*big.Int
	auxVars []*Term
	trace   []string
	cuts    []string
	id      int64
	hashInj map[string][][2]Value
	extra   map[string]interface{}
	approx  bool
	notes   []NoteRec
	lits    map[int64]bool
	bind    map[string]*big.Int // small-domain variables pinned to one value by the path condition
	dom     map[string][4]uint64 // remaining values of variables of <= 8 bits under the single-variable conjuncts
	coupled map[string]bool      // such variables that also occur in conjuncts with other variables
}

type KnownSig struct {
	Sig  string
	Cond *Term
}

var stateCounter int64

func (st *State) clone() *State {
	n := *st
	n.id = atomic.AddInt64(&stateCounter, 1)
	n.gs = make([]*G, len(st.gs))
	for i, g := range st.gs {
		n.gs[i] = g.clone()
	}
	// heap: freeze current layer, both get a fresh layer on top
	if st.heap.depth-st.base.depth > 12 {
		st.heap = st.heap.flatten(st.base)
	}
	frozenLayer := st.heap
	st.heap = newHeap(frozenLayer)
	n.heap = newHeap(frozenLayer)
	n.pc = make([]*Term, len(st.pc), len(st.pc)+8)
	copy(n.pc, st.pc)
	n.inputs = make([]*InputRec, len(st.inputs))
	copy(n.inputs, st.inputs)
	n.nameCnt = make(map[string]int, len(st.nameCnt))
	for k, v := range st.nameCnt {
		n.nameCnt[k] = v
	}
	n.known = append([]KnownSig(nil), st.known...)
	n.sites = make(map[string]bool, len(st.sites))
	for k, v := range st.sites {
		n.sites[k] = v
	}
	n.sched = append([]int(nil), st.sched...)
	if st.frozen != nil {
		n.frozen = make(map[*Obj]bool, len(st.frozen))
		for k, v := range st.frozen {
			n.frozen[k] = v
		}
	}
	n.cuts = append([]string(nil), st.cuts...)
	n.auxVars = append([]*Term(nil), st.auxVars...)
	n.decs = nil
	n.lits = make(map[int64]bool, len(st.lits))
	for k := range st.lits {
		n.lits[k] = true
	}
	n.forced = nil
	if st.bind != nil {
		n.bind = make(map[string]*big.Int, len(st.bind))
		for k, v := range st.bind {
			n.bind[k] = v
		}
	}
	if st.dom != nil {
		n.dom = make(map[string][4]uint64, len(st.dom))
		for k, v := range st.dom {
			n.dom[k] = v
		}
	}
	if st.coupled != nil {
		n.coupled = make(map[string]bool, len(st.coupled))
		for k, v := range st.coupled {
			n.coupled[k] = v
		}
	}
	if st.extra != nil {
		n.extra = make(map[string]interface{}, len(st.extra))
		for k, v := range st.extra {
			n.extra[k] = v
		}
	}
	return &n
}

func (st *State) addPC(c *Term) {
	if c.IsTrue() {
		return
	}
	if st.model != nil && !st.evalTrue(c) {
		st.model = nil
	}
	if c.Op == OAnd {
		for _, a := range c.Args {
			st.pc = append(st.pc, a)
			st.lits[a.ID] = true
			st.learn(a)
		}
		return
	}
	st.pc = append(st.pc, c)
	st.lits[c.ID] = true
	st.learn(c)
}

// subst replaces pinned variables by their values (constructors fold the result).
func (st *State) subst(t *Term) *Term {
	if len(st.bind) == 0 || t.IsConst() {
		return t
	}
	return substTerm(t, st.bind, map[int64]*Term{})
}

func substTerm(t *Term, bind map[string]*big.Int, cache map[int64]*Term) *Term {
	if t.Op == OConst {
		return t
	}
	if r, ok := cache[t.ID]; ok {
		return r
	}
	r := t
	if t.Op == OVar {
		if v, ok := bind[t.Name]; ok {
			switch t.S.K {
			case KBool:
				r = BoolConst(v.Sign() != 0)
			case KInt:
				r = IntConst(v)
			default:
				r = BVConst(v, t.S.W)
			}
		}
	} else if len(t.Args) > 0 {
		changed := false
		args := make([]*Term, len(t.Args))
		for i, a := range t.Args {
			args[i] = substTerm(a, bind, cache)
			if args[i] != a {
				changed = true
			}
		}
		if changed {
			r = rebuild(t, args)
		}
	}
	cache[t.ID] = r
	return r
}

// domainOf returns the value set of a small variable (all values when nothing is known yet).
func (st *State) domainOf(v *Term) [4]uint64 {
	if d, ok := st.dom[v.Name]; ok {
		return d
	}
	var d [4]uint64
	n := 1 << uint(v.S.W)
	for i := 0; i < n; i++ {
		d[i>>6] |= 1 << uint(i&63)
	}
	return d
}

// filterDomain keeps the values of v under which c evaluates to true.
func filterDomain(d [4]uint64, v *Term, c *Term) (r [4]uint64, count int, last int) {
	model := map[string]*big.Int{}
	for i := 0; i < 1<<uint(v.S.W); i++ {
		if d[i>>6]&(1<<uint(i&63)) == 0 {
			continue
		}
		model[v.Name] = big.NewInt(int64(i))
		if evalTerm(c, model, map[int64]*Term{}).IsTrue() {
			r[i>>6] |= 1 << uint(i&63)
			count++
			last = i
		}
	}
	return
}

// learn maintains the value sets of variables of at most 8 bits and pins a variable when
// a single value remains.
func (st *State) learn(c *Term) {
	if dbgOff["learn"] {
		return
	}
	c = st.subst(c)
	v := soleVar(c)
	if v == nil {
		if c.IsConst() {
			return
		}
		var vs []*Term
		collectVars(c, map[int64]bool{}, &vs)
		for _, x := range vs {
			if x.S.K == KBV && x.S.W <= 8 {
				if st.coupled == nil {
					st.coupled = map[string]bool{}
				}
				st.coupled[x.Name] = true
			}
		}
		return
	}
	if v.S.K != KBV || v.S.W > 8 {
		return
	}
	if _, done := st.bind[v.Name]; done {
		return
	}
	d, count, last := filterDomain(st.domainOf(v), v, c)
	if st.dom == nil {
		st.dom = map[string][4]uint64{}
	}
	st.dom[v.Name] = d
	if count == 1 {
		if st.bind == nil {
			st.bind = map[string]*big.Int{}
		}
		st.bind[v.Name] = big.NewInt(int64(last))
	}
}
func (st *State) curG() *G { return st.gs[st.cur] }

var objCounter int64

func newObj(t types.Type, name string) *Obj {
	return &Obj{ID: int(atomic.AddInt64(&objCounter, 1)), Typ: t, Name: name}
}

func (st *State) alloc(t types.Type, name string, v Value) *Obj {
	o := newObj(t, name)
	st.heap.set(o, v)
	return o
}

func (st *State) load(o *Obj) Value {
	v, ok := st.heap.get(o)
	if !ok {
		panic(fmt.Sprintf("load of unknown object #%d %s", o.ID, o.Name))
	}
	return v
}

func (st *State) store(o *Obj, v Value) {
	if st.frozen != nil && st.frozen[o] {
		panic(pathEnd{"FROZEN-WRITE", fmt.Sprintf("store into frozen object #%d %s (%v)", o.ID, o.Name, o.Typ)})
	}
	st.heap.set(o, v)
}

// pathEnd aborts the current path.
type pathEnd struct {
	status string
	msg    string
}

func unsupported(f string, a ...interface{}) {
	panic(pathEnd{"UNSUPPORTED", fmt.Sprintf(f, a...)})
}

// choiceString lists the case-split choices of this path (for diagnostics).
func (st *State) choiceString() string {
	var parts []string
	for _, in := range st.inputs {
		if in.Kind == "choose" {
			parts = append(parts, fmt.Sprintf("%s=%d", in.Name, in.Val))
		}
	}
	return strings.Join(parts, ",")
}
