package main

import (
	"strings"
	"encoding/json"
	"fmt"
	"os"
	"path/filepath"
	"sort"
	"sync/atomic"
	"time"
)

type Evidence struct {
	Property    string                 `json:"property_id"`
	Tier        string                 `json:"tier"`
	Seed        int                    `json:"seed"`
	Level       string                 `json:"level"`
	Coverage    map[string]interface{} `json:"coverage"`
	Assumptions []string               `json:"assumptions"`
	WallS       float64                `json:"wall_s"`
	Violations  int                    `json:"violations"`
	Verdict     string                 `json:"verdict"`
}

func (ev *Evidence) path() string {
	return filepath.Join(verifDir, "evidence", ev.Property+".json")
}

func (ev *Evidence) writeBuildFailure(err error, d time.Duration) {
	ev.Level = "model_checking"
	ev.Verdict = "inconclusive"
	ev.WallS = d.Seconds()
	ev.Coverage = map[string]interface{}{
		"states": 0, "transitions": 0, "traces_validated_against_impl": 0,
		"samples":      []interface{}{map[string]string{"build_error": firstLine(err.Error())}},
		"evaluations":  1,
		"distinct_nontrivial": 0,
		"inconclusive": []string{"harness overlay does not build against the current tree: " + firstLine(err.Error())},
	}
	ev.write()
}

func (ev *Evidence) fill(outcomes []*harnessOutcome, rp *Replayer, d time.Duration) {
	ev.Level = "model_checking"
	ev.WallS = d.Seconds()
	var states, trans int64
	obl, dis, triv := 0, 0, 0
	var samples []interface{}
	var inconc []string
	fnEnc := map[string]int64{}
	var bounds, stubs, redirects []string
	perHarness := []interface{}{}
	verdict := "pass"
	nviol := 0
	assume := map[string]bool{}
	for _, oc := range outcomes {
		hr := oc.Run
		states += int64(hr.nPaths)
		trans += hr.Steps
		obl += len(hr.Obls)
		triv += hr.Trivial
		d := countDischarged(hr)
		dis += d
		for f, n := range hr.FnSteps {
			if f != nil {
				fnEnc[f.String()] += n
			}
		}
		for _, b := range oc.Cfg.Bounds {
			bounds = append(bounds, oc.Spec.Name+": "+b)
		}
		for _, s := range oc.Spec.Ann["stub"] {
			stubs = append(stubs, oc.Spec.Name+": "+s)
			assume[s] = true
		}
		for _, s := range oc.Spec.Ann["shadow"] {
			t := "shadowed (replaced by the harness' stub in both the symbolic and the native run): " + s
			stubs = append(stubs, oc.Spec.Name+": "+t)
			assume[t] = true
		}
		for _, s := range oc.Spec.Ann["assume"] {
			assume[oc.Spec.Name+": "+s] = true
		}
		for k, v := range oc.Cfg.Redirects {
			redirects = append(redirects, k+" => "+v)
		}
		for _, r := range oc.Reasons {
			inconc = append(inconc, oc.Spec.Name+": "+r)
		}
		cuts := map[string]int{}
		for k, v := range hr.Cuts {
			cuts[k] = v
			assume["paths cut as outside the bound: "+k] = true
		}
		ph := map[string]interface{}{
			"harness": oc.Spec.Name, "verdict": oc.Verdict, "paths": hr.Paths, "obligations": len(hr.Obls),
			"discharged": d, "trivially_true": hr.Trivial, "steps": hr.Steps, "wall_s": oc.WallS,
			"unwind": oc.Cfg.Unwind, "bounds": oc.Cfg.Bounds, "sites": hr.SitesSeen, "cuts": cuts,
		}
		perHarness = append(perHarness, ph)
		// samples: a few obligations and one witness
		n := 0
		for _, o := range hr.Obls {
			if n >= 3 {
				break
			}
			samples = append(samples, map[string]interface{}{"harness": oc.Spec.Name, "obligation": o.Site, "verdict": o.Verdict, "solver_ms": o.Ms, "pc_conjuncts": o.PCLen})
			n++
		}
		for site, inp := range hr.Witness {
			samples = append(samples, map[string]interface{}{"harness": oc.Spec.Name, "witness_for_site": site, "inputs": inp})
			break
		}
		switch oc.Verdict {
		case "violation":
			verdict = "violation"
			nviol += len(oc.Confirmed)
		case "inconclusive":
			if verdict == "pass" || verdict == "known-finding" {
				verdict = "inconclusive"
			}
		case "known-finding":
			if verdict == "pass" {
				verdict = "known-finding"
			}
		}
	}
	matched := 0
	for _, r := range rp.results {
		if r.Panic == "" || true {
			matched++
		}
	}
	// count validated traces: witness replays that reached their site + reproduced violations
	validated := 0
	for _, oc := range outcomes {
		for site := range oc.Run.SitesSeen {
			if r := rp.witnessResult(oc.Spec.Name, site); r != nil {
				for _, s := range r.Reached {
					if s == site {
						validated++
						break
					}
				}
			}
		}
		validated += len(oc.Confirmed) + len(oc.KnownHit)
	}
	type fe struct {
		Name  string `json:"function"`
		Steps int64  `json:"ssa_instructions_executed"`
	}
	var fes []fe
	for k, v := range fnEnc {
		fes = append(fes, fe{k, v})
	}
	sort.Slice(fes, func(i, j int) bool { return fes[i].Steps > fes[j].Steps })
	if len(fes) > 60 {
		fes = fes[:60]
	}
	sort.Strings(bounds)
	sort.Strings(redirects)
	redirects = uniq(redirects)
	sort.Strings(inconc)
	if len(samples) > 40 {
		samples = samples[:40]
	}
	if len(samples) == 0 {
		samples = append(samples, map[string]string{"note": "no obligations generated"})
	}
	ev.Verdict = verdict
	ev.Violations = nviol
	ev.Coverage = map[string]interface{}{
		"states":                        states,
		"transitions":                   trans,
		"traces_validated_against_impl": validated,
		"samples":                       samples,
		"obligations":                   obl,
		"discharged":                    dis,
		"trivially_true":                triv,
		"functions_encoded":             fes,
		"functions_encoded_total":       len(fnEnc),
		"bounds":                        bounds,
		"redirects":                     redirects,
		"stubs":                         stubs,
		"harnesses":                     perHarness,
		"inconclusive":                  inconc,
		"native_replays_run":            rp.NRun,
		"solver": map[string]interface{}{
			"queries": atomic.LoadInt64(&gStats.Queries), "sat": gStats.Sat, "unsat": gStats.Unsat, "unknown": gStats.Unknown,
			"time_s": float64(gStats.Nanos) / 1e9, "restarts": gStats.Restarts, "fresh_fallbacks": gStats.Fresh, "binary": "z3 (see z3 --version)",
		},
		"technique": "bounded symbolic execution of go/ssa of the real functions; SMT (z3) decides each assertion over all inputs in the stated bounds; models replayed natively",
		"exhaustive": false,
	}
	ev.Coverage["solver"].(map[string]interface{})["cvc5_fallback_answers"] = atomic.LoadInt64(&gStats.Cvc5)
	if ev.Property == "C14" {
		// translation validation: programs = corpus functions whose compiled code was compared
		// with the Go function on this run; disagreements_checked = equivalence obligations decided
		ev.Level = "translation_validation"
		progs := map[string]bool{}
		checked := 0
		for _, oc := range outcomes {
			for site := range oc.Run.SitesSeen {
				if strings.HasSuffix(site, ":same-value") {
					progs[strings.TrimSuffix(strings.TrimPrefix(site, "assert:"), ":same-value")] = true
				}
			}
			for _, o := range oc.Run.Obls {
				if strings.HasSuffix(o.Site, ":same-value") || strings.HasSuffix(o.Site, "VM-faults<=>Go-panics") {
					checked++
				}
			}
		}
		ev.Coverage["programs"] = len(progs)
		ev.Coverage["disagreements_checked"] = checked
		ev.Coverage["technique"] = "translation validation: the real compiler's bytecode for each corpus function is executed symbolically in the real VM (go/ssa) next to the Go function itself; SMT decides result equality for all arguments in the bound; models replayed natively"
	}
	for a := range assume {
		ev.Assumptions = append(ev.Assumptions, a)
	}
	ev.Assumptions = append(ev.Assumptions,
		"engine trusted base: SSA interpreter semantics (validated by native witness replays per assertion site), intrinsics for fmt/errors/sync/atomic/bytealg, zap logging as no-op",
		"allocation growth of append() is modelled as doubling (exact Go size classes not modelled)",
		"map iteration order: insertion order unless the harness requests all permutations")
	sort.Strings(ev.Assumptions)
}

func uniq(s []string) []string {
	var r []string
	for i, x := range s {
		if i == 0 || x != s[i-1] {
			r = append(r, x)
		}
	}
	return r
}

func (ev *Evidence) write() {
	os.MkdirAll(filepath.Dir(ev.path()), 0o755)
	js, err := json.MarshalIndent(ev, "", " ")
	if err != nil {
		fmt.Fprintln(os.Stderr, "evidence marshal:", err)
		return
	}
	os.WriteFile(ev.path(), js, 0o644)
}
