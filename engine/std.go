package main

import (
	"fmt"
	"go/types"
	"math/big"
	"strings"
	"time"

	"golang.org/x/tools/go/ssa"
)

type bigInt = big.Int

func pow2(n int) *big.Int { return new(big.Int).Lsh(bigOne, uint(n)) }

func nowMs() int64 { return time.Now().UnixMilli() }

func noop(w *Worker, g *G, fr *Frame, fn *ssa.Function, a []Value) (Value, ctl) {
	res := fn.Signature.Results()
	switch res.Len() {
	case 0:
		return nil, ctlNext
	case 1:
		return w.e.zero(res.At(0).Type()), ctlNext
	}
	return w.e.zero(res), ctlNext
}

func (w *Worker) pkgType(pkg, name string) types.Type {
	p := w.e.prog.ImportedPackage(pkg)
	if p == nil {
		unsupported("package %s not loaded", pkg)
	}
	t := p.Type(name)
	if t == nil {
		unsupported("type %s.%s not found", pkg, name)
	}
	return t.Type()
}

// newError builds an opaque error value; if wrapped is non-nil it unwraps to it.
func (w *Worker) newError(msg string, wrapped Value) Value {
	if wrapped != nil {
		wt := w.pkgType("fmt", "wrapError")
		o := w.st.alloc(wt, "wrapError", &StructV{[]Value{mkString(msg), wrapped}})
		return IfaceV{T: types.NewPointer(wt), V: PtrV{O: o}}
	}
	et := w.pkgType("errors", "errorString")
	o := w.st.alloc(et, "errorString", &StructV{[]Value{mkString(msg)}})
	return IfaceV{T: types.NewPointer(et), V: PtrV{O: o}}
}

// fmtArgs renders the variadic args of a fmt call when concrete.
func (w *Worker) sprintf(format string, args []Value) string {
	var goArgs []interface{}
	for _, a := range args {
		goArgs = append(goArgs, w.goValue(a))
	}
	return fmt.Sprintf(format, goArgs...)
}

type opaque struct{ s string }

func (o opaque) String() string { return o.s }
func (o opaque) Error() string  { return o.s }
func (o opaque) Format(f fmt.State, c rune) {
	fmt.Fprint(f, o.s)
}

// goValue converts a concrete engine value into a Go value for formatting.
func (w *Worker) goValue(v Value) interface{} {
	switch x := v.(type) {
	case *Term:
		if x.IsConst() {
			switch x.S.K {
			case KBool:
				return x.IsTrue()
			case KBV:
				if x.S.W <= 64 {
					return x.Uint64()
				}
				return x.C
			default:
				return x.C
			}
		}
		return opaque{"<sym>"}
	case StringV:
		return x.Go()
	case IfaceV:
		if x.T == nil {
			return nil
		}
		// signed integers need their type
		if b, ok := underlying(x.T).(*types.Basic); ok && b.Info()&types.IsInteger != 0 {
			if t, ok := x.V.(*Term); ok && t.IsConst() {
				if b.Info()&types.IsUnsigned == 0 {
					return t.Int64()
				}
				return t.Uint64()
			}
		}
		if s, ok := x.V.(SliceV); ok {
			if sl, ok := underlying(x.T).(*types.Slice); ok {
				if b, ok := underlying(sl.Elem()).(*types.Basic); ok && b.Kind() == types.Uint8 {
					bs := w.sliceBytes(s)
					out := make([]byte, len(bs))
					for i, t := range bs {
						if !t.IsConst() {
							return opaque{"<symbytes>"}
						}
						out[i] = byte(t.Uint64())
					}
					return out
				}
			}
		}
		if _, ok := x.V.(PtrV); ok {
			return opaque{"<" + x.T.String() + ">"}
		}
		return w.goValue(x.V)
	case *BigV:
		if x.T.IsConst() {
			return x.T.C
		}
		return opaque{"<symbig>"}
	}
	return opaque{"<" + fmt.Sprintf("%T", v) + ">"}
}

func (w *Worker) variadic(v Value) []Value {
	s, ok := v.(SliceV)
	if !ok {
		return nil
	}
	return w.sliceElems(s)
}

func registerStdIntrinsics(in map[string]Intrinsic) {
	in["fmt.Errorf"] = func(w *Worker, g *G, fr *Frame, fn *ssa.Function, a []Value) (Value, ctl) {
		format := a[0].(StringV).Go()
		args := w.variadic(a[1])
		var wrapped Value
		if strings.Contains(format, "%w") {
			for _, x := range args {
				if iv, ok := x.(IfaceV); ok && iv.T != nil && types.Implements(iv.T, w.e.errorType.Underlying().(*types.Interface)) {
					wrapped = iv
					break
				}
			}
		}
		return w.newError(format, wrapped), ctlNext
	}
	in["errors.New"] = func(w *Worker, g *G, fr *Frame, fn *ssa.Function, a []Value) (Value, ctl) {
		return w.newError(a[0].(StringV).Go(), nil), ctlNext
	}
	in["fmt.Sprintf"] = func(w *Worker, g *G, fr *Frame, fn *ssa.Function, a []Value) (Value, ctl) {
		return mkString(w.sprintf(a[0].(StringV).Go(), w.variadic(a[1]))), ctlNext
	}
	in["fmt.Sprint"] = func(w *Worker, g *G, fr *Frame, fn *ssa.Function, a []Value) (Value, ctl) {
		var ga []interface{}
		for _, x := range w.variadic(a[0]) {
			ga = append(ga, w.goValue(x))
		}
		return mkString(fmt.Sprint(ga...)), ctlNext
	}
	in["fmt.Sprintln"] = in["fmt.Sprint"]
	for _, n := range []string{"fmt.Println", "fmt.Printf", "fmt.Print", "fmt.Fprintf", "fmt.Fprintln", "fmt.Fprint",
		"log.Printf", "log.Println", "log.Print"} {
		in[n] = noop
	}
	// zap logging: all no-ops
	for _, m := range []string{"Debug", "Info", "Warn", "Error", "DPanic"} {
		in["(*go.uber.org/zap.Logger)."+m] = noop
	}
	in["(*go.uber.org/zap.Logger).Panic"] = func(w *Worker, g *G, fr *Frame, fn *ssa.Function, a []Value) (Value, ctl) {
		w.raise(g, IfaceV{T: types.Typ[types.String], V: a[1]})
		return nil, ctlStay
	}
	in["(*go.uber.org/zap.Logger).Fatal"] = in["(*go.uber.org/zap.Logger).Panic"]
	for _, n := range []string{"String", "Int", "Uint32", "Uint64", "Int64", "Error", "Stringer", "Any", "Bool", "Int32",
		"Uint16", "Uint8", "Uint", "Duration", "Time", "Strings", "Float64", "NamedError", "ByteString", "Binary", "Stack", "Reflect", "Array", "Object", "Skip", "Int16", "Int8"} {
		in["go.uber.org/zap."+n] = noop
	}
	in["go.uber.org/zap.NewNop"] = func(w *Worker, g *G, fr *Frame, fn *ssa.Function, a []Value) (Value, ctl) {
		t := fn.Signature.Results().At(0).Type().(*types.Pointer).Elem()
		o := w.st.alloc(t, "zap.Logger", w.e.zero(t))
		return PtrV{O: o}, ctlNext
	}
	in["(*go.uber.org/zap.Logger).With"] = func(w *Worker, g *G, fr *Frame, fn *ssa.Function, a []Value) (Value, ctl) {
		return a[0], ctlNext
	}
	in["(*go.uber.org/zap.Logger).Sync"] = noop

	// bytealg
	in["internal/bytealg.Compare"] = func(w *Worker, g *G, fr *Frame, fn *ssa.Function, a []Value) (Value, ctl) {
		return bytesCompare(w.sliceBytes(a[0].(SliceV)), w.sliceBytes(a[1].(SliceV))), ctlNext
	}
	in["internal/bytealg.CompareString"] = func(w *Worker, g *G, fr *Frame, fn *ssa.Function, a []Value) (Value, ctl) {
		return bytesCompare(a[0].(StringV).Bytes(), a[1].(StringV).Bytes()), ctlNext
	}
	in["bytes.Compare"] = in["internal/bytealg.Compare"]
	in["strings.Compare"] = in["internal/bytealg.CompareString"]
	in["internal/bytealg.Equal"] = func(w *Worker, g *G, fr *Frame, fn *ssa.Function, a []Value) (Value, ctl) {
		return bytesEq(w.sliceBytes(a[0].(SliceV)), w.sliceBytes(a[1].(SliceV))), ctlNext
	}
	in["bytes.Equal"] = in["internal/bytealg.Equal"]
	idxByte := func(bs []*Term, c *Term) *Term {
		res := BVi(-1, 64)
		for i := len(bs) - 1; i >= 0; i-- {
			res = Ite(Eq(bs[i], c), BVi(int64(i), 64), res)
		}
		return res
	}
	in["internal/bytealg.IndexByte"] = func(w *Worker, g *G, fr *Frame, fn *ssa.Function, a []Value) (Value, ctl) {
		return idxByte(w.sliceBytes(a[0].(SliceV)), a[1].(*Term)), ctlNext
	}
	in["bytes.IndexByte"] = in["internal/bytealg.IndexByte"]
	in["internal/bytealg.IndexByteString"] = func(w *Worker, g *G, fr *Frame, fn *ssa.Function, a []Value) (Value, ctl) {
		return idxByte(a[0].(StringV).Bytes(), a[1].(*Term)), ctlNext
	}
	in["strings.IndexByte"] = in["internal/bytealg.IndexByteString"]
	in["internal/bytealg.Count"] = func(w *Worker, g *G, fr *Frame, fn *ssa.Function, a []Value) (Value, ctl) {
		res := BVi(0, 64)
		for _, b := range w.sliceBytes(a[0].(SliceV)) {
			res = BvBin(OBvAdd, res, Ite(Eq(b, a[1].(*Term)), BVi(1, 64), BVi(0, 64)))
		}
		return res, ctlNext
	}
	in["internal/bytealg.CountString"] = func(w *Worker, g *G, fr *Frame, fn *ssa.Function, a []Value) (Value, ctl) {
		res := BVi(0, 64)
		for _, b := range a[0].(StringV).Bytes() {
			res = BvBin(OBvAdd, res, Ite(Eq(b, a[1].(*Term)), BVi(1, 64), BVi(0, 64)))
		}
		return res, ctlNext
	}
	in["strings.Index"] = func(w *Worker, g *G, fr *Frame, fn *ssa.Function, a []Value) (Value, ctl) {
		s, sub := a[0].(StringV), a[1].(StringV)
		if !s.Concrete() || !sub.Concrete() {
			unsupported("strings.Index on symbolic strings")
		}
		return BVi(int64(strings.Index(s.Go(), sub.Go())), 64), ctlNext
	}
	in["strings.Contains"] = func(w *Worker, g *G, fr *Frame, fn *ssa.Function, a []Value) (Value, ctl) {
		s, sub := a[0].(StringV), a[1].(StringV)
		if !s.Concrete() || !sub.Concrete() {
			unsupported("strings.Contains on symbolic strings")
		}
		return BoolConst(strings.Contains(s.Go(), sub.Go())), ctlNext
	}
	// sync
	lock := func(write bool) Intrinsic {
		return func(w *Worker, g *G, fr *Frame, fn *ssa.Function, a []Value) (Value, ctl) {
			p := a[0].(PtrV)
			if p.O == nil {
				w.raise(g, w.rtError("nil mutex"))
				return nil, ctlStay
			}
			key := lockKey(p)
			cur := w.lockState(key)
			if write {
				if cur != 0 {
					return nil, w.block(g, "lock "+key)
				}
				w.setLock(key, -1)
			} else {
				if cur < 0 {
					return nil, w.block(g, "rlock "+key)
				}
				w.setLock(key, cur+1)
			}
			w.yieldPoint()
			return nil, ctlNext
		}
	}
	unlock := func(write bool) Intrinsic {
		return func(w *Worker, g *G, fr *Frame, fn *ssa.Function, a []Value) (Value, ctl) {
			p := a[0].(PtrV)
			key := lockKey(p)
			cur := w.lockState(key)
			if write {
				if cur != -1 {
					w.raise(g, w.rtError("sync: unlock of unlocked mutex"))
					return nil, ctlStay
				}
				w.setLock(key, 0)
			} else {
				if cur <= 0 {
					w.raise(g, w.rtError("sync: RUnlock of unlocked RWMutex"))
					return nil, ctlStay
				}
				w.setLock(key, cur-1)
			}
			w.wakeAll()
			w.yieldPoint()
			return nil, ctlNext
		}
	}
	in["(*sync.Mutex).Lock"] = lock(true)
	in["(*sync.Mutex).Unlock"] = unlock(true)
	in["(*sync.RWMutex).Lock"] = lock(true)
	in["(*sync.RWMutex).Unlock"] = unlock(true)
	in["(*sync.RWMutex).RLock"] = lock(false)
	in["(*sync.RWMutex).RUnlock"] = unlock(false)
	in["(*sync.Mutex).TryLock"] = func(w *Worker, g *G, fr *Frame, fn *ssa.Function, a []Value) (Value, ctl) {
		key := lockKey(a[0].(PtrV))
		if w.lockState(key) != 0 {
			return TFalse, ctlNext
		}
		w.setLock(key, -1)
		return TTrue, ctlNext
	}
	in["(*sync.WaitGroup).Add"] = func(w *Worker, g *G, fr *Frame, fn *ssa.Function, a []Value) (Value, ctl) {
		key := "wg:" + lockKey(a[0].(PtrV))
		w.setLock(key, w.lockState(key)+constInt(a[1]))
		w.wakeAll()
		return nil, ctlNext
	}
	in["(*sync.WaitGroup).Done"] = func(w *Worker, g *G, fr *Frame, fn *ssa.Function, a []Value) (Value, ctl) {
		key := "wg:" + lockKey(a[0].(PtrV))
		w.setLock(key, w.lockState(key)-1)
		w.wakeAll()
		return nil, ctlNext
	}
	in["(*sync.WaitGroup).Wait"] = func(w *Worker, g *G, fr *Frame, fn *ssa.Function, a []Value) (Value, ctl) {
		key := "wg:" + lockKey(a[0].(PtrV))
		if w.lockState(key) > 0 {
			return nil, w.block(g, "waitgroup")
		}
		return nil, ctlNext
	}
	in["(*sync.Once).Do"] = func(w *Worker, g *G, fr *Frame, fn *ssa.Function, a []Value) (Value, ctl) {
		key := "once:" + lockKey(a[0].(PtrV))
		if w.lockState(key) != 0 {
			return nil, ctlNext
		}
		w.setLock(key, 1)
		// call f(); result discarded: emulate by pushing frame whose return advances pc
		instr := fr.block.Instrs[fr.pc]
		return nil, w.callValue(g, fr, instr, a[1], nil, kindCall)
	}
	in["(*sync.Pool).Get"] = func(w *Worker, g *G, fr *Frame, fn *ssa.Function, a []Value) (Value, ctl) {
		p := a[0].(PtrV)
		pool := getPath(w.st.load(p.O), p.Path).(*StructV)
		st := underlying(p.O.Typ)
		if len(p.Path) > 0 {
			st = underlying(fn.Signature.Recv().Type().(*types.Pointer).Elem())
		}
		sst := st.(*types.Struct)
		for i := 0; i < sst.NumFields(); i++ {
			if sst.Field(i).Name() == "New" {
				nf, _ := pool.F[i].(*FuncV)
				if nf == nil {
					return IfaceV{}, ctlNext
				}
				instr := fr.block.Instrs[fr.pc]
				return nil, w.callValue(g, fr, instr, nf, nil, kindCall)
			}
		}
		return IfaceV{}, ctlNext
	}
	in["(*sync.Pool).Put"] = noop
	// atomics as plain memory operations
	for _, tn := range []string{"Int32", "Int64", "Uint32", "Uint64", "Bool", "Uintptr"} {
		tn := tn
		pre := "(*sync/atomic." + tn + ")."
		in[pre+"Load"] = func(w *Worker, g *G, fr *Frame, fn *ssa.Function, a []Value) (Value, ctl) {
			v := w.atomicField(g, a[0].(PtrV), tn)
			if v == nil {
				return nil, ctlStay
			}
			return v, ctlNext
		}
		in[pre+"Store"] = func(w *Worker, g *G, fr *Frame, fn *ssa.Function, a []Value) (Value, ctl) {
			w.atomicSet(g, a[0].(PtrV), tn, a[1])
			return nil, ctlNext
		}
		in[pre+"Add"] = func(w *Worker, g *G, fr *Frame, fn *ssa.Function, a []Value) (Value, ctl) {
			v := w.atomicField(g, a[0].(PtrV), tn).(*Term)
			nv := BvBin(OBvAdd, v, a[1].(*Term))
			w.atomicSet(g, a[0].(PtrV), tn, nv)
			return nv, ctlNext
		}
		in[pre+"Swap"] = func(w *Worker, g *G, fr *Frame, fn *ssa.Function, a []Value) (Value, ctl) {
			v := w.atomicField(g, a[0].(PtrV), tn)
			w.atomicSet(g, a[0].(PtrV), tn, a[1])
			return v, ctlNext
		}
		in[pre+"CompareAndSwap"] = func(w *Worker, g *G, fr *Frame, fn *ssa.Function, a []Value) (Value, ctl) {
			v := w.atomicField(g, a[0].(PtrV), tn)
			eq := w.valueEq(v, a[1])
			if w.decide(eq, "cas") {
				w.atomicSet(g, a[0].(PtrV), tn, a[2])
				return TTrue, ctlNext
			}
			return TFalse, ctlNext
		}
	}
	for _, tn := range []string{"Int32", "Int64", "Uint32", "Uint64", "Uintptr"} {
		in["sync/atomic.Load"+tn] = func(w *Worker, g *G, fr *Frame, fn *ssa.Function, a []Value) (Value, ctl) {
			v := w.loadPtr(g, a[0])
			if v == nil {
				return nil, ctlStay
			}
			return v, ctlNext
		}
		in["sync/atomic.Store"+tn] = func(w *Worker, g *G, fr *Frame, fn *ssa.Function, a []Value) (Value, ctl) {
			if !w.storePtr(g, a[0], a[1]) {
				return nil, ctlStay
			}
			return nil, ctlNext
		}
		in["sync/atomic.Add"+tn] = func(w *Worker, g *G, fr *Frame, fn *ssa.Function, a []Value) (Value, ctl) {
			v := w.loadPtr(g, a[0])
			if v == nil {
				return nil, ctlStay
			}
			nv := BvBin(OBvAdd, v.(*Term), a[1].(*Term))
			w.storePtr(g, a[0], nv)
			return nv, ctlNext
		}
		in["sync/atomic.CompareAndSwap"+tn] = func(w *Worker, g *G, fr *Frame, fn *ssa.Function, a []Value) (Value, ctl) {
			v := w.loadPtr(g, a[0])
			if v == nil {
				return nil, ctlStay
			}
			if w.decide(w.valueEq(v, a[1]), "cas") {
				w.storePtr(g, a[0], a[2])
				return TTrue, ctlNext
			}
			return TFalse, ctlNext
		}
	}
	in["(*sync/atomic.Value).Load"] = func(w *Worker, g *G, fr *Frame, fn *ssa.Function, a []Value) (Value, ctl) {
		p := a[0].(PtrV)
		s := getPath(w.st.load(p.O), p.Path).(*StructV)
		return s.F[0], ctlNext
	}
	in["(*sync/atomic.Value).Swap"] = func(w *Worker, g *G, fr *Frame, fn *ssa.Function, a []Value) (Value, ctl) {
		p := a[0].(PtrV)
		s := getPath(w.st.load(p.O), p.Path).(*StructV)
		old := s.F[0]
		w.storePtr(g, PtrV{O: p.O, Path: appendPath(p.Path, 0)}, a[1])
		return old, ctlNext
	}
	in["(*sync/atomic.Value).Store"] = func(w *Worker, g *G, fr *Frame, fn *ssa.Function, a []Value) (Value, ctl) {
		p := a[0].(PtrV)
		w.storePtr(g, PtrV{O: p.O, Path: appendPath(p.Path, 0)}, a[1])
		return nil, ctlNext
	}
	in["(*strings.Builder).copyCheck"] = noop
	in["slices.overlaps"] = func(w *Worker, g *G, fr *Frame, fn *ssa.Function, a []Value) (Value, ctl) {
		x, y := a[0].(SliceV), a[1].(SliceV)
		if x.O == nil || y.O == nil || x.O != y.O || x.Len == 0 || y.Len == 0 {
			return TFalse, ctlNext
		}
		if len(x.Path) != len(y.Path) {
			return TFalse, ctlNext
		}
		for i := range x.Path {
			if x.Path[i] != y.Path[i] {
				return TFalse, ctlNext
			}
		}
		return BoolConst(x.Off < y.Off+y.Len && y.Off < x.Off+x.Len), ctlNext
	}
	// maps.clone (linknamed to the runtime): a new map object with the same entries
	in["maps.clone"] = func(w *Worker, g *G, fr *Frame, fn *ssa.Function, a []Value) (Value, ctl) {
		iv, ok := a[0].(IfaceV)
		if !ok {
			unsupported("maps.clone of %s", showValue(a[0]))
		}
		m, ok := iv.V.(MapV)
		if !ok {
			unsupported("maps.clone of %s", showValue(iv.V))
		}
		if m.O == nil {
			return iv, ctlNext
		}
		md := w.st.load(m.O).(*MapData)
		nd := &MapData{K: append([]Value(nil), md.K...), V: append([]Value(nil), md.V...)}
		o := w.st.alloc(m.O.Typ, "map", nd)
		return IfaceV{T: iv.T, V: MapV{o}}, ctlNext
	}
	in["runtime.KeepAlive"] = noop
	in["runtime.GC"] = noop
	in["runtime.Gosched"] = noop
	in["runtime.SetFinalizer"] = noop
	in["time.Now"] = func(w *Worker, g *G, fr *Frame, fn *ssa.Function, a []Value) (Value, ctl) {
		return w.e.zero(fn.Signature.Results().At(0).Type()), ctlNext
	}
	in["time.Since"] = func(w *Worker, g *G, fr *Frame, fn *ssa.Function, a []Value) (Value, ctl) {
		return BVi(0, 64), ctlNext
	}
	in["(time.Time).Sub"] = in["time.Since"]
	in["(time.Time).UnixMilli"] = in["time.Since"]
	in["(time.Time).UnixNano"] = in["time.Since"]
	in["(time.Time).Unix"] = in["time.Since"]
}

func lockKey(p PtrV) string { return fmt.Sprintf("%d%v", p.O.ID, p.Path) }

func (w *Worker) lockState(key string) int {
	if w.st.extra == nil {
		return 0
	}
	v, _ := w.st.extra["lock:"+key].(int)
	return v
}
func (w *Worker) setLock(key string, v int) {
	w.st.extra = setExtra(w.st.extra, "lock:"+key, v)
}

// atomic.Int32 etc are structs whose value field is named "v".
func (w *Worker) atomicFieldIdx(p PtrV, tn string) int {
	t := w.pkgType("sync/atomic", tn)
	st := underlying(t).(*types.Struct)
	for i := 0; i < st.NumFields(); i++ {
		if st.Field(i).Name() == "v" {
			return i
		}
	}
	panic("atomic field v not found")
}

func (w *Worker) atomicField(g *G, p PtrV, tn string) Value {
	if p.O == nil {
		w.raise(g, w.rtError("nil atomic"))
		return nil
	}
	i := w.atomicFieldIdx(p, tn)
	v := w.loadPtr(g, PtrV{O: p.O, Path: appendPath(p.Path, i)})
	if tn == "Bool" {
		return Ne(v.(*Term), BVu(0, 32))
	}
	return v
}

func (w *Worker) atomicSet(g *G, p PtrV, tn string, v Value) {
	i := w.atomicFieldIdx(p, tn)
	if tn == "Bool" {
		v = Ite(v.(*Term), BVu(1, 32), BVu(0, 32))
	}
	w.storePtr(g, PtrV{O: p.O, Path: appendPath(p.Path, i)}, v)
}
