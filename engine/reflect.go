package main

// A small model of package reflect sufficient for neo-go's io helpers
// (GetVarSize, ReadArray, WriteArray). reflect.Value is represented by *ReflV.

import (
	"go/types"

	"golang.org/x/tools/go/ssa"
)

type ReflV struct {
	T    types.Type
	V    Value // the value (when not addressable)
	Addr *PtrV // location (when addressable)
}

type RTypeV struct{ T types.Type }

func reflKind(t types.Type) int64 {
	switch u := underlying(t).(type) {
	case *types.Basic:
		switch u.Kind() {
		case types.Bool:
			return 1
		case types.Int:
			return 2
		case types.Int8:
			return 3
		case types.Int16:
			return 4
		case types.Int32:
			return 5
		case types.Int64:
			return 6
		case types.Uint:
			return 7
		case types.Uint8:
			return 8
		case types.Uint16:
			return 9
		case types.Uint32:
			return 10
		case types.Uint64:
			return 11
		case types.Uintptr:
			return 12
		case types.Float32:
			return 13
		case types.Float64:
			return 14
		case types.String:
			return 24
		case types.UnsafePointer:
			return 26
		}
	case *types.Array:
		return 17
	case *types.Chan:
		return 18
	case *types.Signature:
		return 19
	case *types.Interface:
		return 20
	case *types.Map:
		return 21
	case *types.Pointer:
		return 22
	case *types.Slice:
		return 23
	case *types.Struct:
		return 25
	}
	return 0
}

func (w *Worker) reflGet(g *G, r *ReflV) Value {
	if r.Addr != nil {
		return w.loadPtr(g, *r.Addr)
	}
	return r.V
}

func (w *Worker) rtypeIface(t types.Type) Value {
	rt := w.pkgType("reflect", "rtype")
	return IfaceV{T: types.NewPointer(rt), V: RTypeV{t}}
}

func registerReflectIntrinsics(in map[string]Intrinsic) {
	in["reflect.ValueOf"] = func(w *Worker, g *G, fr *Frame, fn *ssa.Function, a []Value) (Value, ctl) {
		iv := a[0].(IfaceV)
		if iv.T == nil {
			return &ReflV{}, ctlNext
		}
		return &ReflV{T: iv.T, V: iv.V}, ctlNext
	}
	in["reflect.TypeOf"] = func(w *Worker, g *G, fr *Frame, fn *ssa.Function, a []Value) (Value, ctl) {
		iv := a[0].(IfaceV)
		if iv.T == nil {
			return IfaceV{}, ctlNext
		}
		return w.rtypeIface(iv.T), ctlNext
	}
	rv := "(reflect.Value)."
	in[rv+"Kind"] = func(w *Worker, g *G, fr *Frame, fn *ssa.Function, a []Value) (Value, ctl) {
		r := a[0].(*ReflV)
		if r.T == nil {
			return BVu(0, 64), ctlNext
		}
		return BVu(uint64(reflKind(r.T)), 64), ctlNext
	}
	in[rv+"Type"] = func(w *Worker, g *G, fr *Frame, fn *ssa.Function, a []Value) (Value, ctl) {
		r := a[0].(*ReflV)
		return w.rtypeIface(r.T), ctlNext
	}
	in[rv+"IsValid"] = func(w *Worker, g *G, fr *Frame, fn *ssa.Function, a []Value) (Value, ctl) {
		return BoolConst(a[0].(*ReflV).T != nil), ctlNext
	}
	in[rv+"IsNil"] = func(w *Worker, g *G, fr *Frame, fn *ssa.Function, a []Value) (Value, ctl) {
		r := a[0].(*ReflV)
		switch x := w.reflGet(g, r).(type) {
		case PtrV:
			return BoolConst(x.O == nil), ctlNext
		case SliceV:
			return BoolConst(x.O == nil), ctlNext
		case MapV:
			return BoolConst(x.O == nil), ctlNext
		case IfaceV:
			return BoolConst(x.T == nil), ctlNext
		case *FuncV:
			return BoolConst(x == nil), ctlNext
		}
		unsupported("reflect IsNil")
		return nil, ctlNext
	}
	in[rv+"Elem"] = func(w *Worker, g *G, fr *Frame, fn *ssa.Function, a []Value) (Value, ctl) {
		r := a[0].(*ReflV)
		v := w.reflGet(g, r)
		switch x := v.(type) {
		case PtrV:
			if x.O == nil {
				return &ReflV{}, ctlNext
			}
			pt := underlying(r.T).(*types.Pointer)
			return &ReflV{T: pt.Elem(), Addr: &x}, ctlNext
		case IfaceV:
			if x.T == nil {
				return &ReflV{}, ctlNext
			}
			return &ReflV{T: x.T, V: x.V}, ctlNext
		}
		unsupported("reflect Elem on %s", showValue(v))
		return nil, ctlNext
	}
	in[rv+"Len"] = func(w *Worker, g *G, fr *Frame, fn *ssa.Function, a []Value) (Value, ctl) {
		r := a[0].(*ReflV)
		switch x := w.reflGet(g, r).(type) {
		case SliceV:
			return BVi(int64(x.Len), 64), ctlNext
		case *ArrayV:
			return BVi(int64(len(x.E)), 64), ctlNext
		case StringV:
			return BVi(int64(x.Len()), 64), ctlNext
		case MapV:
			if x.O == nil {
				return BVi(0, 64), ctlNext
			}
			return BVi(int64(len(w.mapData(x).K)), 64), ctlNext
		}
		unsupported("reflect Len")
		return nil, ctlNext
	}
	in[rv+"Index"] = func(w *Worker, g *G, fr *Frame, fn *ssa.Function, a []Value) (Value, ctl) {
		r := a[0].(*ReflV)
		i := constInt(a[1])
		switch x := w.reflGet(g, r).(type) {
		case SliceV:
			if i < 0 || i >= x.Len {
				w.raise(g, w.rtError("reflect: slice index out of range"))
				return nil, ctlStay
			}
			et := underlying(r.T).(*types.Slice).Elem()
			p := PtrV{O: x.O, Path: appendPath(x.Path, x.Off+i)}
			return &ReflV{T: et, Addr: &p}, ctlNext
		case *ArrayV:
			et := underlying(r.T).(*types.Array).Elem()
			if i < 0 || i >= len(x.E) {
				w.raise(g, w.rtError("reflect: array index out of range"))
				return nil, ctlStay
			}
			if r.Addr != nil {
				p := PtrV{O: r.Addr.O, Path: appendPath(r.Addr.Path, i)}
				return &ReflV{T: et, Addr: &p}, ctlNext
			}
			return &ReflV{T: et, V: x.E[i]}, ctlNext
		}
		unsupported("reflect Index")
		return nil, ctlNext
	}
	in[rv+"Addr"] = func(w *Worker, g *G, fr *Frame, fn *ssa.Function, a []Value) (Value, ctl) {
		r := a[0].(*ReflV)
		if r.Addr == nil {
			w.raise(g, w.rtError("reflect.Value.Addr of unaddressable value"))
			return nil, ctlStay
		}
		return &ReflV{T: types.NewPointer(r.T), V: *r.Addr}, ctlNext
	}
	in[rv+"Set"] = func(w *Worker, g *G, fr *Frame, fn *ssa.Function, a []Value) (Value, ctl) {
		r := a[0].(*ReflV)
		x := a[1].(*ReflV)
		if r.Addr == nil {
			w.raise(g, w.rtError("reflect.Value.Set using unaddressable value"))
			return nil, ctlStay
		}
		v := w.reflGet(g, x)
		if _, isI := underlying(r.T).(*types.Interface); isI {
			if _, srcI := underlying(x.T).(*types.Interface); !srcI {
				v = IfaceV{T: x.T, V: v}
			}
		}
		w.storePtr(g, *r.Addr, v)
		return nil, ctlNext
	}
	in[rv+"Interface"] = func(w *Worker, g *G, fr *Frame, fn *ssa.Function, a []Value) (Value, ctl) {
		r := a[0].(*ReflV)
		v := w.reflGet(g, r)
		if _, isI := underlying(r.T).(*types.Interface); isI {
			return v, ctlNext
		}
		return IfaceV{T: r.T, V: v}, ctlNext
	}
	in[rv+"String"] = func(w *Worker, g *G, fr *Frame, fn *ssa.Function, a []Value) (Value, ctl) {
		r := a[0].(*ReflV)
		if s, ok := w.reflGet(g, r).(StringV); ok {
			return s, ctlNext
		}
		return mkString("<" + r.T.String() + " Value>"), ctlNext
	}
	in[rv+"Int"] = func(w *Worker, g *G, fr *Frame, fn *ssa.Function, a []Value) (Value, ctl) {
		r := a[0].(*ReflV)
		return SExt(w.reflGet(g, r).(*Term), 64), ctlNext
	}
	in[rv+"Uint"] = func(w *Worker, g *G, fr *Frame, fn *ssa.Function, a []Value) (Value, ctl) {
		r := a[0].(*ReflV)
		return ZExt(w.reflGet(g, r).(*Term), 64), ctlNext
	}
	in[rv+"Bool"] = func(w *Worker, g *G, fr *Frame, fn *ssa.Function, a []Value) (Value, ctl) {
		r := a[0].(*ReflV)
		return w.reflGet(g, r), ctlNext
	}
	in["reflect.MakeSlice"] = func(w *Worker, g *G, fr *Frame, fn *ssa.Function, a []Value) (Value, ctl) {
		t := a[0].(IfaceV).V.(RTypeV).T
		v := w.makeSlice(g, t, a[1].(*Term), a[2].(*Term))
		if v == nil {
			return nil, ctlStay
		}
		return &ReflV{T: t, V: v}, ctlNext
	}
	in["reflect.New"] = func(w *Worker, g *G, fr *Frame, fn *ssa.Function, a []Value) (Value, ctl) {
		t := a[0].(IfaceV).V.(RTypeV).T
		o := w.st.alloc(t, "reflect.New", w.e.zero(t))
		return &ReflV{T: types.NewPointer(t), V: PtrV{O: o}}, ctlNext
	}
	in["reflect.Zero"] = func(w *Worker, g *G, fr *Frame, fn *ssa.Function, a []Value) (Value, ctl) {
		t := a[0].(IfaceV).V.(RTypeV).T
		return &ReflV{T: t, V: w.e.zero(t)}, ctlNext
	}
	in["reflect.TypeAssert"] = func(w *Worker, g *G, fr *Frame, fn *ssa.Function, a []Value) (Value, ctl) {
		r := a[0].(*ReflV)
		target := fn.TypeArgs()[0]
		v := w.reflGet(g, r)
		res := fn.Signature.Results()
		if it, isI := underlying(target).(*types.Interface); isI {
			dyn := r.T
			val := v
			if _, srcI := underlying(r.T).(*types.Interface); srcI {
				iv := v.(IfaceV)
				dyn, val = iv.T, iv.V
			}
			if dyn != nil && types.Implements(dyn, it) {
				return TupleV{IfaceV{T: dyn, V: val}, TTrue}, ctlNext
			}
			return TupleV{w.e.zero(res.At(0).Type()), TFalse}, ctlNext
		}
		if types.Identical(r.T, target) {
			return TupleV{v, TTrue}, ctlNext
		}
		return TupleV{w.e.zero(res.At(0).Type()), TFalse}, ctlNext
	}
	rt := "(*reflect.rtype)."
	in[rt+"Elem"] = func(w *Worker, g *G, fr *Frame, fn *ssa.Function, a []Value) (Value, ctl) {
		t := a[0].(RTypeV).T
		switch u := underlying(t).(type) {
		case *types.Pointer:
			return w.rtypeIface(u.Elem()), ctlNext
		case *types.Slice:
			return w.rtypeIface(u.Elem()), ctlNext
		case *types.Array:
			return w.rtypeIface(u.Elem()), ctlNext
		case *types.Map:
			return w.rtypeIface(u.Elem()), ctlNext
		case *types.Chan:
			return w.rtypeIface(u.Elem()), ctlNext
		}
		unsupported("rtype.Elem of %v", t)
		return nil, ctlNext
	}
	in[rt+"Kind"] = func(w *Worker, g *G, fr *Frame, fn *ssa.Function, a []Value) (Value, ctl) {
		return BVu(uint64(reflKind(a[0].(RTypeV).T)), 64), ctlNext
	}
	in[rt+"String"] = func(w *Worker, g *G, fr *Frame, fn *ssa.Function, a []Value) (Value, ctl) {
		return mkString(a[0].(RTypeV).T.String()), ctlNext
	}
	in[rt+"Name"] = func(w *Worker, g *G, fr *Frame, fn *ssa.Function, a []Value) (Value, ctl) {
		if n, ok := types.Unalias(a[0].(RTypeV).T).(*types.Named); ok {
			return mkString(n.Obj().Name()), ctlNext
		}
		return mkString(""), ctlNext
	}
}
