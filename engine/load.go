package main

import (
	"fmt"
	"go/ast"
	"go/parser"
	"go/token"
	"go/types"
	"os"
	"path/filepath"
	"regexp"
	"sort"
	"strconv"
	"strings"
	"time"

	"golang.org/x/tools/go/packages"
	"golang.org/x/tools/go/ssa"
	"golang.org/x/tools/go/ssa/ssautil"
)

const repoDir = "/repo"
const modPath = "github.com/nspcc-dev/neo-go"

type HarnessSpec struct {
	Name     string
	File     string // source file under /verif/harness
	PkgDir   string // relative to /repo
	PkgName  string
	Tier     string
	Ann      map[string][]string
	Doc      string
}

type HarnessFile struct {
	Src     string
	PkgDir  string
	PkgName string
	Virtual string // path under /repo
	Specs   []*HarnessSpec
}

var annRe = regexp.MustCompile(`^//vf:(\w+)\s*(.*)$`)

func parseHarnessFile(path string) (*HarnessFile, error) {
	fset := token.NewFileSet()
	f, err := parser.ParseFile(fset, path, nil, parser.ParseComments)
	if err != nil {
		return nil, err
	}
	hf := &HarnessFile{Src: path, PkgName: f.Name.Name}
	// file-level annotations: any comment line anywhere before package clause or in file doc
	fileAnn := map[string][]string{}
	for _, cg := range f.Comments {
		if cg.Pos() > f.Package {
			break
		}
		for _, c := range cg.List {
			if m := annRe.FindStringSubmatch(strings.TrimSpace(c.Text)); m != nil {
				fileAnn[m[1]] = append(fileAnn[m[1]], strings.TrimSpace(m[2]))
			}
		}
	}
	if p := fileAnn["pkg"]; len(p) > 0 {
		hf.PkgDir = p[0]
	} else {
		return nil, fmt.Errorf("%s: missing //vf:pkg", path)
	}
	base := strings.TrimSuffix(filepath.Base(path), ".go")
	hf.Virtual = filepath.Join(repoDir, hf.PkgDir, "zz_vf_"+base+".go")
	for _, d := range f.Decls {
		fd, ok := d.(*ast.FuncDecl)
		if !ok || fd.Recv != nil || !strings.HasPrefix(fd.Name.Name, "VF_") {
			continue
		}
		sp := &HarnessSpec{Name: fd.Name.Name, File: path, PkgDir: hf.PkgDir, PkgName: hf.PkgName, Tier: "quick", Ann: map[string][]string{}}
		for k, v := range fileAnn {
			if k != "pkg" {
				sp.Ann[k] = append(sp.Ann[k], v...)
			}
		}
		if fd.Doc != nil {
			for _, c := range fd.Doc.List {
				if m := annRe.FindStringSubmatch(strings.TrimSpace(c.Text)); m != nil {
					if m[1] == "redirect" || m[1] == "shadow" || m[1] == "bound" || m[1] == "stub" || m[1] == "assume" || m[1] == "encodes" {
						sp.Ann[m[1]] = append(sp.Ann[m[1]], strings.TrimSpace(m[2]))
					} else {
						sp.Ann[m[1]] = []string{strings.TrimSpace(m[2])}
					}
				}
			}
		}
		if t := sp.Ann["tier"]; len(t) > 0 {
			sp.Tier = t[0]
		}
		hf.Specs = append(hf.Specs, sp)
	}
	return hf, nil
}

func (sp *HarnessSpec) config(tier string, base Config) Config {
	c := base
	c.Redirects = map[string]string{}
	for k, v := range base.Redirects {
		c.Redirects[k] = v
	}
	geti := func(k string, def int) int {
		if v := sp.Ann[k]; len(v) > 0 {
			// allow "quick=N thorough=M" or plain N
			fs := strings.Fields(v[0])
			for _, f := range fs {
				if strings.HasPrefix(f, tier+"=") {
					n, _ := strconv.Atoi(strings.TrimPrefix(f, tier+"="))
					return n
				}
			}
			if n, err := strconv.Atoi(fs[0]); err == nil {
				return n
			}
		}
		return def
	}
	c.Unwind = geti("unwind", c.Unwind)
	c.MaxAlloc = geti("maxalloc", c.MaxAlloc)
	c.MaxSteps = int64(geti("maxsteps", int(c.MaxSteps)))
	c.MaxPaths = geti("maxpaths", c.MaxPaths)
	c.Concretize = geti("concretize", c.Concretize)
	if v := sp.Ann["timeout"]; len(v) > 0 {
		if n, err := strconv.Atoi(v[0]); err == nil {
			c.Timeout = time.Duration(n) * time.Second
		}
	}
	if wl := geti("wall", 0); wl > 0 {
		c.Wall = time.Duration(wl) * time.Second
	}
	if v := sp.Ann["sched"]; len(v) > 0 {
		fs := strings.Fields(v[0])
		c.Sched = fs[0]
		if len(fs) > 1 {
			c.SchedK, _ = strconv.Atoi(fs[1])
		}
	}
	if v := sp.Ann["bvints"]; len(v) > 0 {
		c.BVIntsOff = v[0] == "off"
	}
	if v := sp.Ann["symindex"]; len(v) > 0 {
		c.SymIndexFork = v[0] == "fork"
	}
	if v := sp.Ann["maporder"]; len(v) > 0 {
		c.MapOrder = v[0]
	}
	if v := sp.Ann["bigint"]; len(v) > 0 {
		c.TheoryBig = v[0] == "theory"
	}
	if v := sp.Ann["hash"]; len(v) > 0 {
		c.HashInj = strings.Contains(v[0], "injective")
	}
	if v := sp.Ann["accept"]; len(v) > 0 && strings.Contains(v[0], "panic") {
		c.AcceptPanic = true
	}
	for _, r := range sp.Ann["redirect"] {
		parts := strings.Split(r, "=>")
		if len(parts) == 2 {
			c.Redirects[strings.TrimSpace(parts[0])] = strings.TrimSpace(parts[1])
		}
	}
	c.Bounds = sp.Ann["bound"]
	return c
}

// rtSource generates the native runtime for package pkgName.
func rtSource(pkgName string) string {
	return strings.Replace(rtTemplate, "package PKG", "package "+pkgName, 1)
}

func replayTestSource(pkgName string, specs []*HarnessSpec) string {
	var sb strings.Builder
	fmt.Fprintf(&sb, "package %s\n\nimport \"testing\"\n\nfunc TestVFReplay(t *testing.T) {\n\tvfReplayMain(t, map[string]func(){\n", pkgName)
	for _, s := range specs {
		fmt.Fprintf(&sb, "\t\t%q: %s,\n", s.Name, s.Name)
	}
	sb.WriteString("\t})\n}\n")
	return sb.String()
}

type Loaded struct {
	prog    *ssa.Program
	pkgs    []*packages.Package
	ssaPkgs map[string]*ssa.Package // by pkg dir
	overlay map[string][]byte
}

// shadowOverlays implements //vf:shadow <func>: the named function or method of the harness'
// package ("name", "T.name" or "(*T).name") is renamed to <name>VfReal in an overlay copy of
// the file that declares it (regenerated from /repo's current source on every run), so that
// the harness can supply a stub of the same name. The stub is then used both by the
// symbolic run and by the native replay binary. Every shadow is listed as a stub in the
// evidence.
func shadowOverlays(files []*HarnessFile) (map[string][]byte, error) {
	want := map[string]map[string]bool{} // pkgDir -> names
	for _, hf := range files {
		for _, sp := range hf.Specs {
			for _, n := range sp.Ann["shadow"] {
				if want[hf.PkgDir] == nil {
					want[hf.PkgDir] = map[string]bool{}
				}
				want[hf.PkgDir][strings.TrimSpace(n)] = true
			}
		}
	}
	res := map[string][]byte{}
	for dir, names := range want {
		ents, err := os.ReadDir(filepath.Join(repoDir, dir))
		if err != nil {
			return nil, err
		}
		found := map[string]bool{}
		for _, e := range ents {
			if e.IsDir() || !strings.HasSuffix(e.Name(), ".go") || strings.HasSuffix(e.Name(), "_test.go") {
				continue
			}
			path := filepath.Join(repoDir, dir, e.Name())
			src, err := os.ReadFile(path)
			if err != nil {
				return nil, err
			}
			fset := token.NewFileSet()
			f, err := parser.ParseFile(fset, path, src, parser.SkipObjectResolution)
			if err != nil {
				return nil, err
			}
			type edit struct{ off int }
			var edits []int
			for _, d := range f.Decls {
				fd, ok := d.(*ast.FuncDecl)
				if !ok {
					continue
				}
				full := fd.Name.Name
				if fd.Recv != nil && len(fd.Recv.List) == 1 {
					switch t := fd.Recv.List[0].Type.(type) {
					case *ast.StarExpr:
						if id, ok := t.X.(*ast.Ident); ok {
							full = "(*" + id.Name + ")." + fd.Name.Name
						}
					case *ast.Ident:
						full = t.Name + "." + fd.Name.Name
					}
				}
				if names[full] {
					found[full] = true
					edits = append(edits, fset.Position(fd.Name.End()).Offset)
				}
			}
			if len(edits) == 0 {
				continue
			}
			sort.Sort(sort.Reverse(sort.IntSlice(edits)))
			out := append([]byte(nil), src...)
			for _, off := range edits {
				out = append(out[:off], append([]byte("VfReal"), out[off:]...)...)
			}
			res[path] = out
		}
		for n := range names {
			if !found[n] {
				return nil, fmt.Errorf("BUILD: //vf:shadow %s: no such function in %s", n, dir)
			}
		}
	}
	return res, nil
}

func modelOverlay(ov map[string][]byte) {
	ov[filepath.Join(repoDir, "internal/vfmodel/model.go")] = []byte(modelSource)
}

func loadProgram(files []*HarnessFile, verbose bool) (*Loaded, error) {
	ov := map[string][]byte{}
	dirs := map[string]string{}
	for _, hf := range files {
		src, err := os.ReadFile(hf.Src)
		if err != nil {
			return nil, err
		}
		ov[hf.Virtual] = src
		dirs[hf.PkgDir] = hf.PkgName
	}
	for d, n := range dirs {
		ov[filepath.Join(repoDir, d, "zz_vf_rt.go")] = []byte(rtSource(n))
	}
	modelOverlay(ov)
	sh, err := shadowOverlays(files)
	if err != nil {
		return nil, err
	}
	for k, v := range sh {
		ov[k] = v
	}
	var patterns []string
	for d := range dirs {
		patterns = append(patterns, "./"+d)
	}
	sort.Strings(patterns)
	patterns = append(patterns, "./internal/vfmodel")
	cfg := &packages.Config{
		Mode:       packages.LoadAllSyntax,
		Dir:        repoDir,
		BuildFlags: []string{"-tags=math_big_pure_go,purego,verif"},
		Overlay:    ov,
		Env:        append(os.Environ(), "GOFLAGS=-mod=mod", "GOPROXY=off"),
	}
	t0 := time.Now()
	pkgs, err := packages.Load(cfg, patterns...)
	if err != nil {
		return nil, err
	}
	nerr := 0
	var errs []string
	packages.Visit(pkgs, nil, func(p *packages.Package) {
		for _, e := range p.Errors {
			nerr++
			if len(errs) < 20 {
				errs = append(errs, e.Error())
			}
		}
	})
	if nerr > 0 {
		return nil, fmt.Errorf("BUILD: %d load errors:\n%s", nerr, strings.Join(errs, "\n"))
	}
	prog, spkgs := ssautil.AllPackages(pkgs, ssa.InstantiateGenerics)
	prog.Build()
	if verbose {
		fmt.Fprintf(os.Stderr, "loaded+built %d packages in %v\n", len(prog.AllPackages()), time.Since(t0))
	}
	ld := &Loaded{prog: prog, pkgs: pkgs, ssaPkgs: map[string]*ssa.Package{}, overlay: ov}
	for i, p := range pkgs {
		rel := strings.TrimPrefix(strings.TrimPrefix(p.PkgPath, modPath), "/")
		ld.ssaPkgs[rel] = spkgs[i]
	}
	return ld, nil
}

func newEngine(ld *Loaded, theory bool) *Engine {
	e := &Engine{prog: ld.prog, theoryBig: theory, initDone: map[*ssa.Package]bool{}, fnByName: map[string]*ssa.Function{}}
	rt := ld.prog.ImportedPackage("runtime")
	if rt != nil && rt.Type("errorString") != nil {
		e.rtErrStr = rt.Type("errorString").Type()
	} else {
		e.rtErrStr = types.Typ[types.String]
	}
	e.sizes = types.SizesFor("gc", "amd64")
	e.errorType = types.Universe.Lookup("error").Type()
	e.registerIntrinsics()
	for fn := range ssautil.AllFunctions(ld.prog) {
		if fn.Parent() == nil {
			e.fnByName[fn.String()] = fn
		}
	}
	return e
}
