package main

import (
	"crypto/sha256"
	"math/big"
	"fmt"

	"github.com/decred/dcrd/crypto/ripemd160"
	"golang.org/x/tools/go/ssa"
)

type hashApp struct {
	name string
	in   []*Term
	out  []*Term
}

// hashUF applies an uninterpreted hash function (one UF per input length) to bytes;
// concrete inputs get the real digest.
func (w *Worker) hashUF(name string, in []*Term, outBytes int, real func([]byte) []byte) []*Term {
	conc := true
	for _, b := range in {
		if !b.IsConst() {
			conc = false
			break
		}
	}
	out := make([]*Term, outBytes)
	if conc {
		bs := make([]byte, len(in))
		for i, b := range in {
			bs[i] = byte(b.Uint64())
		}
		d := real(bs)
		for i := range out {
			out[i] = BVu(uint64(d[i]), 8)
		}
		digestInputs.Store(name+":"+new(big.Int).SetBytes(d[:outBytes]).Text(16), bs)
		return out
	}
	var arg *Term
	for i, b := range in {
		if i == 0 {
			arg = b
		} else {
			arg = Concat(arg, b)
		}
	}
	var res *Term
	if arg == nil {
		res = App(fmt.Sprintf("%s_0", name), SBV(outBytes*8))
	} else {
		res = App(fmt.Sprintf("%s_%d", name, len(in)), SBV(outBytes*8), arg)
	}
	for i := range out {
		hi := outBytes*8 - 1 - 8*i
		out[i] = Extract(res, hi, hi-7)
	}
	return out
}

func (w *Worker) recordHash(name string, in, out []*Term) {
	if !w.hr.Cfg.HashInj {
		return
	}
	var apps []hashApp
	if w.st.extra != nil {
		apps, _ = w.st.extra["hashapps"].([]hashApp)
	}
	for _, a := range apps {
		if a.name != name {
			continue
		}
		same := len(a.in) == len(in)
		if same {
			for i := range in {
				if a.in[i] != in[i] {
					same = false
					break
				}
			}
		}
		if same {
			return
		}
		// injectivity: equal outputs imply equal inputs
		outEq := bytesEq(a.out, out)
		inEq := bytesEq(a.in, in)
		c := Implies(outEq, inEq)
		if !c.IsTrue() {
			w.st.addPC(c)
		}
	}
	apps = append(append([]hashApp(nil), apps...), hashApp{name, in, out})
	w.st.extra = setExtra(w.st.extra, "hashapps", apps)
}

func registerHashIntrinsics(in map[string]Intrinsic) {
	in["vf:vfSha256"] = func(w *Worker, g *G, fr *Frame, fn *ssa.Function, a []Value) (Value, ctl) {
		bs := w.sliceBytes(a[0].(SliceV))
		out := w.hashUF("sha256", bs, 32, func(b []byte) []byte { h := sha256.Sum256(b); return h[:] })
		el := make([]Value, 32)
		for i := range el {
			el[i] = out[i]
		}
		return &ArrayV{el}, ctlNext
	}
	in["vf:vfRipemd160"] = func(w *Worker, g *G, fr *Frame, fn *ssa.Function, a []Value) (Value, ctl) {
		bs := w.sliceBytes(a[0].(SliceV))
		out := w.hashUF("ripemd160", bs, 20, func(b []byte) []byte { h := ripemd160.New(); h.Write(b); return h.Sum(nil) })
		el := make([]Value, 20)
		for i := range el {
			el[i] = out[i]
		}
		return &ArrayV{el}, ctlNext
	}
}
