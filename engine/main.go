package main

import (
	"crypto/sha256"
	"encoding/json"
	"flag"
	"fmt"
	"os"
	"os/exec"
	"path/filepath"
	"runtime"
	"sort"
	"strconv"
	"strings"
	"time"

	"golang.org/x/tools/go/ssa"
)

const verifDir = "/verif"

type KnownFinding struct {
	Property  string `json:"property"`
	Harness   string `json:"harness"`
	Signature string `json:"signature"`
	Status    string `json:"status"` // known | fixed
	Commit    string `json:"commit,omitempty"`
	What      string `json:"what"`
}

type ReplayCase struct {
	Harness string            `json:"harness"`
	Tier    int               `json:"tier"`
	Inputs  map[string]string `json:"inputs"`
	ID      string            `json:"id"`
}

type ReplayResult struct {
	ID           string   `json:"id"`
	Harness      string   `json:"harness"`
	Reached      []string `json:"reached"`
	Failed       []string `json:"failed"`
	AssumeFailed bool     `json:"assume_failed"`
	MissingInput string   `json:"missing_input"`
	Panic        string   `json:"panic"`
	Timeout      bool     `json:"timeout"`
	Notes        []string `json:"notes"`
}

func main() {
	if len(os.Args) < 2 {
		fmt.Fprintln(os.Stderr, "usage: gosym check <prop> [flags] | replay <file>")
		os.Exit(2)
	}
	switch os.Args[1] {
	case "check":
		os.Exit(cmdCheck(os.Args[2:]))
	case "replay":
		os.Exit(cmdReplay(os.Args[2:]))
	default:
		fmt.Fprintln(os.Stderr, "unknown command")
		os.Exit(2)
	}
}

func strInputs(m map[string]interface{}) map[string]string {
	r := map[string]string{}
	for k, v := range m {
		r[k] = fmt.Sprint(v)
	}
	return r
}

type harnessOutcome struct {
	Spec      *HarnessSpec
	Run       *HarnessRun
	Cfg       Config
	Verdict   string // pass | inconclusive | violation | known-finding
	Reasons   []string
	Confirmed []*Violation
	KnownHit  []*Violation
	Replays   int
	WallS     float64
}

func cmdCheck(args []string) int {
	fs := flag.NewFlagSet("check", flag.ExitOnError)
	tier := fs.String("tier", "", "quick|thorough")
	only := fs.String("only", "", "run only harnesses whose name contains this")
	verbose := fs.Int("v", 0, "verbosity")
	trace := fs.Bool("trace", false, "trace instructions")
	workers := fs.Int("workers", runtime.NumCPU(), "parallel workers")
	noReplay := fs.Bool("noreplay", false, "skip native replay (debug only; verdict inconclusive)")
	solver := fs.String("solver", "z3", "solver binary")
	smode := fs.String("solvermode", "incremental", "incremental|reset")
	ib := fs.Int("incrms", 30, "incremental solver budget per query in ms before falling back to a fresh solve")
	inputsF := fs.String("inputs", "", "replay file: force these inputs (concrete engine run for debugging)")
	qt := fs.Int("qt", 0, "per-query solver timeout in seconds (override)")
	wallF := fs.Int("wall", 0, "per-harness wall budget in seconds (override)")
	if len(args) == 0 {
		fmt.Fprintln(os.Stderr, "check: need property id")
		return 2
	}
	prop := args[0]
	fs.Parse(args[1:])
	if *tier == "" {
		*tier = os.Getenv("VERIF_TIER")
	}
	if *tier == "" {
		*tier = "quick"
	}
	if *inputsF != "" {
		data, err := os.ReadFile(*inputsF)
		if err != nil {
			fmt.Fprintln(os.Stderr, err)
			return 2
		}
		var rf struct {
			Case ReplayCase `json:"case"`
		}
		json.Unmarshal(data, &rf)
		forcedInputs = rf.Case.Inputs
		*only = rf.Case.Harness
	}
	solverMode = *smode
	incrBudgetMs = int64(*ib)
	seed, _ := strconv.Atoi(os.Getenv("VERIF_SEED"))
	t0 := time.Now()

	hdir := filepath.Join(verifDir, "harness", prop)
	paths, _ := filepath.Glob(filepath.Join(hdir, "*.go"))
	sort.Strings(paths)
	var files []*HarnessFile
	var specs []*HarnessSpec
	for _, p := range paths {
		hf, err := parseHarnessFile(p)
		if err != nil {
			fmt.Fprintf(os.Stderr, "harness parse error: %v\n", err)
			return 2
		}
		files = append(files, hf)
		for _, s := range hf.Specs {
			if s.Tier == "thorough" && *tier != "thorough" {
				continue
			}
			if s.Tier == "off" {
				continue
			}
			if *only != "" && !strings.Contains(s.Name, *only) {
				continue
			}
			specs = append(specs, s)
		}
	}
	if len(specs) == 0 {
		fmt.Fprintf(os.Stderr, "no harnesses for %s\n", prop)
		return 2
	}
	ev := &Evidence{Property: prop, Tier: *tier, Seed: seed}
	ld, err := loadProgram(files, *verbose > 0)
	if err != nil {
		// a build failure of the overlay against the current tree is inconclusive, never an alarm
		fmt.Printf("INCONCLUSIVE property=%s reason=build: %v\n", prop, firstLine(err.Error()))
		if *verbose > 0 {
			fmt.Fprintln(os.Stderr, err)
		}
		ev.writeBuildFailure(err, time.Since(t0))
		return 0
	}
	base := Config{Unwind: 64, MaxSteps: 3_000_000, MaxAlloc: 8, Sched: "deterministic", MapOrder: "insertion",
		Timeout: 60 * time.Second, SolverBin: *solver, Workers: *workers, MaxPaths: 200000, Concretize: 64,
		Redirects: map[string]string{
			"sort.Slice":       modPath + "/internal/vfmodel.SortSlice",
			"sort.SliceStable": modPath + "/internal/vfmodel.SortSlice",
			"errors.Is":        modPath + "/internal/vfmodel.ErrorsIs",
			"errors.As":        modPath + "/internal/vfmodel.ErrorsAs",
			"crypto/elliptic.P256": modPath + "/internal/vfmodel.P256",
			"crypto/sha256.New":    modPath + "/internal/vfmodel.NewSha256",
			"crypto/sha256.Sum256": modPath + "/internal/vfmodel.Sum256",
			"github.com/decred/dcrd/crypto/ripemd160.New": modPath + "/internal/vfmodel.NewRipemd160",
		}}
	base.TierInt = tierInt(*tier)
	base.Wall = 150 * time.Second
	if *tier == "thorough" {
		base.Wall = 30 * time.Minute
	}
	if *tier == "thorough" {
		base.Timeout = 300 * time.Second
		base.MaxSteps = 20_000_000
		base.MaxPaths = 2000000
	}
	if *qt > 0 {
		base.Timeout = time.Duration(*qt) * time.Second
	}
	if *wallF > 0 {
		base.Wall = time.Duration(*wallF) * time.Second
	}
	// group by bigint mode
	var outcomes []*harnessOutcome
	for _, theory := range []bool{false, true} {
		var group []*HarnessSpec
		for _, s := range specs {
			c := s.config(*tier, base)
			if c.TheoryBig == theory {
				group = append(group, s)
			}
		}
		if len(group) == 0 {
			continue
		}
		e := newEngine(ld, theory)
		e.verbose = *verbose
		e.trace = *trace
		var roots []*ssa.Package
		seenDir := map[string]bool{}
		for _, s := range group {
			if !seenDir[s.PkgDir] {
				seenDir[s.PkgDir] = true
				roots = append(roots, ld.ssaPkgs[s.PkgDir])
			}
		}
		roots = append(roots, ld.ssaPkgs["internal/vfmodel"])
		e.runInits(roots, base)
		// run harnesses: parallelism inside each harness; harnesses sequentially
		for _, s := range group {
			cfg := s.config(*tier, base)
			pkg := ld.ssaPkgs[s.PkgDir]
			fn := pkg.Func(s.Name)
			if fn == nil {
				fmt.Fprintf(os.Stderr, "harness %s not found in %s\n", s.Name, s.PkgDir)
				continue
			}
			h0 := time.Now()
			hr := e.explore(s.Name, fn, cfg)
			oc := &harnessOutcome{Spec: s, Run: hr, Cfg: cfg, WallS: time.Since(h0).Seconds()}
			outcomes = append(outcomes, oc)
			if *verbose > 0 {
				fmt.Fprintf(os.Stderr, "[%s] paths=%v obligations=%d violations=%d steps=%d %.1fs\n", s.Name, hr.Paths, len(hr.Obls), len(hr.Violations), hr.Steps, oc.WallS)
			}
		}
	}
	// native replay
	known := loadKnown()
	rp := newReplayer(prop, ld, files, specs, *tier)
	if !*noReplay {
		rp.run(outcomes)
	}
	exit := 0
	for _, oc := range outcomes {
		judge(oc, rp, known, prop, *noReplay)
		for _, v := range oc.Confirmed {
			path := rp.saveReplay(oc, v)
			fmt.Printf("VIOLATION property=%s replay=%s harness=%s site=%s kind=%s\n", prop, path, oc.Spec.Name, v.Site, v.Kind)
			exit = 1
		}
		for _, v := range oc.KnownHit {
			what := v.Known
			for _, k := range known {
				if k.Property == prop && k.Signature == v.Known {
					what = k.Signature + ": " + k.What
				}
			}
			fmt.Printf("KNOWN-FINDING: property=%s %s (harness %s, site %s)\n", prop, what, oc.Spec.Name, v.Site)
		}
		status := oc.Verdict
		fmt.Printf("harness %-40s %-13s paths=%d obligations=%d discharged=%d %.1fs %s\n", oc.Spec.Name, status, oc.Run.nPaths, len(oc.Run.Obls), countDischarged(oc.Run), oc.WallS, strings.Join(oc.Reasons, "; "))
	}
	ev.fill(outcomes, rp, time.Since(t0))
	ev.write()
	if exit == 0 {
		fmt.Printf("RESULT property=%s tier=%s verdict=%s wall=%.1fs\n", prop, *tier, ev.Verdict, time.Since(t0).Seconds())
	}
	return exit
}

func countDischarged(hr *HarnessRun) int {
	n := 0
	for _, o := range hr.Obls {
		if o.Verdict == "discharged" || o.Verdict == "discharged-modulo-known" {
			n++
		}
	}
	return n
}

func loadKnown() []KnownFinding {
	var ks []KnownFinding
	data, err := os.ReadFile(filepath.Join(verifDir, "known_findings.json"))
	if err != nil {
		return nil
	}
	json.Unmarshal(data, &ks)
	return ks
}

// judge derives the harness verdict from exploration and replay results.
func judge(oc *harnessOutcome, rp *Replayer, known []KnownFinding, prop string, noReplay bool) {
	hr := oc.Run
	reasons := []string{}
	for k, n := range hr.Unsupported {
		reasons = append(reasons, fmt.Sprintf("%s (x%d)", k, n))
	}
	for _, u := range hr.Unknowns {
		reasons = append(reasons, u)
	}
	if hr.Paths["ABORTED-MAXPATHS"] > 0 || hr.Paths["ABORTED-DEADLINE"] > 0 {
		reasons = append(reasons, "exploration aborted (path/deadline budget)")
	}
	if hr.Paths["(approx-branch)"] > 0 {
		// branch feasibility unknown: still sound for proofs; recorded only
	}
	if hr.Paths["OK"] == 0 && hr.Paths["CUT"] == 0 {
		reasons = append(reasons, "no path completed")
	}
	// vacuity: every assert site seen must have a natively confirmed witness
	if !noReplay {
		for site := range hr.SitesSeen {
			r := rp.witnessResult(oc.Spec.Name, site)
			if r == nil {
				reasons = append(reasons, "no witness replay for site "+site)
				continue
			}
			found := false
			for _, s := range r.Reached {
				if s == site {
					found = true
				}
			}
			// differential check of noted values (translator validation)
			if found {
				want := hr.WitnessNotes[site]
				for i, n := range want {
					if strings.HasSuffix(n, "=?") {
						continue
					}
					if i >= len(r.Notes) || r.Notes[i] != n {
						got := "<missing>"
						if i < len(r.Notes) {
							got = r.Notes[i]
						}
						reasons = append(reasons, fmt.Sprintf("NOTE-MISMATCH at %s: engine %s native %s inputs=%v", site, n, got, hr.Witness[site]))
						break
					}
				}
			}
			if !found {
				reasons = append(reasons, fmt.Sprintf("witness for %s did not reach it natively (assume_failed=%v missing=%s panic=%s) inputs=%v reached=%v", site, r.AssumeFailed, r.MissingInput, firstLine(r.Panic), hr.Witness[site], r.Reached))
			}
		}
	} else {
		reasons = append(reasons, "native replay skipped")
	}
	if len(hr.SitesSeen) == 0 {
		reasons = append(reasons, "no assertion or cover site reached (vacuous)")
	}
	// violations
	for i, v := range hr.Violations {
		r := rp.violationResult(oc.Spec.Name, i)
		if r == nil {
			reasons = append(reasons, "candidate violation at "+v.Site+" not replayed")
			continue
		}
		repro := false
		switch v.Kind {
		case "assert":
			for _, f := range r.Failed {
				if f == v.Site {
					repro = true
				}
			}
		case "panic":
			repro = r.Panic != ""
		case "hang":
			repro = r.Timeout && len(oc.Spec.Ann["termination"]) > 0
			if !repro {
				// bound too small, not a violation
				continue
			}
		case "deadlock":
			repro = r.Timeout
		case "frozen-write":
			// native confirmation comes from the harness' own snapshot assertion
			repro = len(r.Failed) > 0
		}
		if !repro {
			reasons = append(reasons, fmt.Sprintf("MODEL-MISMATCH at %s (%s: %s): solver model did not reproduce natively (failed=%v panic=%q assume_failed=%v) inputs=%v", v.Site, v.Kind, v.Msg, r.Failed, firstLine(r.Panic), r.AssumeFailed, v.Inputs))
			continue
		}
		if v.Known != "" {
			listed := false
			for _, k := range known {
				if k.Property == prop && k.Signature == v.Known && k.Status == "known" {
					listed = true
				}
			}
			if listed {
				oc.KnownHit = append(oc.KnownHit, v)
				continue
			}
		}
		oc.Confirmed = append(oc.Confirmed, v)
	}
	// dedupe known hits by signature
	if len(oc.KnownHit) > 1 {
		seen := map[string]bool{}
		var kh []*Violation
		for _, v := range oc.KnownHit {
			if !seen[v.Known+v.Site] {
				seen[v.Known+v.Site] = true
				kh = append(kh, v)
			}
		}
		oc.KnownHit = kh
	}
	sort.Strings(reasons)
	oc.Reasons = reasons
	switch {
	case len(oc.Confirmed) > 0:
		oc.Verdict = "violation"
	case len(reasons) > 0:
		oc.Verdict = "inconclusive"
	case len(oc.KnownHit) > 0:
		oc.Verdict = "known-finding"
	default:
		oc.Verdict = "pass"
	}
}

func cmdReplay(args []string) int {
	if len(args) < 1 {
		fmt.Fprintln(os.Stderr, "replay: need file")
		return 2
	}
	data, err := os.ReadFile(args[0])
	if err != nil {
		fmt.Fprintln(os.Stderr, err)
		return 2
	}
	var rf struct {
		Property string     `json:"property"`
		Case     ReplayCase `json:"case"`
		Site     string     `json:"site"`
		Kind     string     `json:"kind"`
	}
	if err := json.Unmarshal(data, &rf); err != nil {
		fmt.Fprintln(os.Stderr, err)
		return 2
	}
	hdir := filepath.Join(verifDir, "harness", rf.Property)
	paths, _ := filepath.Glob(filepath.Join(hdir, "*.go"))
	var files []*HarnessFile
	var specs []*HarnessSpec
	for _, p := range paths {
		hf, err := parseHarnessFile(p)
		if err != nil {
			fmt.Fprintln(os.Stderr, err)
			return 2
		}
		files = append(files, hf)
		specs = append(specs, hf.Specs...)
	}
	rp := newReplayer(rf.Property, nil, files, specs, "quick")
	var spec *HarnessSpec
	for _, s := range specs {
		if s.Name == rf.Case.Harness {
			spec = s
		}
	}
	if spec == nil {
		fmt.Fprintln(os.Stderr, "harness not found")
		return 2
	}
	res, err := rp.runCases(spec.PkgDir, []ReplayCase{rf.Case})
	if err != nil {
		fmt.Fprintln(os.Stderr, err)
		return 2
	}
	js, _ := json.MarshalIndent(res, "", " ")
	fmt.Println(string(js))
	for _, r := range res {
		for _, f := range r.Failed {
			if f == rf.Site {
				fmt.Printf("REPRODUCED site=%s\n", rf.Site)
				return 1
			}
		}
		if rf.Kind == "panic" && r.Panic != "" {
			fmt.Println("REPRODUCED panic")
			return 1
		}
	}
	fmt.Println("not reproduced")
	return 0
}

func hash8(s string) string {
	h := sha256.Sum256([]byte(s))
	return fmt.Sprintf("%x", h[:4])
}

func runCmd(dir string, env []string, timeout time.Duration, name string, args ...string) (string, error) {
	cmd := exec.Command(name, args...)
	cmd.Dir = dir
	cmd.Env = append(os.Environ(), env...)
	done := make(chan struct{})
	var out []byte
	var err error
	go func() {
		out, err = cmd.CombinedOutput()
		close(done)
	}()
	select {
	case <-done:
	case <-time.After(timeout):
		if cmd.Process != nil {
			cmd.Process.Kill()
		}
		<-done
		err = fmt.Errorf("timeout after %v", timeout)
	}
	return string(out), err
}
