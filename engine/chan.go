package main

import (
	"fmt"
	"go/types"

	"golang.org/x/tools/go/ssa"
)

// Channel operations under the coroutine model. A goroutine that cannot proceed
// is marked blocked and re-executes its instruction when woken.

func (w *Worker) block(g *G, on string) ctl {
	g.status = gBlocked
	g.waitOn = on
	w.st.extra = setExtra(w.st.extra, "yield", true)
	return ctlStay
}

func setExtra(m map[string]interface{}, k string, v interface{}) map[string]interface{} {
	if m == nil {
		m = map[string]interface{}{}
	}
	m[k] = v
	return m
}

func (w *Worker) wakeAll() {
	for _, g := range w.st.gs {
		if g.status == gBlocked {
			g.status = gRunnable
		}
	}
}

// wakeBlocked is called when no goroutine is runnable: nothing can make progress.
func (w *Worker) wakeBlocked() bool {
	for _, g := range w.st.gs {
		if g.status == gBlocked && g.waitOn == "quiesce" {
			g.status = gRunnable
			return true
		}
	}
	return false
}

// partnerRecv finds a goroutine blocked in a plain receive on channel o.
func (w *Worker) findBlocked(o *Obj, wantRecv bool, self *G) (*G, ssa.Instruction) {
	for _, g := range w.st.gs {
		if g == self || g.status != gBlocked || len(g.frames) == 0 {
			continue
		}
		fr := g.top()
		in := fr.block.Instrs[fr.pc]
		switch x := in.(type) {
		case *ssa.UnOp:
			if wantRecv && x.Op.String() == "<-" {
				if c, ok := w.get(fr, x.X).(ChanV); ok && c.O == o {
					return g, in
				}
			}
		case *ssa.Send:
			if !wantRecv {
				if c, ok := w.get(fr, x.Chan).(ChanV); ok && c.O == o {
					return g, in
				}
			}
		}
	}
	return nil, nil
}

func (w *Worker) chanSend(g *G, fr *Frame, in *ssa.Send) ctl {
	c := w.get(fr, in.Chan).(ChanV)
	v := w.get(fr, in.X)
	if c.O == nil {
		return w.block(g, "send on nil chan")
	}
	ok, raised := w.trySend(g, c, v)
	if raised {
		return ctlStay
	}
	if !ok {
		return w.block(g, fmt.Sprintf("send chan#%d", c.O.ID))
	}
	w.yieldPoint()
	return ctlNext
}

func (w *Worker) trySend(g *G, c ChanV, v Value) (ok bool, raised bool) {
	cd := w.st.load(c.O).(*ChanData)
	if cd.Closed {
		w.raise(g, w.rtError("send on closed channel"))
		return false, true
	}
	if len(cd.Buf) < cd.Cap {
		nd := *cd
		nd.Buf = append(append([]Value(nil), cd.Buf...), v)
		w.st.store(c.O, &nd)
		w.wakeAll()
		return true, false
	}
	if cd.Cap == 0 {
		if rg, rin := w.findBlocked(c.O, true, g); rg != nil {
			rfr := rg.top()
			u := rin.(*ssa.UnOp)
			if u.CommaOk {
				w.set(rfr, u, TupleV{v, TTrue})
			} else {
				w.set(rfr, u, v)
			}
			rfr.pc++
			rg.status = gRunnable
			return true, false
		}
	}
	return false, false
}

func (w *Worker) tryRecv(g *G, c ChanV, et types.Type) (v Value, okv *Term, ready bool) {
	cd := w.st.load(c.O).(*ChanData)
	if len(cd.Buf) > 0 {
		nd := *cd
		v = cd.Buf[0]
		nd.Buf = append([]Value(nil), cd.Buf[1:]...)
		w.st.store(c.O, &nd)
		w.wakeAll()
		return v, TTrue, true
	}
	if cd.Cap == 0 {
		if sg, sin := w.findBlocked(c.O, false, g); sg != nil {
			sfr := sg.top()
			v = w.get(sfr, sin.(*ssa.Send).X)
			sfr.pc++
			sg.status = gRunnable
			return v, TTrue, true
		}
	}
	if cd.Closed {
		return w.e.zero(et), TFalse, true
	}
	return nil, nil, false
}

func (w *Worker) chanRecv(g *G, fr *Frame, in *ssa.UnOp, c ChanV, commaOk bool) Value {
	if c.O == nil {
		w.block(g, "recv on nil chan")
		return nil
	}
	et := underlying(in.X.Type()).(*types.Chan).Elem()
	v, okv, ready := w.tryRecv(g, c, et)
	if !ready {
		w.block(g, fmt.Sprintf("recv chan#%d", c.O.ID))
		return nil
	}
	w.yieldPoint()
	if commaOk {
		return TupleV{v, okv}
	}
	return v
}

func (w *Worker) yieldPoint() {
	if w.hr.Cfg.Sched == "all" {
		w.st.extra = setExtra(w.st.extra, "yield", true)
	}
}

func (w *Worker) selectOp(g *G, fr *Frame, in *ssa.Select) ctl {
	// evaluate readiness of each case in order; deterministic mode picks the first ready,
	// "all" mode forks over all ready ones.
	type cs struct {
		idx  int
		recv bool
	}
	var ready []int
	for i, s := range in.States {
		c := w.get(fr, s.Chan).(ChanV)
		if c.O == nil {
			continue
		}
		cd := w.st.load(c.O).(*ChanData)
		if s.Dir == types.RecvOnly {
			if len(cd.Buf) > 0 || cd.Closed {
				ready = append(ready, i)
			} else if cd.Cap == 0 {
				if sg, _ := w.findBlocked(c.O, false, g); sg != nil {
					ready = append(ready, i)
				}
			}
		} else {
			if cd.Closed || len(cd.Buf) < cd.Cap {
				ready = append(ready, i)
			} else if cd.Cap == 0 {
				if rg, _ := w.findBlocked(c.O, true, g); rg != nil {
					ready = append(ready, i)
				}
			}
		}
	}
	chosen := -1
	if len(ready) > 0 {
		k := 0
		if len(ready) > 1 && w.hr.Cfg.Sched == "all" {
			conds := make([]*Term, len(ready))
			for i := range conds {
				conds[i] = TTrue
			}
			k = w.decideN(conds, "select")
		}
		chosen = ready[k]
	} else if in.Blocking {
		w.block(g, "select")
		return ctlStay
	}
	res := TupleV{BVi(int64(chosen), 64), TFalse}
	var recvVals []Value
	for i, s := range in.States {
		if s.Dir != types.RecvOnly {
			if i == chosen {
				c := w.get(fr, s.Chan).(ChanV)
				_, raised := w.trySend(g, c, w.get(fr, s.Send))
				if raised {
					return ctlStay
				}
			}
			continue
		}
		et := underlying(s.Chan.Type()).(*types.Chan).Elem()
		if i == chosen {
			c := w.get(fr, s.Chan).(ChanV)
			v, okv, _ := w.tryRecv(g, c, et)
			res[1] = okv
			recvVals = append(recvVals, v)
		} else {
			recvVals = append(recvVals, w.e.zero(et))
		}
	}
	res = append(res, recvVals...)
	w.set(fr, in, res)
	w.yieldPoint()
	return ctlNext
}
