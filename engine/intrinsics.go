package main

import (
	"encoding/hex"
	"os"
	"fmt"
	"go/types"
	"strings"

	"golang.org/x/tools/go/ssa"
)

type Intrinsic func(w *Worker, g *G, fr *Frame, fn *ssa.Function, args []Value) (Value, ctl)

func (e *Engine) lookupIntrinsic(fn *ssa.Function) (Intrinsic, bool) {
	name := fn.String()
	if in, ok := e.intrinsics[name]; ok {
		return in, true
	}
	if o := fn.Origin(); o != nil {
		if in, ok := e.intrinsics[o.String()]; ok {
			return in, true
		}
	}
	// Prometheus metric updates of neo-go (functions declared in a prometheus.go file that
	// return nothing) are no-ops: metrics are not part of any property and their
	// collectors are not initialised by the executor.
	if fn.Pkg != nil && fn.Signature.Results().Len() == 0 && fn.Parent() == nil && strings.HasPrefix(fn.Pkg.Pkg.Path(), modPath) && fn.Prog != nil {
		if pos := fn.Prog.Fset.Position(fn.Pos()); strings.HasSuffix(pos.Filename, "/prometheus.go") {
			return func(w *Worker, g *G, fr *Frame, fn *ssa.Function, args []Value) (Value, ctl) { return nil, ctlNext }, true
		}
	}
	n := fn.Name()
	if strings.HasPrefix(n, "vf") && fn.Pkg != nil && fn.Parent() == nil && fn.Signature.Recv() == nil {
		if in, ok := e.intrinsics["vf:"+n]; ok {
			return in, true
		}
	}
	return nil, false
}

func constString(v Value) string {
	s, ok := v.(StringV)
	if !ok || !s.Concrete() {
		panic(pathEnd{"UNSUPPORTED", "intrinsic needs a constant string argument"})
	}
	return s.Go()
}

func constInt(v Value) int {
	t, ok := v.(*Term)
	if !ok || !t.IsConst() {
		panic(pathEnd{"UNSUPPORTED", "intrinsic needs a constant int argument"})
	}
	return int(t.Int64())
}

func (w *Worker) freshName(name string) string {
	st := w.st
	st.nameCnt[name]++
	if c := st.nameCnt[name]; c > 1 {
		return fmt.Sprintf("%s#%d", name, c)
	}
	return name
}

var forcedInputs map[string]string

func forcedBig(n string) (*bigInt, bool) {
	if forcedInputs == nil {
		return nil, false
	}
	s, ok := forcedInputs[n]
	if !ok {
		return nil, false
	}
	v, ok := new(bigInt).SetString(s, 10)
	return v, ok
}

func (w *Worker) nondetBV(name, kind string, width int) *Term {
	n := w.freshName(name)
	if fv, ok := forcedBig(n); ok {
		return BVConst(fv, width)
	}
	v := Var(n, SBV(width))
	w.st.inputs = append(w.st.inputs, &InputRec{Name: n, Kind: kind, Vars: []*Term{v}})
	return v
}

func (w *Worker) recordSite(site string) {
	w.st.sites[site] = true
}

func (e *Engine) registerIntrinsics() {
	in := map[string]Intrinsic{}
	e.intrinsics = in
	nd := func(kind string, width int) Intrinsic {
		return func(w *Worker, g *G, fr *Frame, fn *ssa.Function, a []Value) (Value, ctl) {
			return w.nondetBV(constString(a[0]), kind, width), ctlNext
		}
	}
	in["vf:vfU8"] = nd("u8", 8)
	in["vf:vfU16"] = nd("u16", 16)
	in["vf:vfU32"] = nd("u32", 32)
	in["vf:vfU64"] = nd("u64", 64)
	in["vf:vfI64"] = nd("i64", 64)
	in["vf:vfI32"] = nd("i32", 32)
	in["vf:vfInt"] = nd("int", 64)
	in["vf:vfBool"] = func(w *Worker, g *G, fr *Frame, fn *ssa.Function, a []Value) (Value, ctl) {
		n := w.freshName(constString(a[0]))
		if fv, ok := forcedBig(n); ok {
			return BoolConst(fv.Sign() != 0), ctlNext
		}
		v := Var(n, SBool)
		w.st.inputs = append(w.st.inputs, &InputRec{Name: n, Kind: "bool", Vars: []*Term{v}})
		return v, ctlNext
	}
	in["vf:vfBytes"] = func(w *Worker, g *G, fr *Frame, fn *ssa.Function, a []Value) (Value, ctl) {
		n := w.freshName(constString(a[0]))
		ln := constInt(a[1])
		vars := make([]*Term, ln)
		if forcedInputs != nil {
			if hx, ok := forcedInputs[n]; ok {
				bs, _ := hex.DecodeString(hx)
				for i := range vars {
					vars[i] = BVu(uint64(bs[i]), 8)
				}
				return w.bytesToSlice(vars), ctlNext
			}
		}
		for i := range vars {
			vars[i] = Var(fmt.Sprintf("%s[%d]", n, i), SBV(8))
		}
		w.st.inputs = append(w.st.inputs, &InputRec{Name: n, Kind: "bytes", N: ln, Vars: vars})
		return w.bytesToSlice(vars), ctlNext
	}
	in["vf:vfBig"] = func(w *Worker, g *G, fr *Frame, fn *ssa.Function, a []Value) (Value, ctl) {
		if !w.e.theoryBig {
			unsupported("vfBig requires theory mode")
		}
		n := w.freshName(constString(a[0]))
		bits := constInt(a[1])
		if fv, ok := forcedBig(n); ok {
			o := w.st.alloc(fn.Signature.Results().At(0).Type().(*types.Pointer).Elem(), "big", &BigV{IntConst(fv)})
			return PtrV{O: o}, ctlNext
		}
		v := Var(n, SInt)
		w.st.inputs = append(w.st.inputs, &InputRec{Name: n, Kind: "big", N: bits, Vars: []*Term{v}})
		lim := IntConst(pow2(bits - 1))
		w.st.addPC(ILe(INeg(lim), v))
		w.st.addPC(ILt(v, lim))
		o := w.st.alloc(fn.Signature.Results().At(0).Type().(*types.Pointer).Elem(), "big", &BigV{v})
		return PtrV{O: o}, ctlNext
	}
	in["vf:vfChoose"] = func(w *Worker, g *G, fr *Frame, fn *ssa.Function, a []Value) (Value, ctl) {
		name := constString(a[0])
		lo, hi := constInt(a[1]), constInt(a[2])
		if hi < lo {
			unsupported("vfChoose: empty range")
		}
		conds := make([]*Term, hi-lo+1)
		for i := range conds {
			conds[i] = TTrue
		}
		if forcedInputs != nil {
			// forced choice: peek the name this call would get
			cnt := w.st.nameCnt[name] + 1
			fn := name
			if cnt > 1 {
				fn = fmt.Sprintf("%s#%d", name, cnt)
			}
			if fv, ok := forcedBig(fn); ok {
				for i := range conds {
					if lo+i != int(fv.Int64()) {
						conds[i] = TFalse
					}
				}
			}
		}
		i := w.decideN(conds, "choose "+name)
		n := w.freshName(name)
		w.st.inputs = append(w.st.inputs, &InputRec{Name: n, Kind: "choose", Val: lo + i})
		return BVi(int64(lo+i), 64), ctlNext
	}
	in["vf:vfAssume"] = func(w *Worker, g *G, fr *Frame, fn *ssa.Function, a []Value) (Value, ctl) {
		c := a[0].(*Term)
		if c.IsTrue() {
			return nil, ctlNext
		}
		if c.IsFalse() {
			panic(pathEnd{"ASSUME-FALSE", ""})
		}
		if w.st.model != nil && w.st.evalTrue(c) {
			w.st.addPC(c)
			return nil, ctlNext
		}
		r, m := w.sol.CheckModel(w.st.pc, c, w.allVars())
		if r == "unsat" {
			panic(pathEnd{"ASSUME-FALSE", ""})
		}
		if r == "unknown" {
			w.st.approx = true
			w.st.model = nil
		} else {
			w.st.model = m
		}
		w.st.addPC(c)
		return nil, ctlNext
	}
	in["vf:vfAssert"] = func(w *Worker, g *G, fr *Frame, fn *ssa.Function, a []Value) (Value, ctl) {
		c := a[0].(*Term)
		site := constString(a[1])
		w.assertion(site, c)
		return nil, ctlNext
	}
	in["vf:vfFail"] = func(w *Worker, g *G, fr *Frame, fn *ssa.Function, a []Value) (Value, ctl) {
		site := constString(a[0])
		w.assertion(site, TFalse)
		return nil, ctlNext
	}
	in["vf:vfKnown"] = func(w *Worker, g *G, fr *Frame, fn *ssa.Function, a []Value) (Value, ctl) {
		w.st.known = append(w.st.known, KnownSig{constString(a[0]), a[1].(*Term)})
		return nil, ctlNext
	}
	in["vf:vfCover"] = func(w *Worker, g *G, fr *Frame, fn *ssa.Function, a []Value) (Value, ctl) {
		site := constString(a[0])
		w.cover(site)
		return nil, ctlNext
	}
	in["vf:vfSymbolic"] = func(w *Worker, g *G, fr *Frame, fn *ssa.Function, a []Value) (Value, ctl) {
		return TTrue, ctlNext
	}
	in["vf:vfQuiesce"] = func(w *Worker, g *G, fr *Frame, fn *ssa.Function, a []Value) (Value, ctl) {
		// block until every other goroutine is blocked or finished
		for _, x := range w.st.gs {
			if x != g && x.status == gRunnable {
				g.status = gBlocked
				g.waitOn = "quiesce"
				return nil, ctlStay
			}
		}
		return nil, ctlNext
	}
	in["vf:vfYield"] = func(w *Worker, g *G, fr *Frame, fn *ssa.Function, a []Value) (Value, ctl) {
		w.st.extra = setExtra(w.st.extra, "yield", true)
		return nil, ctlNext
	}
	in["vf:vfFreeze"] = func(w *Worker, g *G, fr *Frame, fn *ssa.Function, a []Value) (Value, ctl) {
		if w.st.frozen == nil {
			w.st.frozen = map[*Obj]bool{}
		}
		w.reach(a[0], func(o *Obj) { w.st.frozen[o] = true })
		return nil, ctlNext
	}
	in["vf:vfThaw"] = func(w *Worker, g *G, fr *Frame, fn *ssa.Function, a []Value) (Value, ctl) {
		w.st.frozen = nil
		return nil, ctlNext
	}
	in["vf:vfNote"] = func(w *Worker, g *G, fr *Frame, fn *ssa.Function, a []Value) (Value, ctl) {
		v := a[1]
		if iv, ok := v.(IfaceV); ok && iv.T != nil {
			switch x := iv.V.(type) {
			case SliceV:
				if x.O != nil {
					v = IfaceV{T: iv.T, V: &ArrayV{append([]Value(nil), w.sliceElems(x)...)}}
				}
			case PtrV:
				if x.O != nil {
					if c, ok := w.st.heap.get(x.O); ok {
						if b, ok := getPath(c, x.Path).(*BigV); ok {
							v = IfaceV{T: iv.T, V: b}
						}
					}
				}
			}
		}
		w.st.notes = append(w.st.notes[:len(w.st.notes):len(w.st.notes)], NoteRec{constString(a[0]), v})
		return nil, ctlNext
	}
	in["vf:vfConcrete"] = func(w *Worker, g *G, fr *Frame, fn *ssa.Function, a []Value) (Value, ctl) {
		// vfConcrete(x int, lo, hi int) int: case-split x over [lo,hi]
		t := a[0].(*Term)
		lo, hi := constInt(a[1]), constInt(a[2])
		if !t.IsConst() {
			if !w.decide(And(BvCmp(OBvSLe, BVi(int64(lo), 64), t), BvCmp(OBvSLe, t, BVi(int64(hi), 64))), "vfConcrete range") {
				panic(pathEnd{"CUT", "vfConcrete out of range"})
			}
		}
		v := w.concretize(t, true, int64(lo), int64(hi), "vfConcrete")
		return BVi(v, 64), ctlNext
	}
	in["vf:vfAnd"] = func(w *Worker, g *G, fr *Frame, fn *ssa.Function, a []Value) (Value, ctl) {
		return And(a[0].(*Term), a[1].(*Term)), ctlNext
	}
	in["vf:vfOr"] = func(w *Worker, g *G, fr *Frame, fn *ssa.Function, a []Value) (Value, ctl) {
		return Or(a[0].(*Term), a[1].(*Term)), ctlNext
	}
	in["vf:vfImplies"] = func(w *Worker, g *G, fr *Frame, fn *ssa.Function, a []Value) (Value, ctl) {
		return Implies(a[0].(*Term), a[1].(*Term)), ctlNext
	}
	in["vf:vfIteInt"] = func(w *Worker, g *G, fr *Frame, fn *ssa.Function, a []Value) (Value, ctl) {
		return Ite(a[0].(*Term), a[1].(*Term), a[2].(*Term)), ctlNext
	}
	in["vf:vfIteU64"] = in["vf:vfIteInt"]
	in["vf:vfTier"] = func(w *Worker, g *G, fr *Frame, fn *ssa.Function, a []Value) (Value, ctl) {
		return BVi(int64(w.hr.Cfg.TierInt), 64), ctlNext
	}
	in["vf:vfLen"] = func(w *Worker, g *G, fr *Frame, fn *ssa.Function, a []Value) (Value, ctl) {
		s := a[0].(IfaceV).V.(SliceV)
		return BVi(int64(s.Len), 64), ctlNext
	}
	in["vf:vfSwap"] = func(w *Worker, g *G, fr *Frame, fn *ssa.Function, a []Value) (Value, ctl) {
		s := a[0].(IfaceV).V.(SliceV)
		i, j := constInt(a[1]), constInt(a[2])
		el := w.sliceElems(s)
		vi, vj := el[i], el[j]
		w.writeSlice(s, i, []Value{vj})
		w.writeSlice(s, j, []Value{vi})
		return nil, ctlNext
	}
	in["vf:vfAssignable"] = func(w *Worker, g *G, fr *Frame, fn *ssa.Function, a []Value) (Value, ctl) {
		err := a[0].(IfaceV)
		tgt := a[1].(IfaceV)
		pt, ok := tgt.T.(*types.Pointer)
		if !ok || err.T == nil {
			return TFalse, ctlNext
		}
		return BoolConst(types.AssignableTo(err.T, pt.Elem())), ctlNext
	}
	in["vf:vfAssignTo"] = func(w *Worker, g *G, fr *Frame, fn *ssa.Function, a []Value) (Value, ctl) {
		err := a[0].(IfaceV)
		tgt := a[1].(IfaceV)
		pt := tgt.T.(*types.Pointer)
		var v Value = err
		if _, isI := underlying(pt.Elem()).(*types.Interface); !isI {
			v = err.V
		}
		w.storePtr(g, tgt.V, v)
		return nil, ctlNext
	}
	registerStdIntrinsics(in)
	registerBigIntrinsics(in)
	registerBigintCodecIntrinsics(in)
	registerReflectIntrinsics(in)
	registerHashIntrinsics(in)
	registerBitsIntrinsics(in)
	registerU256Intrinsics(in)
}

// reach visits every heap object reachable from v.
func (w *Worker) reach(v Value, f func(o *Obj)) {
	seen := map[*Obj]bool{}
	var visit func(v Value)
	visitObj := func(o *Obj) {
		if o == nil || seen[o] {
			return
		}
		seen[o] = true
		f(o)
		if c, ok := w.st.heap.get(o); ok {
			visit(c)
		}
	}
	visit = func(v Value) {
		switch x := v.(type) {
		case *StructV:
			for _, e := range x.F {
				visit(e)
			}
		case *ArrayV:
			for _, e := range x.E {
				visit(e)
			}
		case SliceV:
			visitObj(x.O)
		case PtrV:
			visitObj(x.O)
		case MapV:
			visitObj(x.O)
		case ChanV:
			visitObj(x.O)
		case IfaceV:
			if x.T != nil {
				visit(x.V)
			}
		case *MapData:
			for i := range x.K {
				visit(x.K[i])
				visit(x.V[i])
			}
		case *FuncV:
			if x != nil {
				for _, e := range x.Env {
					visit(e)
				}
			}
		case TupleV:
			for _, e := range x {
				visit(e)
			}
		}
	}
	visit(v)
}

// ---------- assertions

func (w *Worker) inputVars() []*Term {
	var vs []*Term
	for _, in := range w.st.inputs {
		vs = append(vs, in.Vars...)
	}
	return vs
}

func (w *Worker) cover(site string) {
	hr := w.hr
	hr.mu.Lock()
	hr.SitesSeen[site]++
	_, have := hr.Witness[site]
	hr.mu.Unlock()
	w.recordSite(site)
	if !have {
		// obtain a model reaching this site
		vars := w.inputVars()
		for _, n := range w.st.notes {
			w.noteVars(n.V, &vars)
		}
		r, m := w.sol.CheckModel(w.st.pc, nil, vars)
		if r == "sat" {
			inp := w.modelInputs(m)
			var notes []string
			for _, n := range w.st.notes {
				notes = append(notes, n.K+"="+w.fmtNote(n.V, m))
			}
			hr.mu.Lock()
			if _, have := hr.Witness[site]; !have {
				hr.Witness[site] = inp
				hr.WitnessNotes[site] = notes
			}
			hr.mu.Unlock()
		}
	}
}

func (w *Worker) assertion(site string, c *Term) {
	hr := w.hr
	w.cover("assert:" + site)
	if c.IsTrue() {
		hr.mu.Lock()
		hr.Trivial++
		hr.mu.Unlock()
		return
	}
	nc := Not(c)
	if os.Getenv("VF_DEBUG_ASSERT") != "" {
		fmt.Fprintf(os.Stderr, "ASSERT %s: %s\n", site, c.str(0))
	}
	t0 := nowMs()
	ob := Obligation{Site: site, PCLen: len(w.st.pc)}
	vars := w.allVars()
	r, m := w.sol.CheckModel(w.st.pc, nc, vars)
	switch r {
	case "unsat":
		ob.Verdict = "discharged"
	case "sat":
		// classify against known-finding signatures: a violation outside every signature is new
		if len(w.st.known) == 0 {
			ob.Verdict = "violated"
			hr.addViolation(&Violation{Site: site, Kind: "assert", Inputs: w.modelInputs(m), Trace: append([]string(nil), w.st.trace...)})
		} else {
			var sigs []*Term
			for _, k := range w.st.known {
				sigs = append(sigs, Not(k.Cond))
			}
			r1, m1 := w.sol.CheckModel(w.st.pc, And(append([]*Term{nc}, sigs...)...), vars)
			switch r1 {
			case "sat":
				ob.Verdict = "violated"
				hr.addViolation(&Violation{Site: site, Kind: "assert", Inputs: w.modelInputs(m1), Trace: append([]string(nil), w.st.trace...)})
			case "unsat":
				ob.Verdict = "discharged-modulo-known"
			default:
				ob.Verdict = "unknown"
				hr.mu.Lock()
				hr.Unknowns = append(hr.Unknowns, site+": solver unknown ("+w.sol.lastErr+") at "+w.st.choiceString())
				hr.mu.Unlock()
			}
			for _, k := range w.st.known {
				r2, m2 := w.sol.CheckModel(w.st.pc, And(nc, k.Cond), vars)
				if r2 == "sat" {
					hr.addViolation(&Violation{Site: site, Kind: "assert", Inputs: w.modelInputs(m2), Known: k.Sig, Trace: append([]string(nil), w.st.trace...)})
				}
			}
		}
	default:
		ob.Verdict = "unknown"
		hr.mu.Lock()
		hr.Unknowns = append(hr.Unknowns, site+": solver unknown ("+w.sol.lastErr+") at "+w.st.choiceString())
		hr.mu.Unlock()
	}
	ob.Ms = nowMs() - t0
	hr.mu.Lock()
	hr.Obls = append(hr.Obls, ob)
	hr.mu.Unlock()
	// continue under the assumption that the assertion holds
	if c.IsFalse() {
		panic(pathEnd{"ASSERT-FALSE", site})
	}
	if r != "unsat" && !(w.st.model != nil && w.st.evalTrue(c)) {
		r3, m3 := w.sol.CheckModel(w.st.pc, c, vars)
		if r3 == "unsat" {
			panic(pathEnd{"ASSERT-FALSE", site})
		}
		if r3 == "sat" {
			w.st.model = m3
		} else {
			w.st.model = nil
		}
	}
	w.st.addPC(c)
}

func (hr *HarnessRun) addViolation(v *Violation) {
	hr.mu.Lock()
	defer hr.mu.Unlock()
	// keep at most 3 per (site, known)
	n := 0
	for _, x := range hr.Violations {
		if x.Site == v.Site && x.Known == v.Known && x.Kind == v.Kind {
			n++
		}
	}
	if n < 3 {
		hr.Violations = append(hr.Violations, v)
	}
}

// modelInputs converts a solver model into the replay input map.
func (w *Worker) modelInputs(m map[string]*bigInt) map[string]interface{} {
	out := map[string]interface{}{}
	for _, in := range w.st.inputs {
		switch in.Kind {
		case "choose":
			out[in.Name] = fmt.Sprintf("%d", in.Val)
		case "bytes":
			bs := make([]byte, in.N)
			for i, v := range in.Vars {
				if x, ok := m[v.Name]; ok {
					bs[i] = byte(x.Uint64())
				}
			}
			out[in.Name] = fmt.Sprintf("%x", bs)
		case "bool":
			x := m[in.Vars[0].Name]
			if x != nil && x.Sign() != 0 {
				out[in.Name] = "1"
			} else {
				out[in.Name] = "0"
			}
		case "i64", "int", "i32":
			x := m[in.Vars[0].Name]
			if x == nil {
				x = bigZero
			}
			wd := in.Vars[0].S.W
			out[in.Name] = BVConst(x, wd).Signed().String()
		default:
			x := m[in.Vars[0].Name]
			if x == nil {
				x = bigZero
			}
			out[in.Name] = x.String()
		}
	}
	return out
}

type NoteRec struct {
	K string
	V Value
}

func (w *Worker) noteVars(v Value, out *[]*Term) {
	seen := map[int64]bool{}
	var visit func(v Value)
	visit = func(v Value) {
		switch x := v.(type) {
		case *Term:
			collectVars(x, seen, out)
		case IfaceV:
			if x.T != nil {
				visit(x.V)
			}
		case StringV:
			for _, b := range x.Bytes() {
				collectVars(b, seen, out)
			}
		case SliceV:
			for _, e := range w.sliceElems(x) {
				visit(e)
			}
		case *ArrayV:
			for _, e := range x.E {
				visit(e)
			}
		case *BigV:
			collectVars(x.T, seen, out)
		case PtrV:
			if x.O != nil {
				if c, ok := w.st.heap.get(x.O); ok {
					if b, ok := getPath(c, x.Path).(*BigV); ok {
						collectVars(b.T, seen, out)
					}
				}
			}
		}
	}
	visit(v)
}

// fmtNote renders a noted value under model m the way the native vfNote does.
func (w *Worker) fmtNote(v Value, m map[string]*bigInt) string {
	cache := map[int64]*Term{}
	ev := func(t *Term) *Term { return evalTerm(t, m, cache) }
	iv, ok := v.(IfaceV)
	if !ok {
		return "?"
	}
	if iv.T == nil {
		return "<nil>"
	}
	switch x := iv.V.(type) {
	case *Term:
		c := ev(x)
		if !c.IsConst() {
			return "?"
		}
		switch c.S.K {
		case KBool:
			if c.IsTrue() {
				return "true"
			}
			return "false"
		case KBV:
			if isSigned(iv.T) {
				return c.Signed().String()
			}
			return c.C.String()
		default:
			return c.C.String()
		}
	case StringV:
		bs := x.Bytes()
		out := make([]byte, len(bs))
		for i, b := range bs {
			c := ev(b)
			if !c.IsConst() {
				return "?"
			}
			out[i] = byte(c.Uint64())
		}
		return fmt.Sprintf("%q", string(out))
	case SliceV, *ArrayV:
		var els []Value
		if s, ok := x.(SliceV); ok {
			if s.O == nil {
				return "nil"
			}
			els = w.sliceElems(s)
		} else {
			els = x.(*ArrayV).E
		}
		out := "["
		for i, e := range els {
			if i > 0 {
				out += " "
			}
			t, ok := e.(*Term)
			if !ok {
				return "?"
			}
			c := ev(t)
			if !c.IsConst() {
				return "?"
			}
			out += c.C.String()
		}
		return out + "]"
	case *BigV:
		c := ev(x.T)
		if c.IsConst() {
			return c.C.String()
		}
		return "?"
	case PtrV:
		if x.O == nil {
			return "<nilptr>"
		}
		return "?"
	}
	return "?"
}
