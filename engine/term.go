package main

// Hash-consed SMT terms with local simplification.

import (
	"os"
	"fmt"
	"math/big"
	"strings"
	"sync"
	"sync/atomic"
)

type SortKind uint8

const (
	KBool SortKind = iota
	KBV
	KInt
)

type Sort struct {
	K SortKind
	W int
}

var SBool = Sort{KBool, 0}
var SInt = Sort{KInt, 0}

func SBV(w int) Sort { return Sort{KBV, w} }

func (s Sort) String() string {
	switch s.K {
	case KBool:
		return "Bool"
	case KInt:
		return "Int"
	}
	return fmt.Sprintf("(_ BitVec %d)", s.W)
}

type Op uint8

const (
	OConst Op = iota
	OVar
	ONot
	OAnd
	OOr
	OIte
	OEq
	OBvAdd
	OBvSub
	OBvMul
	OBvUDiv
	OBvURem
	OBvSDiv
	OBvSRem
	OBvAnd
	OBvOr
	OBvXor
	OBvNot
	OBvNeg
	OBvShl
	OBvLShr
	OBvAShr
	OBvULt
	OBvULe
	OBvSLt
	OBvSLe
	OConcat
	OExtract
	OZExt
	OSExt
	OIAdd
	OISub
	OIMul
	OIDiv // SMT div (floor for positive divisor; euclidean)
	OIMod // SMT mod (euclidean)
	OINeg
	OIAbs
	OILt
	OILe
	OInt2BV
	OBV2Nat
	OApp
	OIBitLen // BV64 bit length of |x| for Int x
	OITz     // BV64 number of trailing zero bits of |x| (0 for x == 0)
)

var opNames = map[Op]string{
	ONot: "not", OAnd: "and", OOr: "or", OIte: "ite", OEq: "=",
	OBvAdd: "bvadd", OBvSub: "bvsub", OBvMul: "bvmul", OBvUDiv: "bvudiv", OBvURem: "bvurem",
	OBvSDiv: "bvsdiv", OBvSRem: "bvsrem", OBvAnd: "bvand", OBvOr: "bvor", OBvXor: "bvxor",
	OBvNot: "bvnot", OBvNeg: "bvneg", OBvShl: "bvshl", OBvLShr: "bvlshr", OBvAShr: "bvashr",
	OBvULt: "bvult", OBvULe: "bvule", OBvSLt: "bvslt", OBvSLe: "bvsle", OConcat: "concat",
	OIAdd: "+", OISub: "-", OIMul: "*", OIDiv: "div", OIMod: "mod", OINeg: "-", OIAbs: "abs",
	OILt: "<", OILe: "<=", OBV2Nat: "bv2nat",
}

type Term struct {
	Op   Op
	S    Sort
	Args []*Term
	C    *big.Int // constant value (Bool: 0/1; BV: unsigned; Int: any)
	Name string   // var / UF name
	A, B int      // extract hi/lo, ext amount, int2bv width
	ID   int64
	Sig  int // for BV: all bits at positions >= Sig are known to be zero
}

func computeSig(t *Term) int {
	if t.S.K != KBV {
		return 0
	}
	w := t.S.W
	lim := func(n int) int {
		if n > w {
			return w
		}
		return n
	}
	switch t.Op {
	case OConst:
		return t.C.BitLen()
	case OZExt:
		return t.Args[0].Sig
	case OBvAnd:
		return min(t.Args[0].Sig, t.Args[1].Sig)
	case OBvOr, OBvXor:
		return max(t.Args[0].Sig, t.Args[1].Sig)
	case OBvAdd:
		return lim(max(t.Args[0].Sig, t.Args[1].Sig) + 1)
	case OBvMul:
		return lim(t.Args[0].Sig + t.Args[1].Sig)
	case OBvUDiv, OBvURem:
		if t.Op == OBvURem {
			return min(t.Args[0].Sig, t.Args[1].Sig)
		}
		return t.Args[0].Sig
	case OBvLShr:
		return t.Args[0].Sig
	case OBvShl:
		if t.Args[1].IsConst() && t.Args[1].C.IsInt64() {
			return lim(t.Args[0].Sig + int(t.Args[1].C.Int64()))
		}
		return w
	case OIte:
		return max(t.Args[1].Sig, t.Args[2].Sig)
	case OConcat:
		if t.Args[0].Sig == 0 {
			return t.Args[1].Sig
		}
		return t.Args[1].S.W + t.Args[0].Sig
	case OIBitLen, OITz:
		return 12
	case OExtract:
		s := t.Args[0].Sig - t.B
		if s < 0 {
			s = 0
		}
		return lim(s)
	}
	return w
}

type termShard struct {
	sync.Mutex
	m map[string]*Term
}

var termShards = makeShards()
var termCounter int64

func makeShards() *[64]termShard {
	var s [64]termShard
	for i := range s {
		s[i].m = make(map[string]*Term)
	}
	return &s
}

func intern(t *Term) *Term {
	var sb strings.Builder
	fmt.Fprintf(&sb, "%d:%d:%d:%d:%d:%s", t.Op, t.S.K, t.S.W, t.A, t.B, t.Name)
	if t.C != nil {
		sb.WriteByte('#')
		sb.WriteString(t.C.Text(16))
	}
	h := uint32(2166136261)
	for _, a := range t.Args {
		fmt.Fprintf(&sb, ",%d", a.ID)
	}
	key := sb.String()
	for i := 0; i < len(key); i++ {
		h = (h ^ uint32(key[i])) * 16777619
	}
	sh := &termShards[h%64]
	sh.Lock()
	defer sh.Unlock()
	if e, ok := sh.m[key]; ok {
		return e
	}
	t.ID = atomic.AddInt64(&termCounter, 1)
	t.Sig = computeSig(t)
	sh.m[key] = t
	return t
}

// ---------- constants

var bigOne = big.NewInt(1)
var bigZero = big.NewInt(0)

func mask(w int) *big.Int {
	m := new(big.Int).Lsh(bigOne, uint(w))
	return m.Sub(m, bigOne)
}

func normBV(v *big.Int, w int) *big.Int {
	r := new(big.Int).And(v, mask(w)) // big.Int And on negative uses two's complement semantics
	return r
}

func BVConst(v *big.Int, w int) *Term {
	return intern(&Term{Op: OConst, S: SBV(w), C: normBV(v, w)})
}
func BVu(v uint64, w int) *Term { return BVConst(new(big.Int).SetUint64(v), w) }
func BVi(v int64, w int) *Term  { return BVConst(big.NewInt(v), w) }
func IntConst(v *big.Int) *Term { return intern(&Term{Op: OConst, S: SInt, C: new(big.Int).Set(v)}) }
func IntI(v int64) *Term        { return IntConst(big.NewInt(v)) }

var TTrue = intern(&Term{Op: OConst, S: SBool, C: big.NewInt(1)})
var TFalse = intern(&Term{Op: OConst, S: SBool, C: big.NewInt(0)})

func BoolConst(b bool) *Term {
	if b {
		return TTrue
	}
	return TFalse
}

func (t *Term) IsConst() bool { return t.Op == OConst }
func (t *Term) IsTrue() bool  { return t == TTrue }
func (t *Term) IsFalse() bool { return t == TFalse }

// signed value of a BV constant
func (t *Term) Signed() *big.Int {
	if t.S.K != KBV {
		return t.C
	}
	if t.C.Bit(t.S.W-1) == 1 {
		return new(big.Int).Sub(t.C, new(big.Int).Lsh(bigOne, uint(t.S.W)))
	}
	return t.C
}

func (t *Term) Uint64() uint64 { return t.C.Uint64() }
func (t *Term) Int64() int64   { return t.Signed().Int64() }

func Var(name string, s Sort) *Term { return intern(&Term{Op: OVar, S: s, Name: name}) }

// ---------- boolean

func Not(a *Term) *Term {
	if a.S.K != KBool {
		panic("Not: non-bool")
	}
	if a.IsConst() {
		return BoolConst(a.C.Sign() == 0)
	}
	if a.Op == ONot {
		return a.Args[0]
	}
	return intern(&Term{Op: ONot, S: SBool, Args: []*Term{a}})
}

func And(xs ...*Term) *Term {
	var out []*Term
	for _, x := range xs {
		if x.IsFalse() {
			return TFalse
		}
		if x.IsTrue() {
			continue
		}
		if x.Op == OAnd {
			out = append(out, x.Args...)
			continue
		}
		out = append(out, x)
	}
	// dedup and contradiction
	seen := map[int64]bool{}
	var o2 []*Term
	for _, x := range out {
		if seen[x.ID] {
			continue
		}
		seen[x.ID] = true
		o2 = append(o2, x)
	}
	for _, x := range o2 {
		if x.Op == ONot && seen[x.Args[0].ID] {
			return TFalse
		}
	}
	switch len(o2) {
	case 0:
		return TTrue
	case 1:
		return o2[0]
	}
	return intern(&Term{Op: OAnd, S: SBool, Args: o2})
}

func Or(xs ...*Term) *Term {
	var out []*Term
	for _, x := range xs {
		if x.IsTrue() {
			return TTrue
		}
		if x.IsFalse() {
			continue
		}
		if x.Op == OOr {
			out = append(out, x.Args...)
			continue
		}
		out = append(out, x)
	}
	seen := map[int64]bool{}
	var o2 []*Term
	for _, x := range out {
		if seen[x.ID] {
			continue
		}
		seen[x.ID] = true
		o2 = append(o2, x)
	}
	for _, x := range o2 {
		if x.Op == ONot && seen[x.Args[0].ID] {
			return TTrue
		}
	}
	switch len(o2) {
	case 0:
		return TFalse
	case 1:
		return o2[0]
	}
	return intern(&Term{Op: OOr, S: SBool, Args: o2})
}

func Implies(a, b *Term) *Term { return Or(Not(a), b) }

func Ite(c, a, b *Term) *Term {
	if a.S != b.S {
		panic(fmt.Sprintf("Ite: sort mismatch %v %v", a.S, b.S))
	}
	if c.IsTrue() {
		return a
	}
	if c.IsFalse() {
		return b
	}
	if a == b {
		return a
	}
	if a.S.K == KBool {
		if a.IsTrue() && b.IsFalse() {
			return c
		}
		if a.IsFalse() && b.IsTrue() {
			return Not(c)
		}
		if a.IsTrue() {
			return Or(c, b)
		}
		if a.IsFalse() {
			return And(Not(c), b)
		}
		if b.IsTrue() {
			return Or(Not(c), a)
		}
		if b.IsFalse() {
			return And(c, a)
		}
	}
	if c.Op == ONot {
		return Ite(c.Args[0], b, a)
	}
	// ite(c, x, ite(c, y, z)) -> ite(c, x, z)
	if b.Op == OIte && b.Args[0] == c {
		return Ite(c, a, b.Args[2])
	}
	if a.Op == OIte && a.Args[0] == c {
		return Ite(c, a.Args[1], b)
	}
	return intern(&Term{Op: OIte, S: a.S, Args: []*Term{c, a, b}})
}

func Eq(a, b *Term) *Term {
	if a.S != b.S {
		panic(fmt.Sprintf("Eq: sort mismatch %v %v (%s vs %s)", a.S, b.S, a, b))
	}
	if a == b {
		return TTrue
	}
	if a.IsConst() && b.IsConst() {
		return BoolConst(a.C.Cmp(b.C) == 0)
	}
	if a.S.K == KBool {
		if a.IsTrue() {
			return b
		}
		if a.IsFalse() {
			return Not(b)
		}
		if b.IsTrue() {
			return a
		}
		if b.IsFalse() {
			return Not(a)
		}
	}
	if a.IsConst() {
		a, b = b, a
	}
	if a.S.K == KInt {
		if r, ok := intCmpAsBV(OEq, a, b); ok {
			return r
		}
	}
	if a.Op == OIBitLen || a.Op == OITz {
		if r, ok := lenEq(a, b); ok {
			return r
		}
	}
	if b.IsConst() && a.S.K == KBV && b.C.BitLen() > a.Sig {
		return TFalse
	}
	if a.S.K == KBV && !dbgOff["intbacked"] && intBacked(a) && (b.IsConst() || intBacked(b)) {
		return Eq(BV2Nat(a), BV2Nat(b))
	}
	// eq(ite(c, k1, k2), k) with consts
	if b.IsConst() && a.Op == OIte {
		x, y := a.Args[1], a.Args[2]
		if x.IsConst() || y.IsConst() {
			return Ite(a.Args[0], Eq(x, b), Eq(y, b))
		}
	}
	// eq(zext(x), const): compare in narrow width
	if b.IsConst() && a.Op == OZExt {
		x := a.Args[0]
		if b.C.BitLen() > x.S.W {
			return TFalse
		}
		return Eq(x, BVConst(b.C, x.S.W))
	}
	if a.Op == OConcat || (b.Op == OConcat && !a.IsConst()) {
		if a.Op != OConcat {
			a, b = b, a
		}
		parts := mergeExtractRuns(flattenConcat(a))
		if len(parts) > 1 {
			cs := make([]*Term, 0, len(parts))
			hi := a.S.W - 1
			for _, p := range parts {
				cs = append(cs, Eq(p, Extract(b, hi, hi-p.S.W+1)))
				hi -= p.S.W
			}
			return And(cs...)
		}
		if len(parts) == 1 && parts[0] != a {
			return Eq(parts[0], b)
		}
	}
	if hashInjective && a.Op == OApp && (b.Op == OApp || b.IsConst()) {
		return wholeEq(a, b)
	}

	if a.ID > b.ID && !b.IsConst() {
		a, b = b, a
	}
	return intern(&Term{Op: OEq, S: SBool, Args: []*Term{a, b}})
}

func Ne(a, b *Term) *Term { return Not(Eq(a, b)) }

// intBacked reports whether a bit-vector is (a slice of) an integer truncated to bits; its
// unsigned value then has a pure integer form: (n div 2^lo) mod 2^width.
func intBacked(t *Term) bool {
	return t.Op == OInt2BV || (t.Op == OExtract && t.Args[0].Op == OInt2BV)
}

// ---------- bit-vectors

func bvFold(op Op, a, b *Term) *Term {
	w := a.S.W
	x, y := a.C, b.C
	r := new(big.Int)
	switch op {
	case OBvAdd:
		r.Add(x, y)
	case OBvSub:
		r.Sub(x, y)
	case OBvMul:
		r.Mul(x, y)
	case OBvAnd:
		r.And(x, y)
	case OBvOr:
		r.Or(x, y)
	case OBvXor:
		r.Xor(x, y)
	case OBvUDiv:
		if y.Sign() == 0 {
			return BVConst(mask(w), w)
		}
		r.Quo(x, y)
	case OBvURem:
		if y.Sign() == 0 {
			return a
		}
		r.Rem(x, y)
	case OBvSDiv:
		sx, sy := a.Signed(), b.Signed()
		if sy.Sign() == 0 {
			if sx.Sign() >= 0 {
				return BVConst(mask(w), w)
			}
			return BVu(1, w)
		}
		r.Quo(sx, sy)
	case OBvSRem:
		sx, sy := a.Signed(), b.Signed()
		if sy.Sign() == 0 {
			return a
		}
		r.Rem(sx, sy)
	case OBvShl:
		if y.Cmp(big.NewInt(int64(w))) >= 0 {
			return BVu(0, w)
		}
		r.Lsh(x, uint(y.Uint64()))
	case OBvLShr:
		if y.Cmp(big.NewInt(int64(w))) >= 0 {
			return BVu(0, w)
		}
		r.Rsh(x, uint(y.Uint64()))
	case OBvAShr:
		sx := a.Signed()
		sh := uint(w)
		if y.Cmp(big.NewInt(int64(w))) < 0 {
			sh = uint(y.Uint64())
		}
		r.Rsh(sx, sh)
	default:
		panic("bvFold")
	}
	return BVConst(r, w)
}

func isZero(t *Term) bool { return t.IsConst() && t.C.Sign() == 0 }
func isOne(t *Term) bool  { return t.IsConst() && t.C.Cmp(bigOne) == 0 }
func isAllOnes(t *Term) bool {
	return t.IsConst() && t.S.K == KBV && t.C.Cmp(mask(t.S.W)) == 0
}

func BvBin(op Op, a, b *Term) *Term {
	if a.S != b.S || a.S.K != KBV {
		panic(fmt.Sprintf("BvBin %s: sort mismatch %v %v", opNames[op], a.S, b.S))
	}
	w := a.S.W
	if a.IsConst() && b.IsConst() {
		return bvFold(op, a, b)
	}
	// canonical narrowing: operate in the smallest width that holds the result, then zero-extend
	{
		k := w
		switch op {
		case OBvAdd:
			k = max(a.Sig, b.Sig) + 1
		case OBvMul:
			k = a.Sig + b.Sig
		case OBvAnd:
			k = min(a.Sig, b.Sig)
		case OBvOr, OBvXor, OBvUDiv, OBvURem:
			k = max(a.Sig, b.Sig)
		}
		if k < w {
			if k == 0 {
				return BVu(0, w)
			}
			return ZExt(BvBin(op, Extract(a, k-1, 0), Extract(b, k-1, 0)), w)
		}
	}
	switch op {
	case OBvAdd:
		if isZero(a) {
			return b
		}
		if isZero(b) {
			return a
		}
		// (x + c1) + c2
		if b.IsConst() && a.Op == OBvAdd && a.Args[1].IsConst() {
			return BvBin(OBvAdd, a.Args[0], bvFold(OBvAdd, a.Args[1], b))
		}
		if a.IsConst() {
			a, b = b, a
		}
	case OBvSub:
		if isZero(b) {
			return a
		}
		if a == b {
			return BVu(0, w)
		}
		if b.IsConst() {
			return BvBin(OBvAdd, a, BVConst(new(big.Int).Neg(b.C), w))
		}
	case OBvMul:
		if isZero(a) || isZero(b) {
			return BVu(0, w)
		}
		if isOne(a) {
			return b
		}
		if isOne(b) {
			return a
		}
		if a.IsConst() {
			a, b = b, a
		}
		if b.IsConst() && b.C.Sign() > 0 && new(big.Int).And(b.C, new(big.Int).Sub(b.C, bigOne)).Sign() == 0 {
			return BvBin(OBvShl, a, BVu(uint64(b.C.BitLen()-1), w))
		}
	case OBvAnd:
		if isZero(a) || isZero(b) {
			return BVu(0, w)
		}
		if isAllOnes(a) {
			return b
		}
		if isAllOnes(b) {
			return a
		}
		if a == b {
			return a
		}
		if a.IsConst() {
			a, b = b, a
		}
		// and(zext(x), mask) where mask covers x fully
		if b.IsConst() && a.Op == OZExt {
			xw := a.Args[0].S.W
			if new(big.Int).And(b.C, mask(xw)).Cmp(mask(xw)) == 0 {
				return a
			}
		}
		// and(x, 2^k-1) -> zext(extract(x,k-1,0))
		if b.IsConst() {
			k := b.C.BitLen()
			if k < w && b.C.Cmp(mask(k)) == 0 {
				return ZExt(Extract(a, k-1, 0), w)
			}
		}
	case OBvOr:
		if isZero(a) {
			return b
		}
		if isZero(b) {
			return a
		}
		if a == b {
			return a
		}
		if isAllOnes(a) || isAllOnes(b) {
			return BVConst(mask(w), w)
		}
		if a.IsConst() {
			a, b = b, a
		}
	case OBvXor:
		if isZero(a) {
			return b
		}
		if isZero(b) {
			return a
		}
		if a == b {
			return BVu(0, w)
		}
		if a.IsConst() {
			a, b = b, a
		}
	case OBvShl, OBvLShr, OBvAShr:
		if isZero(b) {
			return a
		}
		if isZero(a) {
			return a
		}
		if b.IsConst() && op != OBvAShr && b.C.Cmp(big.NewInt(int64(w))) >= 0 {
			return BVu(0, w)
		}
		if b.IsConst() && op == OBvLShr {
			k := int(b.C.Int64())
			// lshr(x, k) = zext(extract(x, w-1, k))
			return ZExt(Extract(a, w-1, k), w)
		}
		if b.IsConst() && op == OBvShl {
			k := int(b.C.Int64())
			return Concat(Extract(a, w-1-k, 0), BVu(0, k))
		}
	case OBvUDiv:
		if isOne(b) {
			return a
		}
		if b.IsConst() && b.C.Sign() > 0 && new(big.Int).And(b.C, new(big.Int).Sub(b.C, bigOne)).Sign() == 0 {
			return BvBin(OBvLShr, a, BVu(uint64(b.C.BitLen()-1), w))
		}
	case OBvURem:
		if isOne(b) {
			return BVu(0, w)
		}
		if b.IsConst() && b.C.Sign() > 0 && new(big.Int).And(b.C, new(big.Int).Sub(b.C, bigOne)).Sign() == 0 {
			return BvBin(OBvAnd, a, BVConst(new(big.Int).Sub(b.C, bigOne), w))
		}
	case OBvSDiv:
		if isOne(b) {
			return a
		}
		if a.Sig < w && b.Sig < w {
			return BvBin(OBvUDiv, a, b)
		}
	case OBvSRem:
		if a.Sig < w && b.Sig < w {
			return BvBin(OBvURem, a, b)
		}
	}
	return intern(&Term{Op: op, S: a.S, Args: []*Term{a, b}})
}

func BvNot(a *Term) *Term {
	if a.IsConst() {
		return BVConst(new(big.Int).Xor(a.C, mask(a.S.W)), a.S.W)
	}
	if a.Op == OBvNot {
		return a.Args[0]
	}
	return intern(&Term{Op: OBvNot, S: a.S, Args: []*Term{a}})
}

func BvNeg(a *Term) *Term {
	if a.IsConst() {
		return BVConst(new(big.Int).Neg(a.C), a.S.W)
	}
	if a.Op == OBvNeg {
		return a.Args[0]
	}
	return intern(&Term{Op: OBvNeg, S: a.S, Args: []*Term{a}})
}

func BvCmp(op Op, a, b *Term) *Term {
	if a.S != b.S || a.S.K != KBV {
		panic(fmt.Sprintf("BvCmp: sort mismatch %v %v", a.S, b.S))
	}
	if a.IsConst() && b.IsConst() {
		var c int
		if op == OBvULt || op == OBvULe {
			c = a.C.Cmp(b.C)
		} else {
			c = a.Signed().Cmp(b.Signed())
		}
		if op == OBvULt || op == OBvSLt {
			return BoolConst(c < 0)
		}
		return BoolConst(c <= 0)
	}
	if a == b {
		return BoolConst(op == OBvULe || op == OBvSLe)
	}
	if a.Op == OIBitLen || b.Op == OIBitLen {
		if r, ok := lenCmp(op, a, b); ok {
			return r
		}
	}
	switch op {
	case OBvULt:
		if isZero(b) {
			return TFalse
		}
		if isZero(a) {
			return Ne(b, a)
		}
	case OBvULe:
		if isZero(a) {
			return TTrue
		}
		if isAllOnes(b) {
			return TTrue
		}
	}
	if !dbgOff["intbacked"] && (op == OBvULt || op == OBvULe) && ((intBacked(a) && (b.IsConst() || intBacked(b))) || (intBacked(b) && a.IsConst())) {
		if op == OBvULt {
			return ILt(BV2Nat(a), BV2Nat(b))
		}
		return ILe(BV2Nat(a), BV2Nat(b))
	}
	if (op == OBvULt || op == OBvULe) && b.IsConst() && a.Sig < a.S.W && b.C.BitLen() > a.Sig {
		return TTrue
	}
	if (op == OBvULt || op == OBvULe) && a.IsConst() && b.Sig < b.S.W && a.C.BitLen() > b.Sig {
		return TFalse
	}
	// signed comparison of two values with clear sign bits is the unsigned one
	if (op == OBvSLt || op == OBvSLe) && a.Sig < a.S.W && b.Sig < b.S.W {
		uop := OBvULt
		if op == OBvSLe {
			uop = OBvULe
		}
		return BvCmp(uop, a, b)
	}
	// compare zero-extended values in narrow width when possible
	if (op == OBvULt || op == OBvULe) && a.Op == OZExt && b.IsConst() {
		x := a.Args[0]
		if b.C.BitLen() > x.S.W {
			return TTrue
		}
		return BvCmp(op, x, BVConst(b.C, x.S.W))
	}
	if (op == OBvULt || op == OBvULe) && b.Op == OZExt && a.IsConst() {
		x := b.Args[0]
		if a.C.BitLen() > x.S.W {
			return TFalse
		}
		return BvCmp(op, BVConst(a.C, x.S.W), x)
	}
	if (op == OBvSLt || op == OBvSLe) && a.Op == OZExt && b.IsConst() && a.Args[0].S.W < a.S.W {
		// zext value is non-negative
		if b.Signed().Sign() < 0 {
			return TFalse
		}
		uop := OBvULt
		if op == OBvSLe {
			uop = OBvULe
		}
		return BvCmp(uop, a, b)
	}
	if (op == OBvSLt || op == OBvSLe) && b.Op == OZExt && a.IsConst() && b.Args[0].S.W < b.S.W {
		if a.Signed().Sign() < 0 {
			return TTrue
		}
		uop := OBvULt
		if op == OBvSLe {
			uop = OBvULe
		}
		return BvCmp(uop, a, b)
	}
	return intern(&Term{Op: op, S: SBool, Args: []*Term{a, b}})
}

func Concat(hi, lo *Term) *Term {
	w := hi.S.W + lo.S.W
	if hi.S.W == 0 {
		return lo
	}
	if lo.S.W == 0 {
		return hi
	}
	if hi.IsConst() && lo.IsConst() {
		r := new(big.Int).Lsh(hi.C, uint(lo.S.W))
		r.Or(r, lo.C)
		return BVConst(r, w)
	}
	// concat(extract(x,a,b), extract(x,b-1,c)) -> extract(x,a,c)
	if hi.Op == OExtract && lo.Op == OExtract && hi.Args[0] == lo.Args[0] && hi.B == lo.A+1 {
		return Extract(hi.Args[0], hi.A, lo.B)
	}
	if isZero(hi) {
		return ZExt(lo, w)
	}
	return intern(&Term{Op: OConcat, S: SBV(w), Args: []*Term{hi, lo}})
}

func Extract(a *Term, hi, lo int) *Term {
	if a.S.K != KBV || hi < lo || hi >= a.S.W || lo < 0 {
		panic(fmt.Sprintf("Extract: bad range %d:%d of %v", hi, lo, a.S))
	}
	w := hi - lo + 1
	if w == a.S.W {
		return a
	}
	if a.IsConst() {
		r := new(big.Int).Rsh(a.C, uint(lo))
		return BVConst(r, w)
	}
	if lo >= a.Sig {
		return BVu(0, w)
	}
	if hi >= a.Sig && a.Sig > 0 {
		return ZExt(Extract(a, a.Sig-1, lo), w)
	}
	switch a.Op {
	case OExtract:
		return Extract(a.Args[0], a.B+hi, a.B+lo)
	case OConcat:
		l := a.Args[1]
		h := a.Args[0]
		if hi < l.S.W {
			return Extract(l, hi, lo)
		}
		if lo >= l.S.W {
			return Extract(h, hi-l.S.W, lo-l.S.W)
		}
		return Concat(Extract(h, hi-l.S.W, 0), Extract(l, l.S.W-1, lo))
	case OZExt:
		x := a.Args[0]
		if hi < x.S.W {
			return Extract(x, hi, lo)
		}
		if lo >= x.S.W {
			return BVu(0, w)
		}
		return ZExt(Extract(x, x.S.W-1, lo), w)
	case OSExt:
		x := a.Args[0]
		if hi < x.S.W {
			return Extract(x, hi, lo)
		}
	case OBvAnd, OBvOr, OBvXor:
		if lo == 0 || a.Args[1].IsConst() {
			return BvBin(a.Op, Extract(a.Args[0], hi, lo), Extract(a.Args[1], hi, lo))
		}
	case OBvAdd, OBvSub, OBvMul:
		if lo == 0 {
			return BvBin(a.Op, Extract(a.Args[0], hi, 0), Extract(a.Args[1], hi, 0))
		}
	case OIte:
		if a.Args[1].IsConst() || a.Args[2].IsConst() {
			return Ite(a.Args[0], Extract(a.Args[1], hi, lo), Extract(a.Args[2], hi, lo))
		}
	}
	return intern(&Term{Op: OExtract, S: SBV(w), Args: []*Term{a}, A: hi, B: lo})
}

func ZExt(a *Term, w int) *Term {
	if a.S.K != KBV {
		panic("ZExt non-bv")
	}
	if w == a.S.W {
		return a
	}
	if w < a.S.W {
		return Extract(a, w-1, 0)
	}
	if a.IsConst() {
		return BVConst(a.C, w)
	}
	if a.Op == OZExt {
		return ZExt(a.Args[0], w)
	}
	if a.Op == OIte && (a.Args[1].IsConst() || a.Args[2].IsConst()) {
		return Ite(a.Args[0], ZExt(a.Args[1], w), ZExt(a.Args[2], w))
	}
	return intern(&Term{Op: OZExt, S: SBV(w), Args: []*Term{a}, A: w - a.S.W})
}

func SExt(a *Term, w int) *Term {
	if w == a.S.W {
		return a
	}
	if w < a.S.W {
		return Extract(a, w-1, 0)
	}
	if a.IsConst() {
		return BVConst(a.Signed(), w)
	}
	if a.Op == OZExt && a.Args[0].S.W < a.S.W {
		return ZExt(a.Args[0], w)
	}
	if a.Op == OIte && (a.Args[1].IsConst() || a.Args[2].IsConst()) {
		return Ite(a.Args[0], SExt(a.Args[1], w), SExt(a.Args[2], w))
	}
	return intern(&Term{Op: OSExt, S: SBV(w), Args: []*Term{a}, A: w - a.S.W})
}

// ---------- integers

func IntBin(op Op, a, b *Term) *Term {
	if a.S.K != KInt || b.S.K != KInt {
		panic("IntBin: non-int")
	}
	if a.IsConst() && b.IsConst() {
		r := new(big.Int)
		switch op {
		case OIAdd:
			r.Add(a.C, b.C)
		case OISub:
			r.Sub(a.C, b.C)
		case OIMul:
			r.Mul(a.C, b.C)
		case OIDiv:
			if b.C.Sign() == 0 {
				goto nofold
			}
			r.Div(a.C, b.C) // Euclidean, same as SMT-LIB
		case OIMod:
			if b.C.Sign() == 0 {
				goto nofold
			}
			r.Mod(a.C, b.C)
		}
		return IntConst(r)
	}
nofold:
	switch op {
	case OIAdd:
		if isZero(a) {
			return b
		}
		if isZero(b) {
			return a
		}
		// bv2nat(A)*2^w + bv2nat(B) with |B| == w is bv2nat(A ++ B): positional byte sums
		// written in integer arithmetic fold back into the bit-vector they spell out
		if r := foldPositional(a, b); r != nil {
			return r
		}
		if r := foldPositional(b, a); r != nil {
			return r
		}
		if r := addIntoZeroLowBits(a, b); r != nil {
			return r
		}
		if r := addIntoZeroLowBits(b, a); r != nil {
			return r
		}
		if r := bvBackedArith(op, a, b); r != nil {
			return r
		}
	case OISub:
		if isZero(b) {
			return a
		}
		if a == b {
			return IntI(0)
		}
		if r := bvBackedArith(op, a, b); r != nil {
			return r
		}
	case OIMul:
		if isZero(a) || isZero(b) {
			return IntI(0)
		}
		if isOne(a) {
			return b
		}
		if isOne(b) {
			return a
		}
		// a bit-vector's value times 2^k is the value of the bit-vector with k zero bits appended
		for _, pr := range [][2]*Term{{a, b}, {b, a}} {
			if k, ok := log2Const(pr[1]); ok {
				if x, signed, okx := bvBacked(pr[0]); okx && x.S.W+k <= bvArithMaxWidth {
					sh := Concat(x, BVi(0, k))
					if signed {
						return BV2IntSigned(sh)
					}
					return BV2Nat(sh)
				}
			}
		}
		if r := bvBackedArith(op, a, b); r != nil {
			return r
		}
	case OIDiv:
		if isOne(b) {
			return a
		}
		// floor((t +- c) / 2^k) == floor(t / 2^k) +- c/2^k when 2^k divides c
		if k, ok := log2Const(b); ok && (a.Op == OIAdd || a.Op == OISub) && a.Args[1].IsConst() && int2bvCheap(a.Args[0]) &&
			new(big.Int).Mod(a.Args[1].C, pow2(k)).Sign() == 0 {
			return IntBin(a.Op, IntBin(OIDiv, a.Args[0], b), IntConst(new(big.Int).Div(a.Args[1].C, pow2(k))))
		}
		// floor division of a bit-vector's value by 2^k is a shift of the bit-vector
		if k, ok := log2Const(b); ok {
			if x, signed, okx := bvBacked(a); okx {
				w := x.S.W
				switch {
				case signed && k < w:
					return BV2IntSigned(Extract(x, w-1, k))
				case signed:
					return BV2IntSigned(Extract(x, w-1, w-1))
				case k < w:
					return BV2Nat(Extract(x, w-1, k))
				default:
					return IntI(0)
				}
			}
		}
	case OIMod:
		// y mod 2^k is the unsigned value of y truncated to k bits
		if k, ok := log2Const(b); ok && k > 0 && (a.Op == OIAdd || a.Op == OISub) && int2bvCheap(a) {
			return BV2Nat(Int2BV(a, k))
		}
		// the value of a bit-vector modulo 2^k is the value of its low k bits
		if k, ok := log2Const(b); ok && k > 0 {
			if x, signed, okx := bvBacked(a); okx {
				w := x.S.W
				switch {
				case k <= w:
					return BV2Nat(Extract(x, k-1, 0))
				case signed:
					return BV2Nat(SExt(x, k))
				default:
					return a
				}
			}
		}
		// (x mod a) mod b == x mod b when b divides a (both positive constants)
		if !dbgOff["modmod"] && b.IsConst() && b.C.Sign() > 0 && a.Op == OIMod && a.Args[1].IsConst() && a.Args[1].C.Sign() > 0 &&
			new(big.Int).Mod(a.Args[1].C, b.C).Sign() == 0 {
			return IntBin(OIMod, a.Args[0], b)
		}
	}
	return intern(&Term{Op: op, S: SInt, Args: []*Term{a, b}})
}

// natOf remembers, for integer terms produced by BV2Nat's rewrites, the bit-vector they stand for.
var natOf sync.Map

func bvOfNat(t *Term) *Term {
	if t.Op == OBV2Nat {
		return t.Args[0]
	}
	if b, ok := natOf.Load(t.ID); ok {
		return b.(*Term)
	}
	return nil
}

// asBits matches the integer form of a bit field of n: (n div 2^lo) mod 2^width.
func asBits(t *Term) (n *Term, lo, width int, ok bool) {
	if t.Op != OIMod || !t.Args[1].IsConst() {
		return nil, 0, 0, false
	}
	m := t.Args[1].C
	if m.Sign() <= 0 || new(big.Int).And(m, new(big.Int).Sub(m, bigOne)).Sign() != 0 {
		return nil, 0, 0, false
	}
	width = m.BitLen() - 1
	x := t.Args[0]
	if x.Op == OIDiv && x.Args[1].IsConst() {
		d := x.Args[1].C
		if d.Sign() > 0 && new(big.Int).And(d, new(big.Int).Sub(d, bigOne)).Sign() == 0 {
			return x.Args[0], d.BitLen() - 1, width, true
		}
	}
	return x, 0, width, true
}

func mkBits(n *Term, lo, width int) *Term {
	x := n
	if lo > 0 {
		x = IntBin(OIDiv, n, IntConst(pow2(lo)))
	}
	return IntBin(OIMod, x, IntConst(pow2(width)))
}

// addIntoZeroLowBits: value(hi ++ 0_k) + unsigned value(B) with |B| <= k is value(hi ++ zext(B)).
func addIntoZeroLowBits(a, b *Term) *Term {
	xa, sa, oka := bvBacked(a)
	xb, sb, okb := bvBacked(b)
	if !oka || !okb || sb {
		return nil
	}
	if xa.Op != OConcat || !xa.Args[1].IsConst() || xa.Args[1].C.Sign() != 0 || xa.Args[1].S.W < xb.S.W {
		return nil
	}
	r := Concat(xa.Args[0], ZExt(xb, xa.Args[1].S.W))
	if sa {
		return BV2IntSigned(r)
	}
	return BV2Nat(r)
}

// log2Const: b is the constant 2^k.
func log2Const(b *Term) (int, bool) {
	if dbgOff["divmod"] {
		return 0, false
	}
	if !b.IsConst() || b.C.Sign() <= 0 {
		return 0, false
	}
	if new(big.Int).And(b.C, new(big.Int).Sub(b.C, bigOne)).Sign() != 0 {
		return 0, false
	}
	return b.C.BitLen() - 1, true
}

var dbgOff = map[string]bool{}

func init() {
	for _, n := range strings.Split(os.Getenv("VF_NO_RULE"), ",") {
		dbgOff[n] = true
	}
}

func foldPositional(hi, lo *Term) *Term {
	if hi.Op == OIMul && !dbgOff["asbits"] {
		x, c := hi.Args[0], hi.Args[1]
		if x.IsConst() {
			x, c = c, x
		}
		if c.IsConst() {
			if n1, a, p, ok1 := asBits(x); ok1 {
				if n2, b, q, ok2 := asBits(lo); ok2 && n1 == n2 && a == b+q && c.C.Cmp(pow2(q)) == 0 {
					return mkBits(n1, b, p+q)
				}
			}
		}
	}
	lb := bvOfNat(lo)
	if lb == nil || hi.Op != OIMul {
		return nil
	}
	x, c := hi.Args[0], hi.Args[1]
	if x.IsConst() {
		x, c = c, x
	}
	xb := bvOfNat(x)
	if !c.IsConst() || xb == nil {
		return nil
	}
	if c.C.Cmp(pow2(lb.S.W)) != 0 {
		return nil
	}
	return BV2Nat(Concat(xb, lb))
}


// bvArithMaxWidth bounds the widths produced by bit-vector-backed integer arithmetic.
const bvArithMaxWidth = 320

// asSignedBV returns a bit-vector whose signed value is the integer term: the bit-vector behind
// a signed-backed term, the zero-extension of an unsigned-backed one, or a constant.
// pureBV: the bit-vector term contains no truncation of an integer-sorted term; arithmetic is
// moved to bit-vectors only for such terms (mixing int2bv of integer variables into wide
// bit-vector arithmetic makes queries harder, not easier).
var pureBVCache sync.Map

func pureBV(t *Term) bool {
	if v, ok := pureBVCache.Load(t.ID); ok {
		return v.(bool)
	}
	r := t.Op != OInt2BV && t.Op != OIBitLen && t.Op != OITz
	if r {
		for _, a := range t.Args {
			if a.S.K == KInt || !pureBV(a) {
				r = false
				break
			}
		}
	}
	pureBVCache.Store(t.ID, r)
	return r
}

func asSignedBV(t *Term) (*Term, bool) {
	if bvIntsOff.Load() {
		return nil, false
	}
	if t.IsConst() {
		w := t.C.BitLen() + 1
		if w > bvArithMaxWidth {
			return nil, false
		}
		return BVConst(t.C, w), true
	}
	x, signed, ok := bvBacked(t)
	if !ok || !pureBV(x) {
		return nil, false
	}
	if signed {
		return x, true
	}
	return ZExt(x, x.S.W+1), true
}

// bvBackedArith computes a + b, a - b or a * b exactly on widened bit-vectors when both
// operands are values of bit-vectors (at least one of them non-constant).
func bvBackedArith(op Op, a, b *Term) *Term {
	if a.IsConst() && b.IsConst() {
		return nil
	}
	xa, oka := asSignedBV(a)
	if !oka {
		return nil
	}
	xb, okb := asSignedBV(b)
	if !okb {
		return nil
	}
	switch op {
	case OIAdd, OISub:
		w := xa.S.W
		if xb.S.W > w {
			w = xb.S.W
		}
		w++
		if w > bvArithMaxWidth {
			return nil
		}
		bop := OBvAdd
		if op == OISub {
			bop = OBvSub
		}
		return BV2IntSigned(BvBin(bop, SExt(xa, w), SExt(xb, w)))
	case OIMul:
		w := xa.S.W + xb.S.W
		if w > bvArithMaxWidth {
			return nil
		}
		return BV2IntSigned(BvBin(OBvMul, SExt(xa, w), SExt(xb, w)))
	}
	return nil
}

// bvBackedQuoRem: truncated quotient/remainder (Go's Quo/Rem) of bit-vector-backed integers;
// the caller guarantees a non-zero divisor.
func bvBackedQuoRem(rem bool, a, b *Term) *Term {
	if a.IsConst() && b.IsConst() {
		return nil
	}
	xa, oka := asSignedBV(a)
	xb, okb := asSignedBV(b)
	if !oka || !okb {
		return nil
	}
	w := xa.S.W
	if xb.S.W > w {
		w = xb.S.W
	}
	w++ // -2^(w-1) / -1 does not overflow in w+1 bits
	if w > bvArithMaxWidth {
		return nil
	}
	op := OBvSDiv
	if rem {
		op = OBvSRem
	}
	return BV2IntSigned(BvBin(op, SExt(xa, w), SExt(xb, w)))
}

func INeg(a *Term) *Term {
	if a.IsConst() {
		return IntConst(new(big.Int).Neg(a.C))
	}
	if a.Op == OINeg {
		return a.Args[0]
	}
	if x, ok := asSignedBV(a); ok && x.S.W < bvArithMaxWidth {
		return BV2IntSigned(BvNeg(SExt(x, x.S.W+1)))
	}
	return intern(&Term{Op: OINeg, S: SInt, Args: []*Term{a}})
}

func IAbs(a *Term) *Term {
	if a.IsConst() {
		return IntConst(new(big.Int).Abs(a.C))
	}
	if x, ok := asSignedBV(a); ok {
		// |x| <= 2^(w-1) fits w bits unsigned
		return BV2Nat(Ite(BvCmp(OBvSLt, x, BVi(0, x.S.W)), BvNeg(x), x))
	}
	return Ite(ILt(a, IntI(0)), INeg(a), a)
}

// bvBacked returns the bit-vector an integer term is the (signed or unsigned) value of.
// bvIntsOff disables the bit-vector-backed integer rewrites for a harness (//vf:bvints off):
// they pay off where machine integers meet VM integers (C12-C14, C07) and can cost where
// integer-sorted variables dominate (C05).
var bvIntsOff atomic.Bool

func bvBacked(t *Term) (bv *Term, signed bool, ok bool) {
	if bvIntsOff.Load() {
		return nil, false, false
	}
	if t.Op == OBV2Nat {
		if !pureBV(t.Args[0]) {
			return nil, false, false
		}
		return t.Args[0], false, true
	}
	if b, found := signedOf.Load(t.ID); found {
		if !pureBV(b.(*Term)) {
			return nil, false, false
		}
		return b.(*Term), true, true
	}
	return nil, false, false
}

// intCmpAsBV rewrites a comparison between the integer value of a bit-vector and an integer
// constant (or the value of another bit-vector of the same width and signedness) into a
// bit-vector comparison. op is OILt, OILe or OEq; ok=false when the rewrite does not apply.
func intCmpAsBV(op Op, a, b *Term) (*Term, bool) {
	if dbgOff["cmpbv"] {
		return nil, false
	}
	// (t +- k) cmp c  ==>  t cmp (c -+ k)
	shift := func(t *Term) (*Term, *big.Int) {
		if t.Op == OISub && t.Args[1].IsConst() {
			return t.Args[0], t.Args[1].C
		}
		if t.Op == OIAdd && t.Args[1].IsConst() {
			return t.Args[0], new(big.Int).Neg(t.Args[1].C)
		}
		if t.Op == OIAdd && t.Args[0].IsConst() {
			return t.Args[1], new(big.Int).Neg(t.Args[0].C)
		}
		return nil, nil
	}
	if b.IsConst() {
		if t, k := shift(a); t != nil {
			if _, _, ok := bvBacked(t); ok {
				return intCmpAsBV(op, t, IntConst(new(big.Int).Add(b.C, k)))
			}
		}
	}
	if a.IsConst() {
		if t, k := shift(b); t != nil {
			if _, _, ok := bvBacked(t); ok {
				return intCmpAsBV(op, IntConst(new(big.Int).Add(a.C, k)), t)
			}
		}
	}
	xa, sa, oka := bvBacked(a)
	xb, sb, okb := bvBacked(b)
	cmp := func(x, y *Term, signed bool) *Term {
		switch op {
		case OILt:
			if signed {
				return BvCmp(OBvSLt, x, y)
			}
			return BvCmp(OBvULt, x, y)
		case OILe:
			if signed {
				return BvCmp(OBvSLe, x, y)
			}
			return BvCmp(OBvULe, x, y)
		}
		return Eq(x, y)
	}
	rng := func(w int, signed bool) (lo, hi *big.Int) {
		if signed {
			return new(big.Int).Neg(pow2(w - 1)), new(big.Int).Sub(pow2(w-1), bigOne)
		}
		return new(big.Int), new(big.Int).Sub(pow2(w), bigOne)
	}
	switch {
	case oka && okb && sa == sb && xa.S.W == xb.S.W:
		return cmp(xa, xb, sa), true
	case oka && okb:
		ya, _ := asSignedBV(a)
		yb, _ := asSignedBV(b)
		w := ya.S.W
		if yb.S.W > w {
			w = yb.S.W
		}
		return cmp(SExt(ya, w), SExt(yb, w), true), true
	case oka && b.IsConst():
		lo, hi := rng(xa.S.W, sa)
		if b.C.Cmp(lo) < 0 { // value >= lo > c
			return TFalse, true
		}
		if b.C.Cmp(hi) > 0 { // value <= hi < c
			return BoolConst(op != OEq), true
		}
		return cmp(xa, BVConst(b.C, xa.S.W), sa), true
	case okb && a.IsConst():
		lo, hi := rng(xb.S.W, sb)
		if a.C.Cmp(lo) < 0 { // c < lo <= value
			return BoolConst(op != OEq), true
		}
		if a.C.Cmp(hi) > 0 {
			return TFalse, true
		}
		return cmp(BVConst(a.C, xb.S.W), xb, sb), true
	}
	return nil, false
}

func ILt(a, b *Term) *Term {
	if a.IsConst() && b.IsConst() {
		return BoolConst(a.C.Cmp(b.C) < 0)
	}
	if a == b {
		return TFalse
	}
	if r, ok := intCmpAsBV(OILt, a, b); ok {
		return r
	}
	return intern(&Term{Op: OILt, S: SBool, Args: []*Term{a, b}})
}
func ILe(a, b *Term) *Term {
	if a.IsConst() && b.IsConst() {
		return BoolConst(a.C.Cmp(b.C) <= 0)
	}
	if a == b {
		return TTrue
	}
	if r, ok := intCmpAsBV(OILe, a, b); ok {
		return r
	}
	return intern(&Term{Op: OILe, S: SBool, Args: []*Term{a, b}})
}

// Int2BV: two's complement truncation of integer to w bits.
func Int2BV(a *Term, w int) *Term {
	if a.IsConst() {
		return BVConst(a.C, w)
	}
	if b, ok := signedOf.Load(a.ID); ok {
		bt := b.(*Term)
		if bt.S.W == w {
			return bt
		}
		if bt.S.W < w {
			return SExt(bt, w)
		}
		return Extract(bt, w-1, 0)
	}
	if a.Op == OBV2Nat && a.Args[0].S.W == w {
		return a.Args[0]
	}
	if a.Op == OBV2Nat && a.Args[0].S.W < w {
		return ZExt(a.Args[0], w)
	}
	if a.Op == OBV2Nat && a.Args[0].S.W > w && !dbgOff["int2bv"] {
		return Extract(a.Args[0], w-1, 0)
	}
	// truncation is a ring homomorphism: distribute over +/- when that reaches bit-vectors
	if !dbgOff["int2bv"] && (a.Op == OIAdd || a.Op == OISub) && (int2bvCheap(a.Args[0]) && int2bvCheap(a.Args[1])) {
		op := OBvAdd
		if a.Op == OISub {
			op = OBvSub
		}
		return BvBin(op, Int2BV(a.Args[0], w), Int2BV(a.Args[1], w))
	}
	return intern(&Term{Op: OInt2BV, S: SBV(w), Args: []*Term{a}, A: w})
}

// int2bvCheap: truncating this integer term yields a bit-vector term without an int2bv node.
func int2bvCheap(t *Term) bool {
	if t.IsConst() {
		return true
	}
	if _, _, ok := bvBacked(t); ok {
		return true
	}
	if t.Op == OIAdd || t.Op == OISub {
		return int2bvCheap(t.Args[0]) && int2bvCheap(t.Args[1])
	}
	return false
}

// BV2Nat: unsigned value of bit-vector as Int.
func BV2Nat(a *Term) *Term {
	if a.IsConst() {
		return IntConst(a.C)
	}
	if a.Op == OInt2BV {
		// the unsigned value of an integer truncated to w bits, in pure integer arithmetic
		r := IntBin(OIMod, a.Args[0], IntConst(pow2(a.S.W)))
		natOf.Store(r.ID, a)
		return r
	}
	if a.Op == OZExt {
		return BV2Nat(a.Args[0])
	}
	if a.Op == OExtract && a.Args[0].Op == OInt2BV && !dbgOff["natextract"] {
		// bits lo..hi of an integer's two's complement form: floor(n / 2^lo) mod 2^width
		n := a.Args[0].Args[0]
		r := IntBin(OIMod, IntBin(OIDiv, n, IntConst(pow2(a.B))), IntConst(pow2(a.S.W)))
		natOf.Store(r.ID, a)
		return r
	}
	return intern(&Term{Op: OBV2Nat, S: SInt, Args: []*Term{a}})
}

// BV2Int signed
func BV2IntSigned(a *Term) *Term {
	if a.IsConst() {
		return IntConst(a.Signed())
	}
	w := a.S.W
	if a.Op == OZExt && a.Args[0].S.W < w {
		return BV2Nat(a.Args[0])
	}
	if a.Op == OInt2BV {
		// the signed value of an integer wrapped to w bits, in pure integer arithmetic
		half := IntConst(pow2(w - 1))
		r := IntBin(OISub, IntBin(OIMod, IntBin(OIAdd, a.Args[0], half), IntConst(pow2(w))), half)
		signedOf.Store(r.ID, a)
		return r
	}
	n := BV2Nat(a)
	half := new(big.Int).Lsh(bigOne, uint(w-1))
	full := new(big.Int).Lsh(bigOne, uint(w))
	// built without the arithmetic rewrites: n - 2^w of a bit-vector-backed n would itself be
	// turned into the signed value of a wider vector, recursively
	neg := intern(&Term{Op: OISub, S: SInt, Args: []*Term{n, IntConst(full)}})
	r := Ite(intern(&Term{Op: OILt, S: SBool, Args: []*Term{n, IntConst(half)}}), n, neg)
	signedOf.Store(r.ID, a)
	return r
}

// signedOf remembers, for the integer term built by BV2IntSigned, the bit-vector it came from.
var signedOf sync.Map

// UF application
type UFDecl struct {
	Name string
	Args []Sort
	Ret  Sort
}

var ufDecls sync.Map // name -> *UFDecl

func App(name string, ret Sort, args ...*Term) *Term {
	if _, ok := ufDecls.Load(name); !ok {
		d := &UFDecl{Name: name, Ret: ret}
		for _, a := range args {
			d.Args = append(d.Args, a.S)
		}
		ufDecls.LoadOrStore(name, d)
	}
	return intern(&Term{Op: OApp, S: ret, Args: args, Name: name})
}

// ---------- printing

func constText(t *Term) string {
	switch t.S.K {
	case KBool:
		if t.C.Sign() != 0 {
			return "true"
		}
		return "false"
	case KInt:
		if t.C.Sign() < 0 {
			return "(- " + new(big.Int).Neg(t.C).String() + ")"
		}
		return t.C.String()
	}
	if t.S.W%4 == 0 {
		s := t.C.Text(16)
		return "#x" + strings.Repeat("0", t.S.W/4-len(s)) + s
	}
	s := t.C.Text(2)
	return "#b" + strings.Repeat("0", t.S.W-len(s)) + s
}

func (t *Term) ref() string {
	switch t.Op {
	case OConst:
		return constText(t)
	case OVar:
		return "|" + t.Name + "|"
	}
	return fmt.Sprintf("t%d", t.ID)
}

// body returns the SMT-LIB expression for t in terms of refs of its args.
func (t *Term) body() string {
	var sb strings.Builder
	switch t.Op {
	case OConst, OVar:
		return t.ref()
	case OExtract:
		fmt.Fprintf(&sb, "((_ extract %d %d) %s)", t.A, t.B, t.Args[0].ref())
	case OZExt:
		fmt.Fprintf(&sb, "((_ zero_extend %d) %s)", t.A, t.Args[0].ref())
	case OSExt:
		fmt.Fprintf(&sb, "((_ sign_extend %d) %s)", t.A, t.Args[0].ref())
	case OInt2BV:
		fmt.Fprintf(&sb, "((_ int2bv %d) %s)", t.A, t.Args[0].ref())
	case OIBitLen, OITz:
		return expandLen(t).ref()
	case OApp:
		if len(t.Args) == 0 {
			return "|" + t.Name + "|"
		}
		sb.WriteString("(|" + t.Name + "|")
		for _, a := range t.Args {
			sb.WriteByte(' ')
			sb.WriteString(a.ref())
		}
		sb.WriteByte(')')
	default:
		sb.WriteByte('(')
		sb.WriteString(opNames[t.Op])
		for _, a := range t.Args {
			sb.WriteByte(' ')
			sb.WriteString(a.ref())
		}
		sb.WriteByte(')')
	}
	return sb.String()
}

// String renders a (possibly large) term inline; for diagnostics.
func (t *Term) String() string {
	return t.str(0)
}

func (t *Term) str(depth int) string {
	if t.Op == OConst || t.Op == OVar {
		return t.ref()
	}
	if depth > 6 {
		return "..."
	}
	var sb strings.Builder
	sb.WriteByte('(')
	switch t.Op {
	case OExtract:
		fmt.Fprintf(&sb, "extract[%d:%d]", t.A, t.B)
	case OZExt:
		fmt.Fprintf(&sb, "zext%d", t.A)
	case OSExt:
		fmt.Fprintf(&sb, "sext%d", t.A)
	case OInt2BV:
		fmt.Fprintf(&sb, "int2bv%d", t.A)
	case OApp:
		sb.WriteString(t.Name)
	default:
		sb.WriteString(opNames[t.Op])
	}
	for _, a := range t.Args {
		sb.WriteByte(' ')
		sb.WriteString(a.str(depth + 1))
	}
	sb.WriteByte(')')
	return sb.String()
}

// Vars collects the variables occurring in t.
func collectVars(t *Term, seen map[int64]bool, out *[]*Term) {
	if seen[t.ID] {
		return
	}
	seen[t.ID] = true
	if t.Op == OVar {
		*out = append(*out, t)
		return
	}
	for _, a := range t.Args {
		collectVars(a, seen, out)
	}
}

// evalTerm evaluates t under a model (var name -> value); missing vars are 0.
func evalTerm(t *Term, model map[string]*big.Int, cache map[int64]*Term) *Term {
	if t.Op == OConst {
		return t
	}
	if r, ok := cache[t.ID]; ok {
		return r
	}
	var r *Term
	if t.Op == OVar {
		v, ok := model[t.Name]
		if !ok {
			v = bigZero
		}
		switch t.S.K {
		case KBool:
			r = BoolConst(v.Sign() != 0)
		case KInt:
			r = IntConst(v)
		default:
			r = BVConst(v, t.S.W)
		}
	} else {
		args := make([]*Term, len(t.Args))
		for i, a := range t.Args {
			args[i] = evalTerm(a, model, cache)
		}
		r = rebuild(t, args)
	}
	cache[t.ID] = r
	return r
}

func rebuild(t *Term, args []*Term) *Term {
	switch t.Op {
	case ONot:
		return Not(args[0])
	case OAnd:
		return And(args...)
	case OOr:
		return Or(args...)
	case OIte:
		return Ite(args[0], args[1], args[2])
	case OEq:
		return Eq(args[0], args[1])
	case OBvAdd, OBvSub, OBvMul, OBvUDiv, OBvURem, OBvSDiv, OBvSRem, OBvAnd, OBvOr, OBvXor, OBvShl, OBvLShr, OBvAShr:
		return BvBin(t.Op, args[0], args[1])
	case OBvNot:
		return BvNot(args[0])
	case OBvNeg:
		return BvNeg(args[0])
	case OBvULt, OBvULe, OBvSLt, OBvSLe:
		return BvCmp(t.Op, args[0], args[1])
	case OConcat:
		return Concat(args[0], args[1])
	case OExtract:
		return Extract(args[0], t.A, t.B)
	case OZExt:
		return ZExt(args[0], t.S.W)
	case OSExt:
		return SExt(args[0], t.S.W)
	case OIAdd, OISub, OIMul, OIDiv, OIMod:
		return IntBin(t.Op, args[0], args[1])
	case OINeg:
		return INeg(args[0])
	case OILt:
		return ILt(args[0], args[1])
	case OILe:
		return ILe(args[0], args[1])
	case OInt2BV:
		return Int2BV(args[0], t.A)
	case OBV2Nat:
		return BV2Nat(args[0])
	case OApp:
		return App(t.Name, t.S, args...)
	case OIBitLen:
		return IBitLen(args[0])
	case OITz:
		return ITz(args[0])
	case OIAbs:
		return IAbs(args[0])
	}
	panic("rebuild: op")
}

const bigLenBits = 520

// IBitLen is the bit length of |x| (as BV64). Comparisons with constants are rewritten into
// integer range conditions; elsewhere it prints as an ite chain valid for |x| < 2^520.
func IBitLen(x *Term) *Term {
	if x.IsConst() {
		return BVu(uint64(new(big.Int).Abs(x.C).BitLen()), 64)
	}
	return intern(&Term{Op: OIBitLen, S: SBV(64), Args: []*Term{x}})
}

// ITz is TrailingZeroBits(|x|) (as BV64), 0 for x == 0.
func ITz(x *Term) *Term {
	if x.IsConst() {
		return BVu(uint64(new(big.Int).Abs(x.C).TrailingZeroBits()), 64)
	}
	return intern(&Term{Op: OITz, S: SBV(64), Args: []*Term{x}})
}

// bitLenCmp rewrites (bitlen(x) op k) / (k op bitlen(x)) for constant k; ok=false if not applicable.
func lenCmp(op Op, a, b *Term) (*Term, bool) {
	var x *Term
	var k *big.Int
	left := false // bitlen on the left
	if a.Op == OIBitLen && b.IsConst() {
		x, k, left = a.Args[0], b.C, true
	} else if b.Op == OIBitLen && a.IsConst() {
		x, k = b.Args[0], a.C
	} else {
		return nil, false
	}
	if !k.IsInt64() || k.Int64() > 4096 {
		// bitlen is always far below such constants
		if left {
			return BoolConst(true), true // bitlen < / <= huge
		}
		return BoolConst(false), true
	}
	n := int(k.Int64())
	ax := IAbs(x)
	xs, xsOK := asSignedBV(x)
	lt := func(p int) *Term { // |x| < 2^p
		if p < 0 {
			return TFalse
		}
		if xsOK && p >= xs.S.W {
			return TTrue // the signed value of a w-bit vector has |x| <= 2^(w-1)
		}
		return ILt(ax, IntConst(pow2(p)))
	}
	strict := op == OBvULt || op == OBvSLt
	if left {
		if strict { // bitlen < n  <=> |x| < 2^(n-1)
			return lt(n - 1), true
		}
		return lt(n), true // bitlen <= n <=> |x| < 2^n
	}
	if strict { // n < bitlen <=> |x| >= 2^n
		return Not(lt(n)), true
	}
	return Not(lt(n - 1)), true // n <= bitlen <=> |x| >= 2^(n-1)
}

func lenEq(a, b *Term) (*Term, bool) {
	if b.Op == OIBitLen || b.Op == OITz {
		a, b = b, a
	}
	if !b.IsConst() || (a.Op != OIBitLen && a.Op != OITz) {
		return nil, false
	}
	if !b.C.IsInt64() || b.C.Int64() > 4096 {
		return TFalse, true
	}
	n := int(b.C.Int64())
	x := a.Args[0]
	ax := IAbs(x)
	if a.Op == OIBitLen {
		if n == 0 {
			return Eq(x, IntI(0)), true
		}
		return And(ILe(IntConst(pow2(n-1)), ax), ILt(ax, IntConst(pow2(n)))), true
	}
	// trailing zeros == n  <=>  x != 0 and |x| mod 2^(n+1) == 2^n ; tz(0) == 0
	nz := And(Not(Eq(x, IntI(0))), Eq(IntBin(OIMod, ax, IntConst(pow2(n+1))), IntConst(pow2(n))))
	if n == 0 {
		return Or(Eq(x, IntI(0)), nz), true
	}
	return nz, true
}

// expandLen gives the ite-chain definition used when a length term reaches the solver.
func expandLen(t *Term) *Term {
	x := t.Args[0]
	ax := IAbs(x)
	if t.Op == OIBitLen {
		res := BVu(bigLenBits, 64)
		for k := bigLenBits - 1; k >= 0; k-- {
			res = Ite(ILt(ax, IntConst(pow2(k))), BVu(uint64(k), 64), res)
		}
		return res
	}
	res := BVu(bigLenBits, 64)
	for k := bigLenBits - 1; k >= 0; k-- {
		res = Ite(Not(Eq(IntBin(OIMod, ax, IntConst(pow2(k+1))), IntI(0))), BVu(uint64(k), 64), res)
	}
	return Ite(Eq(x, IntI(0)), BVu(0, 64), res)
}

// flattenConcat lists the operands of nested concatenations, most significant first.
func flattenConcat(t *Term) []*Term {
	if t.Op == OZExt {
		// zero-extension is a concatenation with a zero constant (Concat folds it that way)
		return append([]*Term{BVi(0, t.S.W-t.Args[0].S.W)}, flattenConcat(t.Args[0])...)
	}
	if t.Op != OConcat {
		return []*Term{t}
	}
	return append(flattenConcat(t.Args[0]), flattenConcat(t.Args[1])...)
}

// mergeExtractRuns joins adjacent extracts of the same term and adjacent constants.
func mergeExtractRuns(ps []*Term) []*Term {
	var out []*Term
	for _, p := range ps {
		if n := len(out); n > 0 {
			q := out[n-1]
			if q.Op == OExtract && p.Op == OExtract && q.Args[0] == p.Args[0] && q.B == p.A+1 {
				out[n-1] = Extract(q.Args[0], q.A, p.B)
				continue
			}
			if q.IsConst() && p.IsConst() {
				out[n-1] = Concat(q, p)
				continue
			}
		}
		out = append(out, p)
	}
	return out
}
