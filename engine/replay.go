package main

import (
	"encoding/json"
	"fmt"
	"os"
	"path/filepath"
	"strings"
	"sync"
	"time"
)

type Replayer struct {
	prop    string
	files   []*HarnessFile
	specs   []*HarnessSpec
	tier    string
	workDir string
	results map[string]*ReplayResult
	built   map[string]string // pkgdir -> test binary
	NRun    int
	NMatch  int
	Errors  []string
	mu      sync.Mutex
}

func newReplayer(prop string, ld *Loaded, files []*HarnessFile, specs []*HarnessSpec, tier string) *Replayer {
	wd := filepath.Join(verifDir, "work", prop+"-"+tier)
	os.RemoveAll(wd)
	os.MkdirAll(wd, 0o755)
	return &Replayer{prop: prop, files: files, specs: specs, tier: tier, workDir: wd, results: map[string]*ReplayResult{}, built: map[string]string{}}
}

func tierInt(t string) int {
	if t == "thorough" {
		return 1
	}
	return 0
}

func (rp *Replayer) build(pkgDir string) (string, error) {
	rp.mu.Lock()
	defer rp.mu.Unlock()
	if b, ok := rp.built[pkgDir]; ok {
		return b, nil
	}
	safe := strings.ReplaceAll(pkgDir, "/", "_")
	ov := map[string]string{}
	pkgName := ""
	var specs []*HarnessSpec
	for _, hf := range rp.files {
		if hf.PkgDir != pkgDir {
			continue
		}
		ov[hf.Virtual] = hf.Src
		pkgName = hf.PkgName
		specs = append(specs, hf.Specs...)
	}
	rtPath := filepath.Join(rp.workDir, safe+"_rt.go")
	os.WriteFile(rtPath, []byte(rtSource(pkgName)), 0o644)
	ov[filepath.Join(repoDir, pkgDir, "zz_vf_rt.go")] = rtPath
	tp := filepath.Join(rp.workDir, safe+"_replay_test.go")
	os.WriteFile(tp, []byte(replayTestSource(pkgName, specs)), 0o644)
	ov[filepath.Join(repoDir, pkgDir, "zz_vf_replay_test.go")] = tp
	mp := filepath.Join(rp.workDir, "vfmodel.go")
	os.WriteFile(mp, []byte(modelSource), 0o644)
	ov[filepath.Join(repoDir, "internal/vfmodel/model.go")] = mp
	if sh, err := shadowOverlays(rp.files); err == nil {
		i := 0
		for k, v := range sh {
			if !strings.HasPrefix(k, filepath.Join(repoDir, pkgDir)+"/") {
				continue
			}
			sp := filepath.Join(rp.workDir, fmt.Sprintf("%s_shadow_%d.go", safe, i))
			i++
			os.WriteFile(sp, v, 0o644)
			ov[k] = sp
		}
	}
	ovj, _ := json.Marshal(map[string]interface{}{"Replace": ov})
	ovPath := filepath.Join(rp.workDir, safe+"_overlay.json")
	os.WriteFile(ovPath, ovj, 0o644)
	bin := filepath.Join(rp.workDir, safe+".test")
	out, err := runCmd(repoDir, []string{"GOFLAGS=-mod=mod", "GOPROXY=off"}, 15*time.Minute,
		"go", "test", "-c", "-vet=off", "-tags", "verif", "-overlay", ovPath, "-o", bin, "./"+pkgDir)
	if err != nil {
		return "", fmt.Errorf("native build of %s failed: %v\n%s", pkgDir, err, out)
	}
	rp.built[pkgDir] = bin
	return bin, nil
}

// runCases runs replay cases natively in the package's test binary.
func (rp *Replayer) runCases(pkgDir string, cases []ReplayCase) ([]*ReplayResult, error) {
	bin, err := rp.build(pkgDir)
	if err != nil {
		return nil, err
	}
	var all []*ReplayResult
	rem := cases
	round := 0
	for len(rem) > 0 {
		round++
		cf := filepath.Join(rp.workDir, fmt.Sprintf("%s_cases_%d_%d.json", strings.ReplaceAll(pkgDir, "/", "_"), time.Now().UnixNano()%100000, round))
		rf := cf + ".result"
		js, _ := json.Marshal(rem)
		os.WriteFile(cf, js, 0o644)
		to := time.Duration(60+25*len(rem)) * time.Second
		runDir := filepath.Join(repoDir, pkgDir)
		if _, serr := os.Stat(runDir); serr != nil {
			runDir = repoDir
		}
		out, err := runCmd(runDir, []string{"VF_REPLAY=" + cf, "VF_RESULT=" + rf}, to,
			bin, "-test.run", "^TestVFReplay$", "-test.timeout", to.String())
		data, rerr := os.ReadFile(rf)
		if rerr != nil {
			return all, fmt.Errorf("replay run failed: %v %v\n%s", err, rerr, tail(out, 2000))
		}
		var res []*ReplayResult
		if jerr := json.Unmarshal(data, &res); jerr != nil {
			return all, jerr
		}
		all = append(all, res...)
		if os.Getenv("VF_KEEP_CASES") == "" {
			os.Remove(cf)
			os.Remove(rf)
		}
		if len(res) == 0 {
			break
		}
		rem = rem[len(res):]
	}
	return all, nil
}

func tail(s string, n int) string {
	if len(s) > n {
		return s[len(s)-n:]
	}
	return s
}

func (rp *Replayer) run(outcomes []*harnessOutcome) {
	byPkg := map[string][]ReplayCase{}
	for _, oc := range outcomes {
		hr := oc.Run
		for site, inp := range hr.Witness {
			byPkg[oc.Spec.PkgDir] = append(byPkg[oc.Spec.PkgDir], ReplayCase{Harness: oc.Spec.Name, Tier: tierInt(rp.tier), Inputs: strInputs(inp), ID: "w:" + oc.Spec.Name + ":" + site})
		}
		for i, v := range hr.Violations {
			byPkg[oc.Spec.PkgDir] = append(byPkg[oc.Spec.PkgDir], ReplayCase{Harness: oc.Spec.Name, Tier: tierInt(rp.tier), Inputs: strInputs(v.Inputs), ID: fmt.Sprintf("v:%s:%d", oc.Spec.Name, i)})
		}
	}
	var wg sync.WaitGroup
	for pkg, cases := range byPkg {
		wg.Add(1)
		go func(pkg string, cases []ReplayCase) {
			defer wg.Done()
			res, err := rp.runCases(pkg, cases)
			rp.mu.Lock()
			defer rp.mu.Unlock()
			if err != nil {
				rp.Errors = append(rp.Errors, err.Error())
			}
			for _, r := range res {
				rp.results[r.ID] = r
				rp.NRun++
			}
		}(pkg, cases)
	}
	wg.Wait()
	for _, e := range rp.Errors {
		fmt.Fprintf(os.Stderr, "replay error: %s\n", e)
	}
}

func (rp *Replayer) witnessResult(harness, site string) *ReplayResult {
	return rp.results["w:"+harness+":"+site]
}

func (rp *Replayer) violationResult(harness string, i int) *ReplayResult {
	return rp.results[fmt.Sprintf("v:%s:%d", harness, i)]
}

func (rp *Replayer) saveReplay(oc *harnessOutcome, v *Violation) string {
	dir := filepath.Join(verifDir, "replays", rp.prop)
	os.MkdirAll(dir, 0o755)
	c := ReplayCase{Harness: oc.Spec.Name, Tier: tierInt(rp.tier), Inputs: strInputs(v.Inputs), ID: "replay"}
	doc := map[string]interface{}{"property": rp.prop, "case": c, "site": v.Site, "kind": v.Kind, "msg": v.Msg, "trace": v.Trace}
	js, _ := json.MarshalIndent(doc, "", " ")
	path := filepath.Join(dir, oc.Spec.Name+"-"+hash8(string(js))+".json")
	os.WriteFile(path, js, 0o644)
	return path
}
