package main

import (
	"fmt"
	"os"
	"math/big"
	"strings"
	"sync"
	"go/token"
	"go/types"
	"unicode/utf8"

	"golang.org/x/tools/go/ssa"
)

func (w *Worker) unop(g *G, fr *Frame, in *ssa.UnOp) Value {
	x := w.get(fr, in.X)
	if p, ok := x.(PoisonV); ok && in.Op != token.MUL {
		return p
	}
	switch in.Op {
	case token.MUL: // load
		v := w.loadPtr(g, x)
		return v
	case token.NOT:
		return Not(x.(*Term))
	case token.SUB:
		switch t := x.(type) {
		case *Term:
			return BvNeg(t)
		case FloatV:
			return FloatV{-t.F}
		}
	case token.XOR:
		return BvNot(x.(*Term))
	case token.ARROW:
		return w.chanRecv(g, fr, in, x.(ChanV), in.CommaOk)
	}
	unsupported("unop %s on %s", in.Op, showValue(x))
	return nil
}

func widthOf(t types.Type) int {
	b, ok := underlying(t).(*types.Basic)
	if !ok {
		return 0
	}
	return bvWidth(b)
}

func (w *Worker) binop(g *G, op token.Token, t types.Type, x, y Value, yt types.Type) Value {
	if p, ok := x.(PoisonV); ok {
		return p
	}
	if p, ok := y.(PoisonV); ok {
		return p
	}
	switch op {
	case token.EQL:
		return w.valueEq(x, y)
	case token.NEQ:
		return Not(w.valueEq(x, y))
	}
	switch xv := x.(type) {
	case *Term:
		yv, ok := y.(*Term)
		if !ok {
			unsupported("binop %s on %s,%s", op, showValue(x), showValue(y))
		}
		if xv.S.K == KBool {
			switch op {
			case token.AND, token.LAND:
				return And(xv, yv)
			case token.OR, token.LOR:
				return Or(xv, yv)
			}
			unsupported("bool binop %s", op)
		}
		signed := isSigned(t)
		switch op {
		case token.ADD:
			return BvBin(OBvAdd, xv, yv)
		case token.SUB:
			return BvBin(OBvSub, xv, yv)
		case token.MUL:
			return BvBin(OBvMul, xv, yv)
		case token.QUO, token.REM:
			if !w.decide(Ne(yv, BVu(0, yv.S.W)), "div by zero") {
				w.raise(g, w.rtError("integer divide by zero"))
				return nil
			}
			if op == token.QUO {
				if signed {
					return BvBin(OBvSDiv, xv, yv)
				}
				return BvBin(OBvUDiv, xv, yv)
			}
			if signed {
				return BvBin(OBvSRem, xv, yv)
			}
			return BvBin(OBvURem, xv, yv)
		case token.AND:
			return BvBin(OBvAnd, xv, yv)
		case token.OR:
			return BvBin(OBvOr, xv, yv)
		case token.XOR:
			return BvBin(OBvXor, xv, yv)
		case token.AND_NOT:
			return BvBin(OBvAnd, xv, BvNot(yv))
		case token.SHL, token.SHR:
			wd := xv.S.W
			// negative signed shift count panics
			if isSigned(yt) {
				if !w.decide(BvCmp(OBvSLe, BVu(0, yv.S.W), yv), "negative shift") {
					w.raise(g, w.rtError("negative shift amount"))
					return nil
				}
			}
			var cnt *Term
			switch {
			case yv.S.W == wd:
				cnt = yv
			case yv.S.W < wd:
				cnt = ZExt(yv, wd)
			default:
				big := BvCmp(OBvULe, BVu(uint64(wd), yv.S.W), yv)
				cnt = Ite(big, BVu(uint64(wd), wd), Extract(yv, wd-1, 0))
			}
			if op == token.SHL {
				return BvBin(OBvShl, xv, cnt)
			}
			if signed {
				return BvBin(OBvAShr, xv, cnt)
			}
			return BvBin(OBvLShr, xv, cnt)
		case token.LSS:
			if signed {
				return BvCmp(OBvSLt, xv, yv)
			}
			return BvCmp(OBvULt, xv, yv)
		case token.LEQ:
			if signed {
				return BvCmp(OBvSLe, xv, yv)
			}
			return BvCmp(OBvULe, xv, yv)
		case token.GTR:
			if signed {
				return BvCmp(OBvSLt, yv, xv)
			}
			return BvCmp(OBvULt, yv, xv)
		case token.GEQ:
			if signed {
				return BvCmp(OBvSLe, yv, xv)
			}
			return BvCmp(OBvULe, yv, xv)
		}
	case StringV:
		yv := y.(StringV)
		switch op {
		case token.ADD:
			if xv.Concrete() && yv.Concrete() {
				return mkString(xv.Go() + yv.Go())
			}
			return mkSymString(append(append([]*Term{}, xv.Bytes()...), yv.Bytes()...))
		case token.LSS:
			return stringLess(xv, yv, false)
		case token.LEQ:
			return stringLess(xv, yv, true)
		case token.GTR:
			return stringLess(yv, xv, false)
		case token.GEQ:
			return stringLess(yv, xv, true)
		}
	case FloatV:
		yv, ok := y.(FloatV)
		if ok {
			switch op {
			case token.ADD:
				return FloatV{xv.F + yv.F}
			case token.SUB:
				return FloatV{xv.F - yv.F}
			case token.MUL:
				return FloatV{xv.F * yv.F}
			case token.QUO:
				return FloatV{xv.F / yv.F}
			case token.LSS:
				return BoolConst(xv.F < yv.F)
			case token.LEQ:
				return BoolConst(xv.F <= yv.F)
			case token.GTR:
				return BoolConst(xv.F > yv.F)
			case token.GEQ:
				return BoolConst(xv.F >= yv.F)
			}
		}
	}
	unsupported("binop %s on %s, %s", op, showValue(x), showValue(y))
	return nil
}

// stringLess builds the lexicographic comparison term.
func stringLess(a, b StringV, orEq bool) *Term {
	if a.Concrete() && b.Concrete() {
		if orEq {
			return BoolConst(a.Go() <= b.Go())
		}
		return BoolConst(a.Go() < b.Go())
	}
	return bytesLess(a.Bytes(), b.Bytes(), orEq)
}

func bytesLess(ab, bb []*Term, orEq bool) *Term {
	n := len(ab)
	if len(bb) < n {
		n = len(bb)
	}
	// result when all common bytes equal
	var res *Term
	if orEq {
		res = BoolConst(len(ab) <= len(bb))
	} else {
		res = BoolConst(len(ab) < len(bb))
	}
	for i := n - 1; i >= 0; i-- {
		res = Ite(Eq(ab[i], bb[i]), res, BvCmp(OBvULt, ab[i], bb[i]))
	}
	return res
}

// bytesCompare returns a BV64 term in {-1,0,1}.
func bytesCompare(ab, bb []*Term) *Term {
	lt := bytesLess(ab, bb, false)
	eq := bytesEq(ab, bb)
	return Ite(eq, BVi(0, 64), Ite(lt, BVi(-1, 64), BVi(1, 64)))
}

func bytesEq(ab, bb []*Term) *Term {
	if len(ab) != len(bb) {
		return TFalse
	}
	var cs []*Term
	for i := 0; i < len(ab); {
		// a run of bytes that are the successive extracts of two whole terms compares as the terms
		if ra, na := wholeRun(ab, i); ra != nil {
			if rb, nb := wholeRun(bb, i); rb != nil && na == nb {
				cs = append(cs, wholeEq(ra, rb))
				i += na
				continue
			} else if cb, ok := constRun(bb, i, na); ok {
				cs = append(cs, wholeEq(ra, cb))
				i += na
				continue
			}
		} else if rb, nb := wholeRun(bb, i); rb != nil {
			if ca, ok := constRun(ab, i, nb); ok {
				cs = append(cs, wholeEq(ca, rb))
				i += nb
				continue
			}
		}
		cs = append(cs, Eq(ab[i], bb[i]))
		i++
	}
	return And(cs...)
}

// wholeRun detects bytes[i:] starting with all byte-extracts (most significant first) of one term.
func wholeRun(bs []*Term, i int) (*Term, int) {
	t := bs[i]
	if t.Op != OExtract || t.S.W != 8 {
		return nil, 0
	}
	r := t.Args[0]
	if r.Op != OApp || r.S.W%8 != 0 || t.A != r.S.W-1 {
		return nil, 0
	}
	n := r.S.W / 8
	if i+n > len(bs) {
		return nil, 0
	}
	for k := 0; k < n; k++ {
		e := bs[i+k]
		hi := r.S.W - 1 - 8*k
		if e.Op != OExtract || e.Args[0] != r || e.A != hi || e.B != hi-7 {
			return nil, 0
		}
	}
	return r, n
}

func constRun(bs []*Term, i, n int) (*Term, bool) {
	if i+n > len(bs) {
		return nil, false
	}
	v := new(big.Int)
	for k := 0; k < n; k++ {
		if !bs[i+k].IsConst() {
			return nil, false
		}
		v.Lsh(v, 8)
		v.Or(v, bs[i+k].C)
	}
	return BVConst(v, 8*n), true
}

// wholeEq compares two hash results; with the collision-freeness assumption switched on,
// equality of digests is equality of the hashed inputs.
func wholeEq(a, b *Term) *Term {
	if a == b {
		return TTrue
	}
	if !hashInjective {
		return rawEq(a, b)
	}
	if a.IsConst() {
		a, b = b, a
	}
	if a.Op == OApp && b.Op == OApp {
		if a.Name != b.Name {
			return TFalse // different functions or input lengths
		}
		if len(a.Args) == 0 {
			return TTrue
		}
		return Eq(a.Args[0], b.Args[0])
	}
	if a.Op == OApp && b.IsConst() {
		if in, ok := digestInputs.Load(a.Name[:strings.Index(a.Name, "_")] + ":" + b.C.Text(16)); ok {
			inp := in.([]byte)
			if len(a.Args) == 0 {
				return BoolConst(len(inp) == 0)
			}
			if a.Args[0].S.W != 8*len(inp) {
				return TFalse
			}
			return Eq(a.Args[0], BVConst(new(big.Int).SetBytes(inp), 8*len(inp)))
		}
	}
	if os.Getenv("VF_DEBUG_HASH") != "" {
		fmt.Fprintf(os.Stderr, "wholeEq fallthrough: %s vs %s\n", a.str(3), b.str(3))
	}
	return rawEq(a, b)
}

func rawEq(a, b *Term) *Term {
	if a == b {
		return TTrue
	}
	if a.ID > b.ID && !b.IsConst() {
		a, b = b, a
	}
	return intern(&Term{Op: OEq, S: SBool, Args: []*Term{a, b}})
}

var hashInjective bool
var digestInputs sync.Map

func (w *Worker) valueEq(x, y Value) *Term {
	switch xv := x.(type) {
	case *Term:
		yv, ok := y.(*Term)
		if !ok {
			unsupported("eq %s, %s", showValue(x), showValue(y))
		}
		return Eq(xv, yv)
	case StringV:
		yv := y.(StringV)
		if xv.Len() != yv.Len() {
			return TFalse
		}
		if xv.Concrete() && yv.Concrete() {
			return BoolConst(xv.Go() == yv.Go())
		}
		return bytesEq(xv.Bytes(), yv.Bytes())
	case *StructV:
		yv := y.(*StructV)
		cs := make([]*Term, len(xv.F))
		for i := range cs {
			cs[i] = w.valueEq(xv.F[i], yv.F[i])
		}
		return And(cs...)
	case *ArrayV:
		yv := y.(*ArrayV)
		if xv == yv {
			return TTrue
		}
		if len(xv.E) > 0 && len(xv.E) == len(yv.E) {
			if t0, ok := xv.E[0].(*Term); ok && t0.S == SBV(8) {
				ab := make([]*Term, len(xv.E))
				bb := make([]*Term, len(yv.E))
				allT := true
				for i := range xv.E {
					ta, oka := xv.E[i].(*Term)
					tb, okb := yv.E[i].(*Term)
					if !oka || !okb {
						allT = false
						break
					}
					ab[i], bb[i] = ta, tb
				}
				if allT {
					return bytesEq(ab, bb)
				}
			}
		}
		cs := make([]*Term, len(xv.E))
		for i := range cs {
			cs[i] = w.valueEq(xv.E[i], yv.E[i])
		}
		return And(cs...)
	case PtrV:
		yv, ok := y.(PtrV)
		if !ok {
			unsupported("eq ptr with %s", showValue(y))
		}
		if xv.Sym != nil || yv.Sym != nil {
			if xv.Sym != nil {
				xv = w.concretizePtr(xv)
			}
			if yv.Sym != nil {
				yv = w.concretizePtr(yv)
			}
		}
		return BoolConst(samePtr(xv, yv))
	case IfaceV:
		yv, ok := y.(IfaceV)
		if !ok {
			unsupported("eq iface with %s", showValue(y))
		}
		if xv.T == nil || yv.T == nil {
			return BoolConst(xv.T == nil && yv.T == nil)
		}
		if !types.Identical(xv.T, yv.T) {
			return TFalse
		}
		if !types.Comparable(xv.T) {
			unsupported("comparing uncomparable dynamic type %v (runtime panic)", xv.T)
		}
		return w.valueEq(xv.V, yv.V)
	case SliceV:
		yv := y.(SliceV)
		if xv.O != nil && yv.O != nil {
			unsupported("slice == slice")
		}
		return BoolConst(xv.O == nil && yv.O == nil)
	case MapV:
		yv := y.(MapV)
		return BoolConst(xv.O == yv.O)
	case ChanV:
		yv := y.(ChanV)
		return BoolConst(xv.O == yv.O)
	case *FuncV:
		yv := y.(*FuncV)
		if xv != nil && yv != nil {
			unsupported("func == func")
		}
		return BoolConst(xv == nil && yv == nil)
	case *BigV:
		yv := y.(*BigV)
		return Eq(xv.T, yv.T)
	case FloatV:
		yv := y.(FloatV)
		return BoolConst(xv.F == yv.F)
	case TupleV:
		yv := y.(TupleV)
		cs := make([]*Term, len(xv))
		for i := range cs {
			cs[i] = w.valueEq(xv[i], yv[i])
		}
		return And(cs...)
	}
	unsupported("eq on %T", x)
	return nil
}

func (w *Worker) convert(dst, src types.Type, x Value) Value {
	if p, ok := x.(PoisonV); ok {
		return p
	}
	ud, us := underlying(dst), underlying(src)
	// pointer / unsafe conversions
	if _, ok := ud.(*types.Pointer); ok {
		if _, ok2 := us.(*types.Pointer); ok2 {
			return x
		}
	}
	if bd, ok := ud.(*types.Basic); ok && bd.Kind() == types.UnsafePointer {
		return x // keep pointer identity
	}
	if bs, ok := us.(*types.Basic); ok && bs.Kind() == types.UnsafePointer {
		if _, ok2 := ud.(*types.Pointer); ok2 {
			return x
		}
		if bd, ok2 := ud.(*types.Basic); ok2 && bd.Kind() == types.Uintptr {
			return PoisonV{"uintptr(unsafe.Pointer)"}
		}
	}
	switch d := ud.(type) {
	case *types.Basic:
		switch {
		case d.Info()&types.IsString != 0:
			switch s := us.(type) {
			case *types.Basic:
				if s.Info()&types.IsString != 0 {
					return x
				}
				if s.Info()&types.IsInteger != 0 {
					t := x.(*Term)
					if !t.IsConst() {
						unsupported("string(symbolic rune)")
					}
					return mkString(string(rune(t.Int64())))
				}
			case *types.Slice:
				sl := x.(SliceV)
				eb := underlying(s.Elem()).(*types.Basic)
				if eb.Kind() == types.Uint8 {
					return mkSymString(w.sliceBytes(sl))
				}
				// []rune
				var rs []rune
				for _, e := range w.sliceElems(sl) {
					t := e.(*Term)
					if !t.IsConst() {
						unsupported("string([]rune) symbolic")
					}
					rs = append(rs, rune(t.Int64()))
				}
				return mkString(string(rs))
			}
		case d.Info()&types.IsInteger != 0:
			switch xv := x.(type) {
			case *Term:
				sw := xv.S.W
				dw := bvWidth(d)
				if xv.S.K != KBV {
					unsupported("convert %v to int", xv.S)
				}
				if dw <= sw {
					return Extract(xv, dw-1, 0)
				}
				if isSigned(src) {
					return SExt(xv, dw)
				}
				return ZExt(xv, dw)
			case FloatV:
				if isSigned(dst) {
					return BVi(int64(xv.F), bvWidth(d))
				}
				return BVu(uint64(xv.F), bvWidth(d))
			case PtrV:
				return PoisonV{"uintptr(pointer)"}
			}
		case d.Info()&types.IsFloat != 0:
			switch xv := x.(type) {
			case FloatV:
				if d.Kind() == types.Float32 {
					return FloatV{float64(float32(xv.F))}
				}
				return xv
			case *Term:
				if !xv.IsConst() {
					unsupported("float(symbolic int)")
				}
				if isSigned(src) {
					return FloatV{float64(xv.Int64())}
				}
				return FloatV{float64(xv.Uint64())}
			}
		}
	case *types.Slice:
		if sb, ok := us.(*types.Basic); ok && sb.Info()&types.IsString != 0 {
			s := x.(StringV)
			eb := underlying(d.Elem()).(*types.Basic)
			if eb.Kind() == types.Uint8 {
				sl := w.bytesToSlice(s.Bytes())
				return sl
			}
			if !s.Concrete() {
				unsupported("[]rune(symbolic string)")
			}
			var el []Value
			for _, r := range s.Go() {
				el = append(el, BVi(int64(r), 32))
			}
			return w.newSlice(d.Elem(), el)
		}
		if _, ok := us.(*types.Slice); ok {
			return x
		}
	case *types.Array:
		// slice to array conversion
		if _, ok := us.(*types.Slice); ok {
			sl := x.(SliceV)
			n := int(d.Len())
			if sl.Len < n {
				unsupported("slice to array conversion with short slice (panic)")
			}
			el := w.sliceElems(sl)
			cp := make([]Value, n)
			copy(cp, el[:n])
			return &ArrayV{cp}
		}
		return x
	default:
		return x
	}
	unsupported("convert %v -> %v of %s", src, dst, showValue(x))
	return nil
}

// ---------- maps

func (w *Worker) mapData(m MapV) *MapData {
	return w.st.load(m.O).(*MapData)
}

// mapFind returns the index of key in the map (forking on symbolic equality), or -1.
func (w *Worker) mapFind(md *MapData, key Value) int {
	if len(md.K) == 0 {
		return -1
	}
	conds := make([]*Term, 0, len(md.K)+1)
	var none []*Term
	for i, k := range md.K {
		c := w.valueEq(k, key)
		if c.IsTrue() {
			// definite hit: keys are pairwise distinct, so no other alternative matters
			return i
		}
		conds = append(conds, c)
		none = append(none, Not(c))
	}
	conds = append(conds, And(none...))
	allFalse := true
	for _, c := range conds[:len(conds)-1] {
		if !c.IsFalse() {
			allFalse = false
		}
	}
	if allFalse {
		return -1
	}
	i := w.decideN(conds, "map key")
	if i == len(md.K) {
		return -1
	}
	return i
}

func (w *Worker) lookup(g *G, fr *Frame, in *ssa.Lookup) Value {
	x := w.get(fr, in.X)
	key := w.get(fr, in.Index)
	switch xv := x.(type) {
	case StringV:
		idx := ext64(key.(*Term), isSigned(in.Index.Type()))
		n := xv.Len()
		i, ok := w.boundsCheck(g, idx, n, isSigned(in.Index.Type()))
		if !ok {
			return nil
		}
		bs := xv.Bytes()
		if i >= 0 {
			return bs[i]
		}
		res := bs[n-1]
		for k := n - 2; k >= 0; k-- {
			res = Ite(Eq(idx, BVu(uint64(k), idx.S.W)), bs[k], res)
		}
		return res
	case MapV:
		vt := underlying(in.X.Type()).(*types.Map).Elem()
		var v Value
		found := false
		if xv.O != nil {
			md := w.mapData(xv)
			i := w.mapFind(md, key)
			if i >= 0 {
				v = md.V[i]
				found = true
			}
		}
		if !found {
			v = w.e.zero(vt)
		}
		if in.CommaOk {
			return TupleV{v, BoolConst(found)}
		}
		return v
	}
	unsupported("lookup on %s", showValue(x))
	return nil
}

func (w *Worker) mapUpdate(m MapV, key, val Value, mt types.Type) {
	md := w.mapData(m)
	i := w.mapFind(md, key)
	nd := &MapData{K: append([]Value(nil), md.K...), V: append([]Value(nil), md.V...)}
	if i >= 0 {
		nd.V[i] = val
	} else {
		nd.K = append(nd.K, key)
		nd.V = append(nd.V, val)
	}
	w.st.store(m.O, nd)
}

func (w *Worker) mapDelete(m MapV, key Value) {
	if m.O == nil {
		return
	}
	md := w.mapData(m)
	i := w.mapFind(md, key)
	if i < 0 {
		return
	}
	nd := &MapData{}
	for j := range md.K {
		if j != i {
			nd.K = append(nd.K, md.K[j])
			nd.V = append(nd.V, md.V[j])
		}
	}
	w.st.store(m.O, nd)
}

// ---------- range

func (w *Worker) rangeInit(x Value) Value {
	switch xv := x.(type) {
	case StringV:
		o := w.st.alloc(nil, "iter", &IterState{Str: xv})
		return &RangeIter{O: o, IsStr: true}
	case MapV:
		is := &IterState{}
		if xv.O != nil {
			md := w.mapData(xv)
			n := len(md.K)
			perm := make([]int, n)
			for i := range perm {
				perm[i] = i
			}
			if w.hr.Cfg.MapOrder == "all" && n > 1 {
				// choose a permutation: fork n! ways via successive choices
				avail := append([]int(nil), perm...)
				perm = perm[:0]
				for len(avail) > 1 {
					conds := make([]*Term, len(avail))
					for i := range conds {
						conds[i] = TTrue
					}
					c := w.decideN(conds, "map order")
					perm = append(perm, avail[c])
					avail = append(avail[:c:c], avail[c+1:]...)
				}
				perm = append(perm, avail[0])
			}
			for _, i := range perm {
				is.Keys = append(is.Keys, md.K[i])
				is.Vals = append(is.Vals, md.V[i])
			}
		}
		o := w.st.alloc(nil, "iter", is)
		return &RangeIter{O: o}
	}
	unsupported("range over %s", showValue(x))
	return nil
}

func (w *Worker) rangeNext(in *ssa.Next, it *RangeIter) Value {
	is := w.st.load(it.O).(*IterState)
	if it.IsStr {
		s := is.Str
		if is.Pos >= s.Len() {
			return TupleV{TFalse, BVi(0, 64), BVi(0, 32)}
		}
		if !s.Concrete() {
			// symbolic strings: treat bytes < 0x80 only if decidable; otherwise unsupported
			b := s.Bytes()[is.Pos]
			if !w.decide(BvCmp(OBvULt, b, BVu(0x80, 8)), "utf8 ascii") {
				unsupported("range over symbolic non-ASCII string")
			}
			ns := *is
			ns.Pos++
			w.st.store(it.O, &ns)
			return TupleV{TTrue, BVi(int64(is.Pos), 64), ZExt(b, 32)}
		}
		gs := s.Go()
		r, sz := utf8.DecodeRuneInString(gs[is.Pos:])
		ns := *is
		ns.Pos += sz
		w.st.store(it.O, &ns)
		return TupleV{TTrue, BVi(int64(is.Pos), 64), BVi(int64(r), 32)}
	}
	if is.Pos >= len(is.Keys) {
		tt := in.Type().(*types.Tuple)
		zk, zv := Value(TFalse), Value(TFalse)
		if b, ok := tt.At(1).Type().(*types.Basic); !ok || b.Kind() != types.Invalid {
			zk = w.e.zero(tt.At(1).Type())
		}
		if b, ok := tt.At(2).Type().(*types.Basic); !ok || b.Kind() != types.Invalid {
			zv = w.e.zero(tt.At(2).Type())
		}
		return TupleV{TFalse, zk, zv}
	}
	ns := *is
	ns.Pos++
	w.st.store(it.O, &ns)
	return TupleV{TTrue, is.Keys[is.Pos], is.Vals[is.Pos]}
}

// ---------- type assertions

func (w *Worker) implements(t types.Type, it *types.Interface) bool {
	return types.Implements(t, it)
}

func (w *Worker) typeAssert(g *G, in *ssa.TypeAssert, x Value) Value {
	if p, ok := x.(PoisonV); ok {
		unsupported("type assert on poison: %s", p.Why)
	}
	iv := x.(IfaceV)
	ok := false
	var res Value
	if iv.T != nil {
		if it, isI := underlying(in.AssertedType).(*types.Interface); isI {
			if w.implements(iv.T, it) {
				ok = true
				res = iv
			}
		} else if types.Identical(iv.T, in.AssertedType) {
			ok = true
			res = iv.V
		}
	}
	if in.CommaOk {
		if !ok {
			res = w.e.zero(in.AssertedType)
		}
		return TupleV{res, BoolConst(ok)}
	}
	if !ok {
		w.raise(g, w.rtError(fmt.Sprintf("interface conversion: %v is not %v", iv.T, in.AssertedType)))
		return nil
	}
	return res
}

// ---------- builtins

func (w *Worker) callBuiltin(g *G, fr *Frame, instr ssa.Instruction, b *ssa.Builtin, args []Value) Value {
	switch b.Name() {
	case "len":
		switch x := args[0].(type) {
		case SliceV:
			return BVi(int64(x.Len), 64)
		case StringV:
			return BVi(int64(x.Len()), 64)
		case MapV:
			if x.O == nil {
				return BVi(0, 64)
			}
			return BVi(int64(len(w.mapData(x).K)), 64)
		case ChanV:
			if x.O == nil {
				return BVi(0, 64)
			}
			return BVi(int64(len(w.st.load(x.O).(*ChanData).Buf)), 64)
		case *ArrayV:
			return BVi(int64(len(x.E)), 64)
		case PtrV:
			// *array
			pt := b.Type().(*types.Signature).Params().At(0).Type()
			return BVi(underlying(pt.(*types.Pointer).Elem()).(*types.Array).Len(), 64)
		}
	case "cap":
		switch x := args[0].(type) {
		case SliceV:
			return BVi(int64(x.Cap), 64)
		case ChanV:
			if x.O == nil {
				return BVi(0, 64)
			}
			return BVi(int64(w.st.load(x.O).(*ChanData).Cap), 64)
		case *ArrayV:
			return BVi(int64(len(x.E)), 64)
		}
	case "append":
		s := args[0].(SliceV)
		var add []Value
		switch a := args[1].(type) {
		case SliceV:
			add = w.sliceElems(a)
		case StringV:
			for _, t := range a.Bytes() {
				add = append(add, t)
			}
		}
		st := b.Type().(*types.Signature).Params().At(0).Type()
		return w.appendSlice(s, add, underlying(st).(*types.Slice).Elem())
	case "copy":
		dst := args[0].(SliceV)
		var src []Value
		switch a := args[1].(type) {
		case SliceV:
			src = append([]Value(nil), w.sliceElems(a)...)
		case StringV:
			for _, t := range a.Bytes() {
				src = append(src, t)
			}
		}
		n := dst.Len
		if len(src) < n {
			n = len(src)
		}
		if n > 0 {
			w.writeSlice(dst, 0, src[:n])
		}
		return BVi(int64(n), 64)
	case "delete":
		w.mapDelete(args[0].(MapV), args[1])
		return TupleV{}
	case "print", "println":
		return TupleV{}
	case "recover":
		return w.doRecover(g)
	case "panic":
		w.raise(g, args[0])
		return nil
	case "close":
		c := args[0].(ChanV)
		if c.O == nil {
			w.raise(g, w.rtError("close of nil channel"))
			return nil
		}
		cd := w.st.load(c.O).(*ChanData)
		if cd.Closed {
			w.raise(g, w.rtError("close of closed channel"))
			return nil
		}
		nd := *cd
		nd.Closed = true
		w.st.store(c.O, &nd)
		w.wakeAll()
		return TupleV{}
	case "min", "max":
		res := args[0]
		sig := b.Type().(*types.Signature)
		t := sig.Params().At(0).Type()
		for _, a := range args[1:] {
			var lt Value
			if b.Name() == "min" {
				lt = w.binop(g, token.LSS, t, a, res, t)
			} else {
				lt = w.binop(g, token.LSS, t, res, a, t)
			}
			v, ok := iteValue(lt.(*Term), a, res)
			if !ok {
				unsupported("min/max merge")
			}
			res = v
		}
		return res
	case "clear":
		switch x := args[0].(type) {
		case MapV:
			if x.O != nil {
				w.st.store(x.O, &MapData{})
			}
		case SliceV:
			if x.Len > 0 {
				et := underlying(b.Type().(*types.Signature).Params().At(0).Type()).(*types.Slice).Elem()
				z := w.e.zero(et)
				zs := make([]Value, x.Len)
				for i := range zs {
					zs[i] = z
				}
				w.writeSlice(x, 0, zs)
			}
		}
		return TupleV{}
	case "ssa:wrapnilchk":
		p, ok := args[0].(PtrV)
		if ok && p.O == nil {
			w.raise(g, w.rtError("value method called using nil pointer"))
			return nil
		}
		return args[0]
	case "SliceData":
		s := args[0].(SliceV)
		if s.O == nil {
			return PtrV{}
		}
		return PtrV{O: s.O, Path: appendPath(s.Path, s.Off)}
	case "StringData":
		s := args[0].(StringV)
		sl := w.bytesToSlice(s.Bytes())
		if sl.O == nil {
			return PtrV{}
		}
		return PtrV{O: sl.O, Path: []int{0}}
	case "String":
		p := args[0].(PtrV)
		n := constInt(args[1])
		if n == 0 {
			return mkString("")
		}
		k := len(p.Path) - 1
		arr := getPath(w.st.load(p.O), p.Path[:k]).(*ArrayV)
		bs := make([]*Term, n)
		for i := range bs {
			bs[i] = arr.E[p.Path[k]+i].(*Term)
		}
		return mkSymString(bs)
	case "Slice":
		p := args[0].(PtrV)
		n := constInt(args[1])
		if p.O == nil || n == 0 {
			return SliceV{}
		}
		k := len(p.Path) - 1
		arr := getPath(w.st.load(p.O), p.Path[:k]).(*ArrayV)
		return SliceV{O: p.O, Path: append([]int(nil), p.Path[:k]...), Off: p.Path[k], Len: n, Cap: len(arr.E) - p.Path[k]}
	case "Sizeof":
		return BVu(uint64(w.e.sizes.Sizeof(b.Type().(*types.Signature).Params().At(0).Type())), 64)
	case "ssa:deferstack":
		return DeferStackV{G: g.id, Depth: len(g.frames) - 1}
	}
	unsupported("builtin %s on %s", b.Name(), showValue(args[0]))
	return nil
}

// writeSlice stores vals into s starting at element index at.
func (w *Worker) writeSlice(s SliceV, at int, vals []Value) {
	root := w.st.load(s.O)
	arr := getPath(root, s.Path).(*ArrayV)
	el := make([]Value, len(arr.E))
	copy(el, arr.E)
	copy(el[s.Off+at:], vals)
	w.st.store(s.O, setPath(root, s.Path, &ArrayV{el}))
}

func (w *Worker) appendSlice(s SliceV, add []Value, et types.Type) Value {
	if len(add) == 0 {
		return s
	}
	n := s.Len + len(add)
	if n <= s.Cap && s.O != nil {
		w.writeSlice(s, s.Len, add)
		return SliceV{O: s.O, Path: s.Path, Off: s.Off, Len: n, Cap: s.Cap}
	}
	nc := s.Cap * 2
	if nc < n {
		nc = n
	}
	if s.Cap == 0 && nc < 4 && nc > 1 {
		// keep small growth exact-ish
	}
	el := make([]Value, nc)
	copy(el, w.sliceElems(s))
	copy(el[s.Len:], add)
	z := w.e.zero(et)
	for i := n; i < nc; i++ {
		el[i] = z
	}
	o := w.st.alloc(types.NewArray(et, int64(nc)), "append", &ArrayV{el})
	return SliceV{O: o, Len: n, Cap: nc}
}
