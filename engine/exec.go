package main

import (
	"fmt"
	"go/constant"
	"go/token"
	"go/types"
	"math/big"
	"os"
	"sort"
	"strings"
	"sync"
	"time"

	"golang.org/x/tools/go/ssa"
)

type Config struct {
	Unwind     int
	MaxSteps   int64
	MaxAlloc   int
	Sched      string // "deterministic" | "all"
	SchedK     int
	MapOrder   string // "insertion" | "all"
	TheoryBig  bool
	HashInj    bool
	Timeout    time.Duration
	SolverBin  string
	Workers    int
	MaxPaths   int
	Redirects  map[string]string
	Bounds     []string
	Concretize int // max range for symbolic value concretisation
	AcceptPanic bool
	BVIntsOff    bool // //vf:bvints off
	SymIndexFork bool // //vf:symindex fork: a load through a symbolic index forks per feasible index instead of building an ite chain
	TierInt     int
	Wall        time.Duration
}

type PathResult struct {
	Status string // OK, PANIC, UNWIND, UNSUPPORTED, BUDGET, ASSUME-FALSE, DEADLOCK, CUT, FROZEN-WRITE
	Msg    string
	Steps  int64
}

type Violation struct {
	Site    string
	Kind    string // assert | panic | hang | frozen-write | deadlock
	Inputs  map[string]interface{}
	Known   string
	Msg     string
	Trace   []string
}

type Obligation struct {
	Site    string
	Verdict string // discharged | trivially-true | violated | unknown
	Ms      int64
	PCLen   int
}

type HarnessRun struct {
	e           *Engine
	Name        string
	Fn          *ssa.Function
	Cfg         Config
	mu          sync.Mutex
	work        []*State
	active      int
	cond        *sync.Cond
	Paths       map[string]int
	Obls        []Obligation
	Violations  []*Violation
	Unknowns    []string
	Unsupported map[string]int
	Witness     map[string]map[string]interface{} // site -> model inputs reaching it
	WitnessNotes map[string][]string
	SitesSeen   map[string]int
	Cuts        map[string]int
	Steps       int64
	FnSteps     map[*ssa.Function]int64
	aborted     bool
	nPaths      int
	Trivial     int
}

type Engine struct {
	prog       *ssa.Program
	theoryBig  bool
	fnInfo     sync.Map // *ssa.Function -> *FnInfo
	globals    sync.Map // *ssa.Global -> *Obj
	baseHeap   *Heap
	initMu     sync.Mutex
	initDone   map[*ssa.Package]bool
	rtErrStr   types.Type
	intrinsics map[string]Intrinsic
	fnByName   map[string]*ssa.Function
	verbose    int
	errorType  types.Type
	poisonPkgs map[string]bool
	trace      bool
	sizes      types.Sizes
}

type Worker struct {
	e   *Engine
	hr  *HarnessRun
	sol *Solver
	st  *State
	fnSteps map[*ssa.Function]int64
}

func (e *Engine) info(fn *ssa.Function) *FnInfo {
	if v, ok := e.fnInfo.Load(fn); ok {
		return v.(*FnInfo)
	}
	fi := &FnInfo{idx: map[ssa.Value]int{}}
	add := func(v ssa.Value) {
		if _, ok := fi.idx[v]; !ok {
			fi.idx[v] = fi.n
			fi.n++
		}
	}
	for _, p := range fn.Params {
		add(p)
	}
	for _, p := range fn.FreeVars {
		add(p)
	}
	for _, b := range fn.Blocks {
		for _, in := range b.Instrs {
			if v, ok := in.(ssa.Value); ok {
				add(v)
			}
		}
	}
	v, _ := e.fnInfo.LoadOrStore(fn, fi)
	return v.(*FnInfo)
}

func (e *Engine) globalObj(g *ssa.Global) *Obj {
	if v, ok := e.globals.Load(g); ok {
		return v.(*Obj)
	}
	t := g.Type().(*types.Pointer).Elem()
	o := newObj(t, g.String())
	v, loaded := e.globals.LoadOrStore(g, o)
	_ = loaded
	return v.(*Obj)
}

// ---------- value lookup

func (w *Worker) get(fr *Frame, v ssa.Value) Value {
	switch x := v.(type) {
	case nil:
		return nil
	case *ssa.Const:
		return w.constValue(x)
	case *ssa.Function:
		return &FuncV{Fn: x}
	case *ssa.Builtin:
		return &FuncV{Bi: x}
	case *ssa.Global:
		o := w.e.globalObj(x)
		if _, ok := w.st.heap.get(o); !ok {
			// lazily zero-initialised
			w.st.heap.set(o, w.e.zero(o.Typ))
		}
		return PtrV{O: o}
	}
	i, ok := fr.info.idx[v]
	if !ok {
		panic(fmt.Sprintf("get: no slot for %s in %s", v.Name(), fr.fn))
	}
	r := fr.locals[i]
	if r == nil {
		panic(fmt.Sprintf("get: unset value %s = %v in %s", v.Name(), v, fr.fn))
	}
	return r
}

func (w *Worker) set(fr *Frame, v ssa.Value, val Value) {
	fr.locals[fr.info.idx[v]] = val
}

func (w *Worker) constValue(c *ssa.Const) Value {
	t := c.Type()
	if c.Value == nil {
		return w.e.zero(t)
	}
	switch u := underlying(t).(type) {
	case *types.Basic:
		switch {
		case u.Info()&types.IsBoolean != 0:
			return BoolConst(constant.BoolVal(c.Value))
		case u.Info()&types.IsString != 0:
			return mkString(constant.StringVal(c.Value))
		case u.Info()&types.IsInteger != 0:
			bi, ok := constant.Val(constant.ToInt(c.Value)).(*big.Int)
			if !ok {
				i64, _ := constant.Int64Val(constant.ToInt(c.Value))
				if u.Info()&types.IsUnsigned != 0 {
					u64, _ := constant.Uint64Val(constant.ToInt(c.Value))
					return BVu(u64, bvWidth(u))
				}
				return BVi(i64, bvWidth(u))
			}
			return BVConst(bi, bvWidth(u))
		case u.Info()&types.IsFloat != 0:
			f, _ := constant.Float64Val(c.Value)
			return FloatV{f}
		}
	}
	panic(fmt.Sprintf("constValue: unhandled %v : %v", c, t))
}

// FloatV is a concrete float (only concrete floats are supported).
type FloatV struct{ F float64 }

// ---------- decisions

func (w *Worker) stepStart() {
	st := w.st
	st.decs = st.decs[:0]
	st.decIdx = 0
	st.pcMark = len(st.pc)
}

func (w *Worker) stepEnd() {
	w.st.forced = nil
}

// decideN picks one of the alternatives (adding it to the PC), forking for the
// other feasible ones. conds must be exhaustive under the PC.
func (w *Worker) decideN(conds []*Term, why string) int {
	st := w.st
	if st.decIdx < len(st.forced) {
		d := st.forced[st.decIdx]
		st.decIdx++
		st.decs = append(st.decs, d)
		st.addPC(conds[d])
		return d
	}
	if len(st.bind) > 0 {
		sub := make([]*Term, len(conds))
		for i, c := range conds {
			sub[i] = st.subst(c)
		}
		conds = sub
	}
	type alt struct {
		i     int
		model map[string]*big.Int
		keep  bool // satisfied by the current model
	}
	var feas []alt
	unknown := false
	// which alternative does the current model take?
	taken := -1
	if st.model != nil {
		for i, c := range conds {
			if c.IsTrue() || (!c.IsFalse() && st.evalTrue(c)) {
				taken = i
				break
			}
		}
	}
	for i, c := range conds {
		if c.IsFalse() {
			continue
		}
		if i == taken {
			feas = append(feas, alt{i: i, keep: true})
			continue
		}
		if c.IsTrue() {
			feas = append(feas, alt{i: i, keep: true})
			continue
		}
		// last remaining alternative with none feasible so far must be feasible
		if i == len(conds)-1 && len(feas) == 0 && !unknown {
			feas = append(feas, alt{i: i})
			continue
		}
		if st.refuted(c) {
			continue
		}
		if dbgOff["domain"] {
		} else if ref, fe := st.domainCheck(c); ref {
			continue
		} else if fe {
			feas = append(feas, alt{i: i})
			continue
		}
		r, m := w.sol.CheckModel(st.pc, c, w.allVars())
		if r == "unknown" {
			unknown = true
			if w.e.verbose > 0 {
				fmt.Fprintf(os.Stderr, "UNKNOWN-BRANCH %s at %s: %s\n", why, st.choiceString(), c.str(0))
			}
			feas = append(feas, alt{i: i})
		} else if r == "sat" {
			feas = append(feas, alt{i: i, model: m})
		}
	}
	if len(feas) == 0 {
		panic(pathEnd{"INFEASIBLE", "no feasible alternative at " + why})
	}
	if unknown {
		st.approx = true
	}
	// continue with the alternative the model takes (if any), fork the others
	first := 0
	for k, a := range feas {
		if a.keep && a.i == taken {
			first = k
			break
		}
	}
	for k, a := range feas {
		if k == first {
			continue
		}
		n := st.clone()
		n.pc = n.pc[:st.pcMark]
		n.forced = append(append([]int(nil), st.decs...), a.i)
		n.decIdx = 0
		if a.model != nil {
			n.model = a.model
		} else if !a.keep {
			n.model = nil
		}
		w.hr.push(n)
	}
	d := feas[first]
	if !d.keep {
		st.model = d.model
	}
	st.decs = append(st.decs, d.i)
	st.decIdx++
	st.forced = append(st.forced[:0:0], st.decs...)
	st.addPC(conds[d.i])
	return d.i
}

// allVars lists every solver variable created on this path (inputs and auxiliaries).
func (w *Worker) allVars() []*Term {
	vs := w.inputVars()
	vs = append(vs, w.st.auxVars...)
	return vs
}

// refuted reports whether c is syntactically contradicted by the path condition.
func (st *State) refuted(c *Term) bool {
	if st.lits[Not(c).ID] {
		return true
	}
	if c.Op == OAnd {
		for _, a := range c.Args {
			if st.lits[Not(a).ID] {
				return true
			}
		}
	}
	if c.Op == ONot && c.Args[0].Op == OOr {
		for _, a := range c.Args[0].Args {
			if st.lits[a.ID] {
				return true
			}
		}
	}
	return false
}

// soleVar returns the single variable a term depends on (nil when none or several).
var soleVarCache sync.Map // term ID -> *Term (or (*Term)(nil))

func soleVar(t *Term) *Term {
	if v, ok := soleVarCache.Load(t.ID); ok {
		return v.(*Term)
	}
	var vs []*Term
	collectVars(t, map[int64]bool{}, &vs)
	var r *Term
	if len(vs) == 1 {
		r = vs[0]
	}
	soleVarCache.Store(t.ID, r)
	return r
}

// domainCheck decides c by enumeration when it depends on one variable of at most 8 bits:
// the variable's values are filtered by the path-condition conjuncts that mention only it.
// refuted: no remaining value satisfies c (sound even if other conjuncts also constrain the
// variable). feasible: some value satisfies c and no conjunct couples the variable with others.
func (st *State) domainCheck(c *Term) (refuted, feasible bool) {
	v := soleVar(c)
	if v == nil || v.S.K != KBV || v.S.W > 8 {
		return false, false
	}
	_, count, _ := filterDomain(st.domainOf(v), v, c)
	if count == 0 {
		return true, false
	}
	return false, !st.coupled[v.Name]
}

// evalTrue evaluates c under the path's cached model.
func (st *State) evalTrue(c *Term) bool {
	if st.model == nil {
		return false
	}
	r := evalTerm(c, st.model, map[int64]*Term{})
	return r.IsTrue()
}

func (w *Worker) decide(c *Term, why string) bool {
	if c.IsConst() {
		return c.IsTrue()
	}
	return w.decideN([]*Term{c, Not(c)}, why) == 0
}

// concretize turns a BV term into a Go int, forking over feasible values in [lo,hi].
func (w *Worker) concretize(t *Term, signed bool, lo, hi int64, why string) int64 {
	if t.IsConst() {
		if signed {
			return t.Int64()
		}
		return int64(t.Uint64())
	}
	st := w.st
	forcedNow := st.decIdx < len(st.forced)
	mk := func(v int64) *Term { return Eq(t, BVi(v, t.S.W)) }
	if hi-lo <= 16 || forcedNow {
		if hi-lo > 4096 {
			unsupported("concretize %s: range [%d,%d] too large for %s", why, lo, hi, t)
		}
		conds := make([]*Term, 0, hi-lo+1)
		for v := lo; v <= hi; v++ {
			conds = append(conds, mk(v))
		}
		i := w.decideN(conds, why)
		return lo + int64(i)
	}
	// large range: enumerate the feasible values through solver models (one query per
	// feasible value) instead of one query per candidate
	if hi-lo > 4096 {
		unsupported("concretize %s: range [%d,%d] too large for %s", why, lo, hi, t)
	}
	ts := st.subst(t)
	feasible := map[int64]bool{}
	var block []*Term
	inRange := TTrue
	if signed {
		inRange = And(BvCmp(OBvSLe, BVi(lo, t.S.W), ts), BvCmp(OBvSLe, ts, BVi(hi, t.S.W)))
	} else {
		inRange = And(BvCmp(OBvULe, BVi(lo, t.S.W), ts), BvCmp(OBvULe, ts, BVi(hi, t.S.W)))
	}
	exact := true
	for {
		if len(feasible) > w.hr.Cfg.Concretize {
			unsupported("concretize %s: more than %d feasible values for %s", why, w.hr.Cfg.Concretize, t)
		}
		r, m := w.sol.CheckModel(st.pc, And(append([]*Term{inRange}, block...)...), w.allVars())
		if r == "unsat" {
			break
		}
		if r != "sat" {
			exact = false
			break
		}
		val := evalTerm(ts, m, map[int64]*Term{})
		if !val.IsConst() {
			exact = false
			break
		}
		var v int64
		if signed {
			v = val.Int64()
		} else {
			v = int64(val.Uint64())
		}
		if v < lo || v > hi || feasible[v] {
			exact = false
			break
		}
		feasible[v] = true
		block = append(block, Not(Eq(ts, BVi(v, t.S.W))))
	}
	conds := make([]*Term, 0, hi-lo+1)
	for v := lo; v <= hi; v++ {
		if exact && !feasible[v] {
			conds = append(conds, TFalse)
		} else {
			conds = append(conds, mk(v))
		}
	}
	if exact && len(feasible) == 0 {
		panic(pathEnd{"INFEASIBLE", "no feasible value at " + why})
	}
	i := w.decideN(conds, why)
	return lo + int64(i)
}

// ---------- harness run bookkeeping

func (hr *HarnessRun) push(st *State) {
	hr.mu.Lock()
	hr.work = append(hr.work, st)
	hr.cond.Signal()
	hr.mu.Unlock()
}

func (hr *HarnessRun) pop() *State {
	hr.mu.Lock()
	defer hr.mu.Unlock()
	for {
		if hr.aborted {
			return nil
		}
		if n := len(hr.work); n > 0 {
			st := hr.work[n-1]
			hr.work = hr.work[:n-1]
			hr.active++
			return st
		}
		if hr.active == 0 {
			hr.cond.Broadcast()
			return nil
		}
		hr.cond.Wait()
	}
}

func (hr *HarnessRun) done1() {
	hr.mu.Lock()
	hr.active--
	if hr.active == 0 && len(hr.work) == 0 {
		hr.cond.Broadcast()
	}
	hr.mu.Unlock()
}

// ---------- frames and calls

func (w *Worker) newFrame(fn *ssa.Function, args []Value, env []Value) *Frame {
	if fn.Blocks == nil {
		unsupported("call of function without body: %s", fn.String())
	}
	if fn.TypeParams().Len() > 0 && len(fn.TypeArgs()) == 0 {
		unsupported("call of uninstantiated generic %s", fn.String())
	}
	fi := w.e.info(fn)
	fr := &Frame{fn: fn, info: fi, block: fn.Blocks[0], locals: make([]Value, fi.n)}
	if len(args) != len(fn.Params) {
		panic(fmt.Sprintf("newFrame %s: %d args for %d params", fn, len(args), len(fn.Params)))
	}
	for i, p := range fn.Params {
		fr.locals[fi.idx[p]] = args[i]
	}
	for i, p := range fn.FreeVars {
		fr.locals[fi.idx[p]] = env[i]
	}
	return fr
}

type ctl int

const (
	ctlNext ctl = iota // value computed, advance pc
	ctlStay            // frame stack changed / pc handled
)

func (w *Worker) prepareCall(fr *Frame, c *ssa.CallCommon) (Value, []Value) {
	v := w.get(fr, c.Value)
	var args []Value
	var fn Value
	if c.Method == nil {
		fn = v
	} else {
		recv, ok := v.(IfaceV)
		if !ok {
			if p, isP := v.(PoisonV); isP {
				unsupported("invoke on poison: %s", p.Why)
			}
			panic(fmt.Sprintf("invoke on non-interface %T", v))
		}
		if recv.T == nil {
			return nil, nil // nil interface: caller raises panic
		}
		f := w.e.prog.LookupMethod(recv.T, c.Method.Pkg(), c.Method.Name())
		if f == nil {
			unsupported("no method %s on %v", c.Method.Name(), recv.T)
		}
		fn = &FuncV{Fn: f}
		args = append(args, recv.V)
	}
	for _, a := range c.Args {
		args = append(args, w.get(fr, a))
	}
	return fn, args
}

// callValue invokes fn (a *FuncV) with args. If result goes to instr (a Value), it is stored there.
func (w *Worker) callValue(g *G, fr *Frame, instr ssa.Instruction, fnv Value, args []Value, kind int) ctl {
	f, _ := fnv.(*FuncV)
	if fnv == nil || f == nil {
		w.raise(g, w.rtError("invalid memory address or nil pointer dereference (nil func call)"))
		return ctlStay
	}
	if f.Bi != nil {
		res := w.callBuiltin(g, fr, instr, f.Bi, args)
		if res == nil {
			return ctlStay
		}
		if v, ok := instr.(ssa.Value); ok && kind == kindCall {
			w.set(fr, v, res)
		}
		return ctlNext
	}
	fn := f.Fn
	if fn.Synthetic == "package initializer" && w.hr.initMode() {
		return ctlNext
	}
	name := fn.String()
	if rd, ok := w.hr.Cfg.Redirects[name]; ok {
		tf := w.e.fnByName[rd]
		if tf == nil {
			unsupported("redirect target %s not found", rd)
		}
		fn = tf
		name = rd
		f = &FuncV{Fn: tf}
	} else if fn.Origin() != nil {
		if rd, ok := w.hr.Cfg.Redirects[fn.Origin().String()]; ok {
			tf := w.e.fnByName[rd]
			if tf == nil {
				unsupported("redirect target %s not found", rd)
			}
			fn = tf
			name = rd
			f = &FuncV{Fn: tf}
		}
	}
	if in, ok := w.e.lookupIntrinsic(fn); ok {
		res, c := in(w, g, fr, fn, args)
		if c == ctlStay {
			return ctlStay
		}
		if v, ok := instr.(ssa.Value); ok && kind == kindCall {
			if res == nil {
				res = TupleV{}
			}
			w.set(fr, v, res)
		}
		return ctlNext
	}
	nf := w.newFrame(fn, args, f.Env)
	nf.kind = kind
	if kind != kindCall {
		nf.noResult = true
	}
	if len(g.frames) > 400 {
		panic(pathEnd{"BUDGET", "call depth > 400 in " + name})
	}
	g.frames = append(g.frames, nf)
	w.enterBlock(nf)
	return ctlStay
}

// enterBlock evaluates phis of fr.block given fr.prev and sets pc after them.
func (w *Worker) enterBlock(fr *Frame) {
	b := fr.block
	n := 0
	for n < len(b.Instrs) {
		if _, ok := b.Instrs[n].(*ssa.Phi); !ok {
			break
		}
		n++
	}
	if n > 0 {
		pi := -1
		for i, p := range b.Preds {
			if p == fr.prev {
				pi = i
				break
			}
		}
		if pi < 0 {
			panic("enterBlock: pred not found")
		}
		tmp := make([]Value, n)
		for i := 0; i < n; i++ {
			tmp[i] = w.get(fr, b.Instrs[i].(*ssa.Phi).Edges[pi])
		}
		for i := 0; i < n; i++ {
			w.set(fr, b.Instrs[i].(*ssa.Phi), tmp[i])
		}
	}
	fr.pc = n
}

func (w *Worker) jump(fr *Frame, to *ssa.BasicBlock) {
	fr.prev = fr.block
	fr.block = to
	w.enterBlock(fr)
}

// doReturn pops the top frame of g delivering res to the caller.
func (w *Worker) doReturn(g *G, res Value) {
	fr := g.top()
	g.frames = g.frames[:len(g.frames)-1]
	if fr.onReturn != nil {
		fr.onReturn(w.e, w.st, g, res)
		return
	}
	if len(g.frames) == 0 {
		g.status = gDone
		return
	}
	caller := g.top()
	if fr.noResult {
		// deferred call: caller re-examines its state (RunDefers or unwinding); go: n/a
		return
	}
	instr := caller.block.Instrs[caller.pc]
	if v, ok := instr.(ssa.Value); ok {
		if res == nil {
			res = TupleV{}
		}
		w.set(caller, v, res)
	}
	caller.pc++
}

func (w *Worker) rtError(msg string) Value {
	return IfaceV{T: w.e.rtErrStr, V: mkString(msg)}
}

// raise starts panicking in goroutine g with value v (an IfaceV).
func (w *Worker) raise(g *G, v Value) {
	fr := g.top()
	fr.panicking = true
	fr.recovered = false
	fr.panicVal = v
	if w.e.verbose > 0 || true {
		w.st.extra = setExtra(w.st.extra, "panicWhere", w.where())
	}
}

// unwindStep advances panic unwinding / post-recover completion of top frame.
func (w *Worker) unwindStep(g *G) {
	fr := g.top()
	if n := len(fr.defers); n > 0 {
		d := fr.defers[n-1]
		fr.defers = fr.defers[:n-1]
		w.callValue(g, fr, d.Pos, d.Fn, d.Args, kindDefer)
		return
	}
	if fr.panicking {
		// propagate to caller
		val := fr.panicVal
		g.frames = g.frames[:len(g.frames)-1]
		if len(g.frames) == 0 {
			g.status = gDone
			pw, _ := w.st.extra["panicWhere"].(string)
			panic(pathEnd{"PANIC", w.showPanic(val) + "\n" + pw})
		}
		nf := g.top()
		nf.panicking = true
		nf.recovered = false
		nf.panicVal = val
		return
	}
	// recovered: resume at Recover block or return zero values
	fr.recovered = false
	if fr.fn.Recover != nil {
		fr.prev = fr.block
		fr.block = fr.fn.Recover
		fr.pc = 0
		return
	}
	res := fr.fn.Signature.Results()
	var rv Value
	switch res.Len() {
	case 0:
	case 1:
		rv = w.e.zero(res.At(0).Type())
	default:
		rv = w.e.zero(res)
	}
	w.doReturn(g, rv)
}

func (w *Worker) showPanic(v Value) string {
	if iv, ok := v.(IfaceV); ok && iv.T != nil {
		if s, ok := iv.V.(StringV); ok {
			return fmt.Sprintf("%v: %s", iv.T, s.Go())
		}
		return fmt.Sprintf("%v: %s", iv.T, showValue(iv.V))
	}
	return showValue(v)
}

func (w *Worker) doRecover(g *G) Value {
	// the frame calling recover() must be a deferred call frame (possibly through
	// synthetic wrappers) whose parent is panicking.
	n := len(g.frames)
	i := n - 1
	fr := g.frames[i]
	if fr.kind != kindDefer {
		return IfaceV{}
	}
	if i == 0 {
		return IfaceV{}
	}
	p := g.frames[i-1]
	if !p.panicking {
		return IfaceV{}
	}
	p.panicking = false
	p.recovered = true
	v := p.panicVal
	p.panicVal = nil
	return v
}

// ---------- main loop

func (w *Worker) runState(st *State) (res PathResult) {
	w.st = st
	defer func() {
		if r := recover(); r != nil {
			if pe, ok := r.(pathEnd); ok {
				res = PathResult{Status: pe.status, Msg: pe.msg, Steps: st.steps}
				return
			}
			// engine bug: report as unsupported with stack
			res = PathResult{Status: "ENGINE-ERROR", Msg: fmt.Sprintf("%v\n%s", r, w.where()), Steps: st.steps}
			if w.e.verbose > 0 {
				fmt.Fprintf(os.Stderr, "ENGINE-ERROR: %v\n%s\n", r, w.where())
				if w.e.verbose > 1 {
					panic(r)
				}
			}
		}
	}()
	for {
		w.stepStart()
		g := w.pickG()
		if g == nil {
			return PathResult{Status: "OK", Steps: st.steps}
		}
		fr := g.top()
		if fr.panicking || fr.recovered {
			w.unwindStep(g)
			w.stepEnd()
			continue
		}
		st.steps++
		if st.steps > w.hr.Cfg.MaxSteps {
			panic(pathEnd{"BUDGET", fmt.Sprintf("more than %d steps", w.hr.Cfg.MaxSteps)})
		}
		w.fnSteps[fr.fn]++
		instr := fr.block.Instrs[fr.pc]
		if w.e.trace {
			fmt.Fprintf(os.Stderr, "[g%d %s] %s\n", g.id, fr.fn.Name(), instrString(instr))
		}
		if w.exec(g, fr, instr) == ctlNext {
			fr.pc++
		}
		w.stepEnd()
	}
}

func instrString(in ssa.Instruction) string {
	if v, ok := in.(ssa.Value); ok {
		return v.Name() + " = " + in.String()
	}
	return in.String()
}

func (w *Worker) where() string {
	var sb strings.Builder
	st := w.st
	if st == nil || len(st.gs) == 0 {
		return ""
	}
	g := st.gs[st.cur]
	for i := len(g.frames) - 1; i >= 0 && i >= len(g.frames)-12; i-- {
		fr := g.frames[i]
		pos := token.NoPos
		if fr.pc < len(fr.block.Instrs) {
			in := fr.block.Instrs[fr.pc]
			pos = in.Pos()
			fmt.Fprintf(&sb, "  at %s: %s [%s]\n", fr.fn.String(), instrString(in), w.e.prog.Fset.Position(pos))
		} else {
			fmt.Fprintf(&sb, "  at %s\n", fr.fn.String())
		}
	}
	return sb.String()
}

// pickG selects the goroutine to run next (deterministic scheduling: keep
// running the current one until it blocks or finishes).
func (w *Worker) pickG() *G {
	st := w.st
	main := st.gs[0]
	if main.status == gDone {
		return nil
	}
	g := st.gs[st.cur]
	if w.hr.Cfg.Sched == "all" && st.extra != nil && st.extra["yield"] == true {
		// a scheduling point: any runnable goroutine may continue (bounded number of switches)
		var run []int
		for i, x := range st.gs {
			if x.status == gRunnable {
				run = append(run, i)
			}
		}
		if len(run) > 1 && st.preempt < w.hr.Cfg.SchedK {
			conds := make([]*Term, len(run))
			for i := range conds {
				conds[i] = TTrue
			}
			c := w.decideN(conds, "schedule")
			st.extra = setExtra(st.extra, "yield", false)
			if run[c] != st.cur {
				if g.status == gRunnable {
					st.preempt++
				}
				st.cur = run[c]
			}
			st.sched = append(st.sched, run[c])
			return st.gs[st.cur]
		}
		st.extra = setExtra(st.extra, "yield", false)
	}
	if g.status == gRunnable {
		return g
	}
	// the current goroutine cannot continue: the next runnable one (round robin) continues;
	// other orders are reached through the bounded pre-emptive switches above
	for i := 1; i <= len(st.gs); i++ {
		j := (st.cur + i) % len(st.gs)
		if st.gs[j].status == gRunnable {
			st.cur = j
			return st.gs[j]
		}
	}
	// try to unblock
	if w.wakeBlocked() {
		return w.pickG()
	}
	var ws []string
	for _, g := range st.gs {
		if g.status == gBlocked {
			ws = append(ws, fmt.Sprintf("g%d:%s", g.id, g.waitOn))
		}
	}
	panic(pathEnd{"DEADLOCK", "all goroutines blocked: " + strings.Join(ws, ", ")})
}

// ---------- instruction execution

func (w *Worker) exec(g *G, fr *Frame, instr ssa.Instruction) ctl {
	switch in := instr.(type) {
	case *ssa.DebugRef:
		return ctlNext
	case *ssa.UnOp:
		v := w.unop(g, fr, in)
		if v == nil {
			return ctlStay
		}
		w.set(fr, in, v)
	case *ssa.BinOp:
		v := w.binop(g, in.Op, in.X.Type(), w.get(fr, in.X), w.get(fr, in.Y), in.Y.Type())
		if v == nil {
			return ctlStay
		}
		w.set(fr, in, v)
	case *ssa.Call:
		fn, args := w.prepareCall(fr, &in.Call)
		if fn == nil {
			w.raise(g, w.rtError("invalid memory address or nil pointer dereference (method on nil interface)"))
			return ctlStay
		}
		return w.callValue(g, fr, in, fn, args, kindCall)
	case *ssa.ChangeInterface:
		w.set(fr, in, w.get(fr, in.X))
	case *ssa.ChangeType:
		w.set(fr, in, w.get(fr, in.X))
	case *ssa.Convert:
		w.set(fr, in, w.convert(in.Type(), in.X.Type(), w.get(fr, in.X)))
	case *ssa.MultiConvert:
		w.set(fr, in, w.convert(in.Type(), in.X.Type(), w.get(fr, in.X)))
	case *ssa.SliceToArrayPointer:
		s := w.get(fr, in.X).(SliceV)
		n := int(underlying(in.Type().(*types.Pointer).Elem()).(*types.Array).Len())
		if s.Len < n {
			w.raise(g, w.rtError("cannot convert slice to array pointer: short slice"))
			return ctlStay
		}
		if s.O == nil {
			w.set(fr, in, PtrV{})
		} else {
			w.set(fr, in, WinPtrV{S: s, N: n})
		}
	case *ssa.MakeInterface:
		w.set(fr, in, IfaceV{T: in.X.Type(), V: w.get(fr, in.X)})
	case *ssa.Extract:
		t := w.get(fr, in.Tuple)
		if p, ok := t.(PoisonV); ok {
			w.set(fr, in, p)
		} else {
			w.set(fr, in, t.(TupleV)[in.Index])
		}
	case *ssa.Slice:
		v := w.sliceOp(g, fr, in)
		if v == nil {
			return ctlStay
		}
		w.set(fr, in, v)
	case *ssa.Return:
		var res Value
		switch len(in.Results) {
		case 0:
		case 1:
			res = w.get(fr, in.Results[0])
		default:
			t := make(TupleV, len(in.Results))
			for i, r := range in.Results {
				t[i] = w.get(fr, r)
			}
			res = t
		}
		w.doReturn(g, res)
		return ctlStay
	case *ssa.RunDefers:
		if n := len(fr.defers); n > 0 {
			d := fr.defers[n-1]
			fr.defers = fr.defers[:n-1]
			w.callValue(g, fr, d.Pos, d.Fn, d.Args, kindDefer)
			return ctlStay
		}
	case *ssa.Panic:
		w.raise(g, w.get(fr, in.X))
		return ctlStay
	case *ssa.Send:
		return w.chanSend(g, fr, in)
	case *ssa.Store:
		addr := w.get(fr, in.Addr)
		val := w.get(fr, in.Val)
		if !w.storePtr(g, addr, val) {
			return ctlStay
		}
	case *ssa.If:
		c := w.get(fr, in.Cond)
		ct, ok := c.(*Term)
		if !ok {
			unsupported("branch on %s", showValue(c))
		}
		if !ct.IsConst() {
			if fr.symVisits == nil {
				fr.symVisits = map[ssa.Instruction]int{}
			}
			fr.symVisits[in]++
			if fr.symVisits[in] > w.hr.Cfg.Unwind {
				panic(pathEnd{"UNWIND", fmt.Sprintf("more than %d symbolic decisions at %s in %s", w.hr.Cfg.Unwind, w.e.prog.Fset.Position(in.Pos()), fr.fn)})
			}
		}
		if w.decide(ct, "if") {
			w.jump(fr, fr.block.Succs[0])
		} else {
			w.jump(fr, fr.block.Succs[1])
		}
		return ctlStay
	case *ssa.Jump:
		w.jump(fr, fr.block.Succs[0])
		return ctlStay
	case *ssa.Defer:
		fn, args := w.prepareCall(fr, &in.Call)
		d := &Deferred{Fn: fn, Args: args, Pos: in}
		target := fr
		if in.DeferStack != nil {
			ds := w.get(fr, in.DeferStack).(DeferStackV)
			target = g.frames[ds.Depth]
		}
		target.defers = append(target.defers, d)
	case *ssa.Go:
		fn, args := w.prepareCall(fr, &in.Call)
		w.spawn(fn, args, in)
	case *ssa.MakeChan:
		sz := w.get(fr, in.Size).(*Term)
		n := int(w.concretize(sz, true, 0, 16, "chan size"))
		o := w.st.alloc(in.Type(), "chan", &ChanData{Cap: n})
		w.set(fr, in, ChanV{o})
	case *ssa.Alloc:
		t := in.Type().(*types.Pointer).Elem()
		o := w.st.alloc(t, in.Comment, w.e.zero(t))
		w.set(fr, in, PtrV{O: o})
	case *ssa.MakeSlice:
		ln := w.get(fr, in.Len).(*Term)
		cp := w.get(fr, in.Cap).(*Term)
		v := w.makeSlice(g, in.Type(), ln, cp)
		if v == nil {
			return ctlStay
		}
		w.set(fr, in, v)
	case *ssa.MakeMap:
		o := w.st.alloc(in.Type(), "map", &MapData{})
		w.set(fr, in, MapV{o})
	case *ssa.Range:
		w.set(fr, in, w.rangeInit(w.get(fr, in.X)))
	case *ssa.Next:
		w.set(fr, in, w.rangeNext(in, w.get(fr, in.Iter).(*RangeIter)))
	case *ssa.FieldAddr:
		p, ok := w.get(fr, in.X).(PtrV)
		if !ok {
			unsupported("FieldAddr on %s", showValue(w.get(fr, in.X)))
		}
		if p.O == nil {
			w.raise(g, w.rtError("invalid memory address or nil pointer dereference"))
			return ctlStay
		}
		if p.Sym != nil {
			p = w.concretizePtr(p)
		}
		if _, isBig := w.st.load(p.O).(*BigV); isBig && len(p.Path) == 0 {
			unsupported("field access into theory-mode big.Int in %s", fr.fn)
		}
		w.set(fr, in, PtrV{O: p.O, Path: appendPath(p.Path, in.Field)})
	case *ssa.Field:
		x := w.get(fr, in.X)
		s, ok := x.(*StructV)
		if !ok {
			unsupported("Field on %s", showValue(x))
		}
		w.set(fr, in, s.F[in.Field])
	case *ssa.IndexAddr:
		v := w.indexAddr(g, fr, in)
		if v == nil {
			return ctlStay
		}
		w.set(fr, in, v)
	case *ssa.Index:
		v := w.index(g, fr, in)
		if v == nil {
			return ctlStay
		}
		w.set(fr, in, v)
	case *ssa.Lookup:
		v := w.lookup(g, fr, in)
		if v == nil {
			return ctlStay
		}
		w.set(fr, in, v)
	case *ssa.MapUpdate:
		m := w.get(fr, in.Map).(MapV)
		if m.O == nil {
			w.raise(g, w.rtError("assignment to entry in nil map"))
			return ctlStay
		}
		w.mapUpdate(m, w.get(fr, in.Key), w.get(fr, in.Value), in.Map.Type())
	case *ssa.TypeAssert:
		v := w.typeAssert(g, in, w.get(fr, in.X))
		if v == nil {
			return ctlStay
		}
		w.set(fr, in, v)
	case *ssa.MakeClosure:
		env := make([]Value, len(in.Bindings))
		for i, b := range in.Bindings {
			env[i] = w.get(fr, b)
		}
		w.set(fr, in, &FuncV{Fn: in.Fn.(*ssa.Function), Env: env})
	case *ssa.Select:
		return w.selectOp(g, fr, in)
	default:
		unsupported("instruction %T", instr)
	}
	return ctlNext
}

// ---------- memory

func (w *Worker) concretizePtr(p PtrV) PtrV {
	i := w.concretize(p.Sym, false, 0, int64(p.SymN-1), "symbolic index")
	return PtrV{O: p.O, Path: appendPath(p.Path[:len(p.Path)-1], p.Path[len(p.Path)-1]+int(i))}
}

func (w *Worker) loadPtr(g *G, addr Value) Value {
	if wp, isW := addr.(WinPtrV); isW {
		el := w.sliceElems(SliceV{O: wp.S.O, Path: wp.S.Path, Off: wp.S.Off, Len: wp.N, Cap: wp.N})
		return &ArrayV{append([]Value(nil), el...)}
	}
	p, ok := addr.(PtrV)
	if !ok {
		if po, isP := addr.(PoisonV); isP {
			unsupported("load through poison pointer: %s", po.Why)
		}
		panic(fmt.Sprintf("load through %T", addr))
	}
	if p.O == nil {
		w.raise(g, w.rtError("invalid memory address or nil pointer dereference"))
		return nil
	}
	root := w.st.load(p.O)
	if p.Sym == nil {
		v := getPath(root, p.Path)
		if po, isP := v.(PoisonV); isP && !w.hr.initMode() {
			unsupported("read of poisoned memory %s: %s", p.O.Name, po.Why)
		}
		return v
	}
	// symbolic final index: base path is Path[:n-1], base index Path[n-1]
	if w.hr.Cfg.SymIndexFork && p.SymN <= w.hr.Cfg.Concretize {
		cp := w.concretizePtr(p)
		return w.loadPtr(g, cp)
	}
	n := len(p.Path)
	arr := getPath(root, p.Path[:n-1]).(*ArrayV)
	base := p.Path[n-1]
	res := arr.E[base+p.SymN-1]
	for i := p.SymN - 2; i >= 0; i-- {
		v, ok := iteValue(Eq(p.Sym, BVu(uint64(i), p.Sym.S.W)), arr.E[base+i], res)
		if !ok {
			cp := w.concretizePtr(p)
			return w.loadPtr(g, cp)
		}
		res = v
	}
	return res
}

func (w *Worker) storePtr(g *G, addr Value, val Value) bool {
	if wp, isW := addr.(WinPtrV); isW {
		w.writeSlice(SliceV{O: wp.S.O, Path: wp.S.Path, Off: wp.S.Off, Len: wp.N, Cap: wp.N}, 0, val.(*ArrayV).E)
		return true
	}
	p, ok := addr.(PtrV)
	if !ok {
		if po, isP := addr.(PoisonV); isP {
			unsupported("store through poison pointer: %s", po.Why)
		}
		panic(fmt.Sprintf("store through %T", addr))
	}
	if p.O == nil {
		w.raise(g, w.rtError("invalid memory address or nil pointer dereference"))
		return false
	}
	root := w.st.load(p.O)
	if p.Sym == nil {
		w.st.store(p.O, setPath(root, p.Path, val))
		return true
	}
	n := len(p.Path)
	arr := getPath(root, p.Path[:n-1]).(*ArrayV)
	base := p.Path[n-1]
	el := make([]Value, len(arr.E))
	copy(el, arr.E)
	for i := 0; i < p.SymN; i++ {
		v, ok := iteValue(Eq(p.Sym, BVu(uint64(i), p.Sym.S.W)), val, arr.E[base+i])
		if !ok {
			cp := w.concretizePtr(p)
			return w.storePtr(g, cp, val)
		}
		el[base+i] = v
	}
	w.st.store(p.O, setPath(root, p.Path[:n-1], &ArrayV{el}))
	return true
}

func (w *Worker) makeSlice(g *G, t types.Type, ln, cp *Term) Value {
	maxA := int64(w.hr.Cfg.MaxAlloc)
	var l, c int64
	if ln.IsConst() {
		l = ln.Int64()
	} else {
		// fork over sizes 0..MaxAlloc, and an "over bound" alternative that is cut
		conds := make([]*Term, 0, maxA+3)
		conds = append(conds, BvCmp(OBvSLt, ln, BVi(0, ln.S.W)))
		for v := int64(0); v <= maxA; v++ {
			conds = append(conds, Eq(ln, BVi(v, ln.S.W)))
		}
		conds = append(conds, BvCmp(OBvSLt, BVi(maxA, ln.S.W), ln))
		i := w.decideN(conds, "make size")
		if i == 0 {
			w.raise(g, w.rtError("makeslice: len out of range"))
			return nil
		}
		if i == len(conds)-1 {
			panic(pathEnd{"CUT", fmt.Sprintf("make() with symbolic size > %d", maxA)})
		}
		l = int64(i - 1)
	}
	if cp.IsConst() {
		c = cp.Int64()
	} else if cp == ln {
		c = l
	} else {
		c = w.concretize(cp, true, l, l+maxA, "make cap")
	}
	if l < 0 || c < l {
		w.raise(g, w.rtError("makeslice: len out of range"))
		return nil
	}
	if c > 1<<22 {
		panic(pathEnd{"CUT", fmt.Sprintf("make() of %d elements", c)})
	}
	et := underlying(t).(*types.Slice).Elem()
	z := w.e.zero(et)
	el := make([]Value, c)
	for i := range el {
		el[i] = z
	}
	o := w.st.alloc(types.NewArray(et, c), "makeslice", &ArrayV{el})
	return SliceV{O: o, Off: 0, Len: int(l), Cap: int(c)}
}

func (w *Worker) sliceElems(s SliceV) []Value {
	if s.O == nil || s.Len == 0 {
		return nil
	}
	arr := getPath(w.st.load(s.O), s.Path).(*ArrayV)
	return arr.E[s.Off : s.Off+s.Len]
}

func (w *Worker) newSlice(et types.Type, elems []Value) SliceV {
	el := make([]Value, len(elems))
	copy(el, elems)
	o := w.st.alloc(types.NewArray(et, int64(len(el))), "slice", &ArrayV{el})
	return SliceV{O: o, Len: len(el), Cap: len(el)}
}

func (w *Worker) bytesToSlice(bs []*Term) SliceV {
	el := make([]Value, len(bs))
	for i, b := range bs {
		el[i] = b
	}
	return w.newSlice(types.Typ[types.Uint8], el)
}

func (w *Worker) sliceBytes(s SliceV) []*Term {
	el := w.sliceElems(s)
	r := make([]*Term, len(el))
	for i, e := range el {
		t, ok := e.(*Term)
		if !ok {
			unsupported("non-scalar byte %s", showValue(e))
		}
		r[i] = t
	}
	return r
}

func (w *Worker) sliceOp(g *G, fr *Frame, in *ssa.Slice) Value {
	x := w.get(fr, in.X)
	var lo, hi, mx int64 = 0, -1, -1
	getB := func(v ssa.Value, lim int64) (int64, bool) {
		t := w.get(fr, v).(*Term)
		if t.IsConst() {
			return t.Int64(), true
		}
		// fork: out of range vs each in-range value
		oor := Or(BvCmp(OBvSLt, t, BVi(0, t.S.W)), BvCmp(OBvSLt, BVi(lim, t.S.W), t))
		if w.decide(oor, "slice bound") {
			return -1, true
		}
		return w.concretize(t, true, 0, lim, "slice bound"), true
	}
	switch xv := x.(type) {
	case StringV:
		n := int64(xv.Len())
		if in.Low != nil {
			lo, _ = getB(in.Low, n)
		}
		hi = n
		if in.High != nil {
			hi, _ = getB(in.High, n)
		}
		if lo < 0 || hi < lo || hi > n {
			w.raise(g, w.rtError("slice bounds out of range"))
			return nil
		}
		if !xv.Sym && xv.B == nil {
			return mkString(xv.S[lo:hi])
		}
		return mkSymString(xv.B[lo:hi])
	case SliceV:
		c := int64(xv.Cap)
		if in.Low != nil {
			lo, _ = getB(in.Low, c)
		}
		hi = int64(xv.Len)
		if in.High != nil {
			hi, _ = getB(in.High, c)
		}
		mx = c
		if in.Max != nil {
			mx, _ = getB(in.Max, c)
		}
		if lo < 0 || hi < lo || mx < hi || mx > c {
			w.raise(g, w.rtError("slice bounds out of range"))
			return nil
		}
		if xv.O == nil {
			return SliceV{}
		}
		return SliceV{O: xv.O, Path: xv.Path, Off: xv.Off + int(lo), Len: int(hi - lo), Cap: int(mx - lo)}
	case PtrV: // *array
		if xv.O == nil {
			w.raise(g, w.rtError("invalid memory address or nil pointer dereference"))
			return nil
		}
		if xv.Sym != nil {
			xv = w.concretizePtr(xv)
		}
		arr := getPath(w.st.load(xv.O), xv.Path).(*ArrayV)
		c := int64(len(arr.E))
		if in.Low != nil {
			lo, _ = getB(in.Low, c)
		}
		hi = c
		if in.High != nil {
			hi, _ = getB(in.High, c)
		}
		mx = c
		if in.Max != nil {
			mx, _ = getB(in.Max, c)
		}
		if lo < 0 || hi < lo || mx < hi || mx > c {
			w.raise(g, w.rtError("slice bounds out of range"))
			return nil
		}
		return SliceV{O: xv.O, Path: xv.Path, Off: int(lo), Len: int(hi - lo), Cap: int(mx - lo)}
	}
	unsupported("slice of %s", showValue(x))
	return nil
}

func ext64(idx *Term, signed bool) *Term {
	if idx.S.W == 64 {
		return idx
	}
	if signed {
		return SExt(idx, 64)
	}
	return ZExt(idx, 64)
}

func (w *Worker) index(g *G, fr *Frame, in *ssa.Index) Value {
	x := w.get(fr, in.X)
	idx := ext64(w.get(fr, in.Index).(*Term), isSigned(in.Index.Type()))
	switch xv := x.(type) {
	case *ArrayV:
		n := len(xv.E)
		i, ok := w.boundsCheck(g, idx, n, isSigned(in.Index.Type()))
		if !ok {
			return nil
		}
		if i >= 0 {
			return xv.E[i]
		}
		res := xv.E[n-1]
		for k := n - 2; k >= 0; k-- {
			v, ok := iteValue(Eq(idx, BVu(uint64(k), idx.S.W)), xv.E[k], res)
			if !ok {
				c := w.concretize(idx, false, 0, int64(n-1), "array index")
				return xv.E[c]
			}
			res = v
		}
		return res
	case StringV:
		n := xv.Len()
		i, ok := w.boundsCheck(g, idx, n, isSigned(in.Index.Type()))
		if !ok {
			return nil
		}
		bs := xv.Bytes()
		if i >= 0 {
			return bs[i]
		}
		res := bs[n-1]
		for k := n - 2; k >= 0; k-- {
			res = Ite(Eq(idx, BVu(uint64(k), idx.S.W)), bs[k], res)
		}
		return res
	}
	unsupported("Index on %s", showValue(x))
	return nil
}

// boundsCheck returns (i>=0 concrete index | -1 symbolic-in-range, ok=false when a panic was raised).
func (w *Worker) boundsCheck(g *G, idx *Term, n int, signed bool) (int, bool) {
	if idx.IsConst() {
		var i int64
		if signed {
			i = idx.Int64()
		} else {
			if !idx.C.IsInt64() {
				i = -1
			} else {
				i = int64(idx.Uint64())
			}
		}
		if i < 0 || i >= int64(n) {
			w.raise(g, w.rtError(fmt.Sprintf("index out of range [%d] with length %d", i, n)))
			return 0, false
		}
		return int(i), true
	}
	inr := BvCmp(OBvULt, idx, BVu(uint64(n), idx.S.W))
	if n == 0 || !w.decide(inr, "bounds") {
		w.raise(g, w.rtError(fmt.Sprintf("index out of range [sym] with length %d", n)))
		return 0, false
	}
	if n == 1 {
		return 0, true
	}
	return -1, true
}

func (w *Worker) indexAddr(g *G, fr *Frame, in *ssa.IndexAddr) Value {
	x := w.get(fr, in.X)
	idx := w.get(fr, in.Index).(*Term)
	if idx.S.W != 64 {
		if isSigned(in.Index.Type()) {
			idx = SExt(idx, 64)
		} else {
			idx = ZExt(idx, 64)
		}
	}
	signed := isSigned(in.Index.Type())
	if wp, isW := x.(WinPtrV); isW {
		x = SliceV{O: wp.S.O, Path: wp.S.Path, Off: wp.S.Off, Len: wp.N, Cap: wp.N}
	}
	switch xv := x.(type) {
	case SliceV:
		i, ok := w.boundsCheck(g, idx, xv.Len, signed)
		if !ok {
			return nil
		}
		if i >= 0 {
			return PtrV{O: xv.O, Path: appendPath(xv.Path, xv.Off+i)}
		}
		return PtrV{O: xv.O, Path: appendPath(xv.Path, xv.Off), Sym: idx, SymN: xv.Len}
	case PtrV:
		if xv.O == nil {
			w.raise(g, w.rtError("invalid memory address or nil pointer dereference"))
			return nil
		}
		if xv.Sym != nil {
			xv = w.concretizePtr(xv)
		}
		n := int(underlying(in.X.Type().(*types.Pointer).Elem()).(*types.Array).Len())
		i, ok := w.boundsCheck(g, idx, n, signed)
		if !ok {
			return nil
		}
		if i >= 0 {
			return PtrV{O: xv.O, Path: appendPath(xv.Path, i)}
		}
		return PtrV{O: xv.O, Path: appendPath(xv.Path, 0), Sym: idx, SymN: n}
	}
	unsupported("IndexAddr on %s", showValue(x))
	return nil
}

// ---------- goroutines (coroutines)

func (w *Worker) spawn(fn Value, args []Value, in ssa.Instruction) {
	st := w.st
	ng := &G{id: len(st.gs), status: gRunnable}
	st.gs = append(st.gs, ng)
	// push the root frame via callValue on the new goroutine
	f, _ := fn.(*FuncV)
	if f == nil {
		unsupported("go nil func")
	}
	if f.Bi != nil {
		unsupported("go builtin")
	}
	saveCur := st.cur
	// build frame directly (intrinsics as goroutine roots are unsupported)
	target := f.Fn
	if rd, ok := w.hr.Cfg.Redirects[target.String()]; ok {
		target = w.e.fnByName[rd]
	}
	nf := w.newFrame(target, args, f.Env)
	nf.kind = kindGo
	nf.noResult = true
	ng.frames = append(ng.frames, nf)
	w.enterBlock(nf)
	st.cur = saveCur
	w.yieldPoint()
}

// sortedKeys is a helper for deterministic iteration over string-keyed maps.
func sortedKeys(m map[string]int) []string {
	var ks []string
	for k := range m {
		ks = append(ks, k)
	}
	sort.Strings(ks)
	return ks
}
