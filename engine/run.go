package main

import (
	"fmt"
	"math/big"
	"os"
	"sort"
	"strings"
	"sync"
	"sync/atomic"
	"time"

	"golang.org/x/tools/go/ssa"
)

func (hr *HarnessRun) initMode() bool { return hr.Name == "<init>" }

func newHarnessRun(e *Engine, name string, fn *ssa.Function, cfg Config) *HarnessRun {
	hr := &HarnessRun{e: e, Name: name, Fn: fn, Cfg: cfg,
		Paths: map[string]int{}, Unsupported: map[string]int{}, Witness: map[string]map[string]interface{}{},
		SitesSeen: map[string]int{}, WitnessNotes: map[string][]string{}, Cuts: map[string]int{}, FnSteps: map[*ssa.Function]int64{}}
	hr.cond = sync.NewCond(&hr.mu)
	return hr
}

func newState(base *Heap) *State {
	return &State{lits: map[int64]bool{}, model: map[string]*big.Int{}, heap: newHeap(base), base: base, nameCnt: map[string]int{}, sites: map[string]bool{}, id: atomic.AddInt64(&stateCounter, 1)}
}

// ---------- package initialisation (concrete, into the base heap)

var initDeny = map[string]bool{
	"runtime": true, "os": true, "syscall": true, "reflect": true, "time": true, "net": true,
	"unsafe": true, "testing": true, "flag": true, "log": true, "os/signal": true, "os/exec": true,
	"runtime/debug": true, "runtime/pprof": true, "runtime/trace": true, "internal/cpu": true,
	"internal/poll": true, "internal/godebug": true, "crypto/rand": true, "math/rand": true, "math/rand/v2": true,
	"net/http": true, "crypto/tls": true, "crypto/x509": true, "encoding/json": true, "fmt": true,
	"unicode": true, "regexp": true, "regexp/syntax": true, "text/template": true, "html/template": true,
	"go.uber.org/zap": true, "go.uber.org/zap/zapcore": true, "github.com/prometheus/client_golang/prometheus": true,
	"encoding/gob": true, "mime": true, "net/textproto": true, "path/filepath": true, "io/fs": true,
	"internal/syscall/unix": true, "internal/testlog": true, "internal/oserror": true,
	"golang.org/x/sys/unix": true, "golang.org/x/sys/cpu": true, "internal/runtime/sys": true,
	"hash/crc32": true, "vendor/golang.org/x/sys/cpu": true, "compress/flate": true,
}

func initDenied(path string) bool {
	if initDeny[path] {
		return true
	}
	for _, pre := range []string{"runtime/", "internal/runtime", "internal/abi", "crypto/internal/", "vendor/", "net/",
		"github.com/prometheus/", "google.golang.org/", "github.com/gorilla/", "golang.org/x/crypto/", "golang.org/x/net/",
		"golang.org/x/text/", "golang.org/x/term", "github.com/klauspost/", "go.etcd.io/", "github.com/syndtr/",
		"crypto/", "encoding/asn1", "github.com/consensys/", "github.com/bits-and-blooms/", "github.com/twmb/",
		"github.com/urfave/", "github.com/chzyer/", "go.uber.org/", "golang.org/x/tools/", "github.com/stretchr/",
		"github.com/davecgh/", "github.com/pmezard/", "gopkg.in/", "github.com/google/", "github.com/mr-tron/",
		"github.com/hashicorp/", "github.com/nspcc-dev/neofs", "github.com/nspcc-dev/hrw", "github.com/nspcc-dev/tzhash",
		"github.com/mmcloughlin/", "github.com/cespare/", "github.com/beorn7/", "github.com/munnerz/", "github.com/pierrec/",
		"golang.org/x/", "internal/"} {
		if strings.HasPrefix(path, pre) {
			return true
		}
	}
	return false
}

// runInits executes package initialisers concretely in dependency order.
func (e *Engine) runInits(roots []*ssa.Package, cfg Config) {
	base := newHeap(nil)
	hr := newHarnessRun(e, "<init>", nil, cfg)
	hr.Cfg.MaxSteps = 200_000_000
	hr.Cfg.Unwind = 1 << 30
	w := &Worker{e: e, hr: hr, fnSteps: map[*ssa.Function]int64{}}
	seen := map[*ssa.Package]bool{}
	var order []*ssa.Package
	var visit func(p *ssa.Package)
	visit = func(p *ssa.Package) {
		if p == nil || seen[p] {
			return
		}
		seen[p] = true
		for _, imp := range p.Pkg.Imports() {
			visit(e.prog.Package(imp))
		}
		order = append(order, p)
	}
	for _, r := range roots {
		visit(r)
	}
	st := newState(base)
	st.heap = base // write directly into the base layer
	e.poisonPkgs = map[string]bool{}
	t0 := time.Now()
	for _, p := range order {
		path := p.Pkg.Path()
		if initDenied(path) {
			e.poisonPkgs[path] = true
			continue
		}
		initFn := p.Func("init")
		if initFn == nil || initFn.Blocks == nil {
			continue
		}
		g := &G{id: 0, status: gRunnable}
		fr := w.newFrameInit(initFn)
		g.frames = []*Frame{fr}
		st.gs = []*G{g}
		st.cur = 0
		st.steps = 0
		w.st = st
		w.runInitLoop(p)
	}
	if e.verbose > 0 {
		fmt.Fprintf(os.Stderr, "package init: %d packages, %v\n", len(order), time.Since(t0))
	}
	e.baseHeap = base
}

func (w *Worker) newFrameInit(fn *ssa.Function) *Frame {
	fi := w.e.info(fn)
	fr := &Frame{fn: fn, info: fi, block: fn.Blocks[0], locals: make([]Value, fi.n), kind: kindRoot, noResult: true}
	return fr
}

func (w *Worker) runInitLoop(p *ssa.Package) {
	for tries := 0; tries < 200; tries++ {
		res := w.runState(w.st)
		if res.Status == "OK" {
			return
		}
		// failure inside init: poison the result of the top-level call in the init frame and continue
		g := w.st.gs[0]
		if len(g.frames) == 0 {
			if w.e.verbose > 0 {
				fmt.Fprintf(os.Stderr, "init %s: aborted: %s %s\n", p.Pkg.Path(), res.Status, firstLine(res.Msg))
			}
			return
		}
		if w.e.verbose > 0 {
			fmt.Fprintf(os.Stderr, "init %s: poison: %s %s\n", p.Pkg.Path(), res.Status, firstLine(res.Msg))
		}
		// find the outermost frame belonging to an initializer: frames[0]
		g.frames = g.frames[:1]
		fr := g.frames[0]
		fr.panicking, fr.recovered = false, false
		in := fr.block.Instrs[fr.pc]
		if v, ok := in.(ssa.Value); ok {
			w.set(fr, v, PoisonV{Why: p.Pkg.Path() + ": " + firstLine(res.Msg)})
		}
		fr.pc++
		g.status = gRunnable
	}
}

func firstLine(s string) string {
	if i := strings.IndexByte(s, '\n'); i >= 0 {
		return s[:i]
	}
	return s
}

// ---------- harness exploration

func (e *Engine) explore(name string, fn *ssa.Function, cfg Config) *HarnessRun {
	hr := newHarnessRun(e, name, fn, cfg)
	hashInjective = cfg.HashInj
	st := newState(e.baseHeap)
	g := &G{id: 0, status: gRunnable}
	w0 := &Worker{e: e, hr: hr, fnSteps: map[*ssa.Function]int64{}}
	w0.st = st
	fr := w0.newFrame(fn, nil, nil)
	fr.kind = kindRoot
	fr.noResult = true
	g.frames = []*Frame{fr}
	st.gs = []*G{g}
	hr.push(st)
	var wg sync.WaitGroup
	nw := cfg.Workers
	if nw < 1 {
		nw = 1
	}
	deadline := time.Now().Add(cfg.Wall)
	setSolverDeadline(deadline.Add(30 * time.Second))
	bvIntsOff.Store(cfg.BVIntsOff)
	stopTick := make(chan struct{})
	if e.verbose > 0 {
		go func() {
			tk := time.NewTicker(5 * time.Second)
			defer tk.Stop()
			for {
				select {
				case <-stopTick:
					return
				case <-tk.C:
					hr.mu.Lock()
					fmt.Fprintf(os.Stderr, "  [%s] paths=%d queue=%d active=%d steps=%d solver: q=%d sat=%d unsat=%d unk=%d fresh=%d %.1fs\n", name, hr.nPaths, len(hr.work), hr.active, hr.Steps,
						atomic.LoadInt64(&gStats.Queries), atomic.LoadInt64(&gStats.Sat), atomic.LoadInt64(&gStats.Unsat), atomic.LoadInt64(&gStats.Unknown), atomic.LoadInt64(&gStats.Fresh), float64(atomic.LoadInt64(&gStats.Nanos))/1e9)
					hr.mu.Unlock()
				}
			}
		}()
	}
	defer close(stopTick)
	for i := 0; i < nw; i++ {
		wg.Add(1)
		go func() {
			defer wg.Done()
			w := &Worker{e: e, hr: hr, fnSteps: map[*ssa.Function]int64{}}
			w.sol = NewSolver(cfg.SolverBin, cfg.Timeout)
			defer w.sol.Close()
			for {
				st := hr.pop()
				if st == nil {
					break
				}
				res := w.runState(st)
				w.finishPath(st, res)
				hr.done1()
				if time.Now().After(deadline) {
					hr.mu.Lock()
					hr.aborted = true
					hr.Paths["ABORTED-DEADLINE"]++
					hr.cond.Broadcast()
					hr.mu.Unlock()
				}
			}
			hr.mu.Lock()
			for f, n := range w.fnSteps {
				hr.FnSteps[f] += n
			}
			hr.mu.Unlock()
		}()
	}
	wg.Wait()
	return hr
}

func (w *Worker) finishPath(st *State, res PathResult) {
	hr := w.hr
	hr.mu.Lock()
	hr.Paths[res.Status]++
	hr.nPaths++
	hr.Steps += res.Steps
	over := hr.nPaths > hr.Cfg.MaxPaths
	if over && !hr.aborted {
		hr.aborted = true
		hr.Paths["ABORTED-MAXPATHS"]++
		hr.cond.Broadcast()
	}
	if st.approx {
		hr.Paths["(approx-branch)"]++
	}
	hr.mu.Unlock()
	switch res.Status {
	case "OK", "ASSUME-FALSE", "ASSERT-FALSE", "INFEASIBLE":
	case "CUT":
		hr.mu.Lock()
		hr.Cuts[res.Msg]++
		hr.mu.Unlock()
	case "PANIC":
		if hr.Cfg.AcceptPanic {
			return
		}
		r, m := w.sol.CheckModel(st.pc, nil, w.inputVars())
		if r == "sat" {
			hr.addViolation(&Violation{Site: "panic", Kind: "panic", Inputs: w.modelInputs(m), Msg: res.Msg, Trace: st.trace})
		} else {
			hr.mu.Lock()
			hr.Unknowns = append(hr.Unknowns, "panic path without model: "+firstLine(res.Msg))
			hr.mu.Unlock()
		}
	case "FROZEN-WRITE", "DEADLOCK":
		r, m := w.sol.CheckModel(st.pc, nil, w.inputVars())
		if r == "sat" {
			hr.addViolation(&Violation{Site: strings.ToLower(res.Status), Kind: strings.ToLower(res.Status), Inputs: w.modelInputs(m), Msg: firstLine(res.Msg), Trace: st.trace})
		}
	case "UNWIND":
		r, m := w.sol.CheckModel(st.pc, nil, w.inputVars())
		hr.mu.Lock()
		hr.Unsupported["UNWIND: "+firstLine(res.Msg)]++
		hr.mu.Unlock()
		if r == "sat" {
			hr.addViolation(&Violation{Site: "unwind", Kind: "hang", Inputs: w.modelInputs(m), Msg: firstLine(res.Msg)})
		}
	default: // UNSUPPORTED, BUDGET, ENGINE-ERROR
		hr.mu.Lock()
		hr.Unsupported[res.Status+": "+firstLine(res.Msg)]++
		hr.mu.Unlock()
		if w.e.verbose > 0 {
			fmt.Fprintf(os.Stderr, "[%s] path ended %s: %s\n%s", hr.Name, res.Status, res.Msg, w.where())
		}
	}
}

func sortedStrKeys[V any](m map[string]V) []string {
	var ks []string
	for k := range m {
		ks = append(ks, k)
	}
	sort.Strings(ks)
	return ks
}
