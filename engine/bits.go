package main

import (
	"fmt"

	"golang.org/x/tools/go/ssa"
)

// math/bits intrinsics: same functions as the Go bodies, expressed with wider
// bit-vector operations so that the simplifier can fold carries of narrow operands.
func registerBitsIntrinsics(in map[string]Intrinsic) {
	for _, w := range []int{32, 64} {
		w := w
		sfx := fmt.Sprint(w)
		in["math/bits.Add"+sfx] = func(wk *Worker, g *G, fr *Frame, fn *ssa.Function, a []Value) (Value, ctl) {
			x, y, c := a[0].(*Term), a[1].(*Term), a[2].(*Term)
			wide := BvBin(OBvAdd, BvBin(OBvAdd, ZExt(x, w+2), ZExt(y, w+2)), ZExt(Extract(c, 0, 0), w+2))
			return TupleV{Extract(wide, w-1, 0), ZExt(Extract(wide, w, w), w)}, ctlNext
		}
		in["math/bits.Sub"+sfx] = func(wk *Worker, g *G, fr *Frame, fn *ssa.Function, a []Value) (Value, ctl) {
			x, y, b := a[0].(*Term), a[1].(*Term), a[2].(*Term)
			b1 := Extract(b, 0, 0)
			diff := BvBin(OBvSub, BvBin(OBvSub, x, y), ZExt(b1, w))
			rhs := BvBin(OBvAdd, ZExt(y, w+2), ZExt(b1, w+2))
			borrow := BvCmp(OBvULt, ZExt(x, w+2), rhs)
			return TupleV{diff, Ite(borrow, BVu(1, w), BVu(0, w))}, ctlNext
		}
		in["math/bits.Mul"+sfx] = func(wk *Worker, g *G, fr *Frame, fn *ssa.Function, a []Value) (Value, ctl) {
			x, y := a[0].(*Term), a[1].(*Term)
			if x.Sig+y.Sig <= w {
				return TupleV{BVu(0, w), BvBin(OBvMul, x, y)}, ctlNext
			}
			wide := BvBin(OBvMul, ZExt(x, 2*w), ZExt(y, 2*w))
			return TupleV{Extract(wide, 2*w-1, w), Extract(wide, w-1, 0)}, ctlNext
		}
	}
	lenTerm := func(x *Term) *Term {
		w := x.S.W
		res := BVu(0, 64)
		// Len = position of the highest set bit + 1
		for k := 0; k < w && k < x.Sig; k++ {
			res = Ite(Eq(Extract(x, k, k), BVu(1, 1)), BVu(uint64(k+1), 64), res)
		}
		return res
	}
	tzTerm := func(x *Term) *Term {
		w := x.S.W
		res := BVu(uint64(w), 64)
		for k := w - 1; k >= 0; k-- {
			res = Ite(Eq(Extract(x, k, k), BVu(1, 1)), BVu(uint64(k), 64), res)
		}
		return res
	}
	for _, nm := range []string{"", "8", "16", "32", "64"} {
		nm := nm
		in["math/bits.Len"+nm] = func(wk *Worker, g *G, fr *Frame, fn *ssa.Function, a []Value) (Value, ctl) {
			return lenTerm(a[0].(*Term)), ctlNext
		}
		in["math/bits.LeadingZeros"+nm] = func(wk *Worker, g *G, fr *Frame, fn *ssa.Function, a []Value) (Value, ctl) {
			x := a[0].(*Term)
			return BvBin(OBvSub, BVu(uint64(x.S.W), 64), lenTerm(x)), ctlNext
		}
		in["math/bits.TrailingZeros"+nm] = func(wk *Worker, g *G, fr *Frame, fn *ssa.Function, a []Value) (Value, ctl) {
			return tzTerm(a[0].(*Term)), ctlNext
		}
		in["math/bits.OnesCount"+nm] = func(wk *Worker, g *G, fr *Frame, fn *ssa.Function, a []Value) (Value, ctl) {
			x := a[0].(*Term)
			res := BVu(0, 64)
			for k := 0; k < x.S.W && k < x.Sig; k++ {
				res = BvBin(OBvAdd, res, ZExt(Extract(x, k, k), 64))
			}
			return res, ctlNext
		}
	}
}
