package main

// Theory-mode math/big.Int: every *big.Int points to an object whose content is a
// BigV carrying an SMT Int term. Semantics follow the math/big documentation.

import (
	"go/types"
	"math/big"

	"golang.org/x/tools/go/ssa"
)

func (w *Worker) bigOf(g *G, v Value) *Term {
	p, ok := v.(PtrV)
	if !ok {
		unsupported("big.Int receiver is %s", showValue(v))
	}
	if p.O == nil {
		w.raise(g, w.rtError("nil *big.Int dereference"))
		return nil
	}
	c := getPath(w.st.load(p.O), p.Path)
	b, ok := c.(*BigV)
	if !ok {
		unsupported("big.Int object in word representation while in theory mode: %s", showValue(c))
	}
	return b.T
}

func (w *Worker) bigSet(g *G, v Value, t *Term) {
	p := v.(PtrV)
	if p.O == nil {
		w.raise(g, w.rtError("nil *big.Int dereference"))
		return
	}
	w.storePtr(g, p, &BigV{t})
}

func (w *Worker) newBig(t *Term) Value {
	bt := w.pkgType("math/big", "Int")
	o := w.st.alloc(bt, "big", &BigV{t})
	return PtrV{O: o}
}

// truncated division helpers on SMT ints (SMT div/mod are Euclidean)
func intQuoTrunc(x, y *Term) *Term {
	if r := bvBackedQuoRem(false, x, y); r != nil {
		return r
	}
	// Go Quo: truncated toward zero
	q := IntBin(OIDiv, x, y) // euclidean: x = y*q + r, 0<=r<|y|
	r := IntBin(OIMod, x, y)
	// if x<0 and r!=0: truncated quotient = q + (y>0 ? 1 : -1)
	adj := Ite(ILt(IntI(0), y), IntI(1), IntI(-1))
	return Ite(And(ILt(x, IntI(0)), Not(Eq(r, IntI(0)))), IntBin(OIAdd, q, adj), q)
}

func intRemTrunc(x, y *Term) *Term {
	if r := bvBackedQuoRem(true, x, y); r != nil {
		return r
	}
	r := IntBin(OIMod, x, y)
	// truncated remainder has sign of x
	return Ite(And(ILt(x, IntI(0)), Not(Eq(r, IntI(0)))), IntBin(OISub, r, IAbs(y)), r)
}

const bigBits = 520

// bitLenTerm encodes BitLen(|x|) as an ite chain.
func bitLenTerm(x *Term) *Term {
	if x.IsConst() {
		return BVi(int64(new(big.Int).Abs(x.C).BitLen()), 64)
	}
	a := IAbs(x)
	res := BVi(bigBits, 64)
	for k := bigBits - 1; k >= 0; k-- {
		res = Ite(ILt(a, IntConst(pow2(k))), BVi(int64(k), 64), res)
	}
	return res
}

func registerBigIntrinsics(in map[string]Intrinsic) {
	bi := "(*math/big.Int)."
	binary := func(f func(x, y *Term) *Term) Intrinsic {
		return func(w *Worker, g *G, fr *Frame, fn *ssa.Function, a []Value) (Value, ctl) {
			if !w.e.theoryBig {
				return w.fallThrough(g, fr, fn, a)
			}
			x := w.bigOf(g, a[1])
			if x == nil {
				return nil, ctlStay
			}
			y := w.bigOf(g, a[2])
			if y == nil {
				return nil, ctlStay
			}
			w.bigSet(g, a[0], f(x, y))
			return a[0], ctlNext
		}
	}
	unary := func(f func(x *Term) *Term) Intrinsic {
		return func(w *Worker, g *G, fr *Frame, fn *ssa.Function, a []Value) (Value, ctl) {
			if !w.e.theoryBig {
				return w.fallThrough(g, fr, fn, a)
			}
			x := w.bigOf(g, a[1])
			if x == nil {
				return nil, ctlStay
			}
			w.bigSet(g, a[0], f(x))
			return a[0], ctlNext
		}
	}
	in[bi+"Add"] = binary(func(x, y *Term) *Term { return IntBin(OIAdd, x, y) })
	in[bi+"Sub"] = binary(func(x, y *Term) *Term { return IntBin(OISub, x, y) })
	in[bi+"Mul"] = binary(func(x, y *Term) *Term { return IntBin(OIMul, x, y) })
	in[bi+"Neg"] = unary(INeg)
	in[bi+"Abs"] = unary(IAbs)
	in[bi+"Set"] = unary(func(x *Term) *Term { return x })
	in[bi+"Not"] = unary(func(x *Term) *Term { return IntBin(OISub, INeg(x), IntI(1)) })
	divlike := func(f func(x, y *Term) *Term) Intrinsic {
		return func(w *Worker, g *G, fr *Frame, fn *ssa.Function, a []Value) (Value, ctl) {
			if !w.e.theoryBig {
				return w.fallThrough(g, fr, fn, a)
			}
			x := w.bigOf(g, a[1])
			if x == nil {
				return nil, ctlStay
			}
			y := w.bigOf(g, a[2])
			if y == nil {
				return nil, ctlStay
			}
			if !w.decide(Not(Eq(y, IntI(0))), "big div by zero") {
				w.raise(g, w.rtError("division by zero"))
				return nil, ctlStay
			}
			w.bigSet(g, a[0], f(x, y))
			return a[0], ctlNext
		}
	}
	in[bi+"Quo"] = divlike(intQuoTrunc)
	in[bi+"Rem"] = divlike(intRemTrunc)
	in[bi+"Div"] = divlike(func(x, y *Term) *Term { return IntBin(OIDiv, x, y) })
	in[bi+"Mod"] = divlike(func(x, y *Term) *Term { return IntBin(OIMod, x, y) })
	in[bi+"Cmp"] = func(w *Worker, g *G, fr *Frame, fn *ssa.Function, a []Value) (Value, ctl) {
		if !w.e.theoryBig {
			return w.fallThrough(g, fr, fn, a)
		}
		x := w.bigOf(g, a[0])
		if x == nil {
			return nil, ctlStay
		}
		y := w.bigOf(g, a[1])
		if y == nil {
			return nil, ctlStay
		}
		return Ite(ILt(x, y), BVi(-1, 64), Ite(Eq(x, y), BVi(0, 64), BVi(1, 64))), ctlNext
	}
	in[bi+"CmpAbs"] = func(w *Worker, g *G, fr *Frame, fn *ssa.Function, a []Value) (Value, ctl) {
		if !w.e.theoryBig {
			return w.fallThrough(g, fr, fn, a)
		}
		x := w.bigOf(g, a[0])
		if x == nil {
			return nil, ctlStay
		}
		y := w.bigOf(g, a[1])
		if y == nil {
			return nil, ctlStay
		}
		x, y = IAbs(x), IAbs(y)
		return Ite(ILt(x, y), BVi(-1, 64), Ite(Eq(x, y), BVi(0, 64), BVi(1, 64))), ctlNext
	}
	in[bi+"Sign"] = func(w *Worker, g *G, fr *Frame, fn *ssa.Function, a []Value) (Value, ctl) {
		if !w.e.theoryBig {
			return w.fallThrough(g, fr, fn, a)
		}
		x := w.bigOf(g, a[0])
		if x == nil {
			return nil, ctlStay
		}
		return Ite(ILt(x, IntI(0)), BVi(-1, 64), Ite(Eq(x, IntI(0)), BVi(0, 64), BVi(1, 64))), ctlNext
	}
	in[bi+"BitLen"] = func(w *Worker, g *G, fr *Frame, fn *ssa.Function, a []Value) (Value, ctl) {
		if !w.e.theoryBig {
			return w.fallThrough(g, fr, fn, a)
		}
		x := w.bigOf(g, a[0])
		if x == nil {
			return nil, ctlStay
		}
		return IBitLen(x), ctlNext
	}
	in[bi+"TrailingZeroBits"] = func(w *Worker, g *G, fr *Frame, fn *ssa.Function, a []Value) (Value, ctl) {
		if !w.e.theoryBig {
			return w.fallThrough(g, fr, fn, a)
		}
		x := w.bigOf(g, a[0])
		if x == nil {
			return nil, ctlStay
		}
		return ITz(x), ctlNext
	}
	in[bi+"IsInt64"] = func(w *Worker, g *G, fr *Frame, fn *ssa.Function, a []Value) (Value, ctl) {
		if !w.e.theoryBig {
			return w.fallThrough(g, fr, fn, a)
		}
		x := w.bigOf(g, a[0])
		if x == nil {
			return nil, ctlStay
		}
		return And(ILe(IntConst(new(big.Int).Neg(pow2(63))), x), ILt(x, IntConst(pow2(63)))), ctlNext
	}
	in[bi+"IsUint64"] = func(w *Worker, g *G, fr *Frame, fn *ssa.Function, a []Value) (Value, ctl) {
		if !w.e.theoryBig {
			return w.fallThrough(g, fr, fn, a)
		}
		x := w.bigOf(g, a[0])
		if x == nil {
			return nil, ctlStay
		}
		return And(ILe(IntI(0), x), ILt(x, IntConst(pow2(64)))), ctlNext
	}
	in[bi+"Int64"] = func(w *Worker, g *G, fr *Frame, fn *ssa.Function, a []Value) (Value, ctl) {
		if !w.e.theoryBig {
			return w.fallThrough(g, fr, fn, a)
		}
		x := w.bigOf(g, a[0])
		if x == nil {
			return nil, ctlStay
		}
		// low 64 bits of |x| with sign applied (documented: undefined if not IsInt64; actual behaviour)
		return Int2BV(x, 64), ctlNext
	}
	in[bi+"Uint64"] = in[bi+"Int64"]
	in[bi+"SetInt64"] = func(w *Worker, g *G, fr *Frame, fn *ssa.Function, a []Value) (Value, ctl) {
		if !w.e.theoryBig {
			return w.fallThrough(g, fr, fn, a)
		}
		w.bigSet(g, a[0], BV2IntSigned(a[1].(*Term)))
		return a[0], ctlNext
	}
	in[bi+"SetUint64"] = func(w *Worker, g *G, fr *Frame, fn *ssa.Function, a []Value) (Value, ctl) {
		if !w.e.theoryBig {
			return w.fallThrough(g, fr, fn, a)
		}
		w.bigSet(g, a[0], BV2Nat(a[1].(*Term)))
		return a[0], ctlNext
	}
	in["math/big.NewInt"] = func(w *Worker, g *G, fr *Frame, fn *ssa.Function, a []Value) (Value, ctl) {
		if !w.e.theoryBig {
			return w.fallThrough(g, fr, fn, a)
		}
		return w.newBig(BV2IntSigned(a[0].(*Term))), ctlNext
	}
	shift := func(left bool) Intrinsic {
		return func(w *Worker, g *G, fr *Frame, fn *ssa.Function, a []Value) (Value, ctl) {
			if !w.e.theoryBig {
				return w.fallThrough(g, fr, fn, a)
			}
			x := w.bigOf(g, a[1])
			if x == nil {
				return nil, ctlStay
			}
			n := a[2].(*Term)
			k := w.concretize(n, false, 0, 512, "big shift count")
			p := IntConst(pow2(int(k)))
			if left {
				w.bigSet(g, a[0], IntBin(OIMul, x, p))
			} else {
				// Rsh rounds toward -inf = floor division = Euclidean div for positive divisor
				w.bigSet(g, a[0], IntBin(OIDiv, x, p))
			}
			return a[0], ctlNext
		}
	}
	in[bi+"Lsh"] = shift(true)
	in[bi+"Rsh"] = shift(false)
	bitop := func(op Op) Intrinsic {
		return func(w *Worker, g *G, fr *Frame, fn *ssa.Function, a []Value) (Value, ctl) {
			if !w.e.theoryBig {
				return w.fallThrough(g, fr, fn, a)
			}
			x := w.bigOf(g, a[1])
			if x == nil {
				return nil, ctlStay
			}
			y := w.bigOf(g, a[2])
			if y == nil {
				return nil, ctlStay
			}
			// both operands are values of bit-vectors: the operation is the bit-vector one on the
			// sign-extended operands (two's complement semantics of math/big's And/Or/Xor)
			if xa, oka := asSignedBV(x); oka && !(x.IsConst() && y.IsConst()) {
				if xb, okb := asSignedBV(y); okb {
					wd := xa.S.W
					if xb.S.W > wd {
						wd = xb.S.W
					}
					w.bigSet(g, a[0], BV2IntSigned(BvBin(op, SExt(xa, wd), SExt(xb, wd))))
					return a[0], ctlNext
				}
			}
			// exact arithmetic forms for constant masks (two's complement identities)
			if r, ok := bitopConst(op, x, y); ok {
				w.bigSet(g, a[0], r)
				return a[0], ctlNext
			}
			if r, ok := bitopConst(op, y, x); ok {
				w.bigSet(g, a[0], r)
				return a[0], ctlNext
			}
			const W = 264
			lim := IntConst(pow2(W - 1))
			inRange := And(ILe(INeg(lim), x), ILt(x, lim), ILe(INeg(lim), y), ILt(y, lim))
			if !w.decide(inRange, "bigint bitop range") {
				panic(pathEnd{"CUT", "big.Int bit operation outside 264-bit bridge"})
			}
			r := BvBin(op, Int2BV(x, W), Int2BV(y, W))
			w.bigSet(g, a[0], BV2IntSigned(r))
			return a[0], ctlNext
		}
	}
	in[bi+"And"] = bitop(OBvAnd)
	in[bi+"Or"] = bitop(OBvOr)
	in[bi+"Xor"] = bitop(OBvXor)
	in[bi+"Bit"] = func(w *Worker, g *G, fr *Frame, fn *ssa.Function, a []Value) (Value, ctl) {
		if !w.e.theoryBig {
			return w.fallThrough(g, fr, fn, a)
		}
		x := w.bigOf(g, a[0])
		if x == nil {
			return nil, ctlStay
		}
		i := constInt(a[1])
		// two's complement bit i: floor(x / 2^i) mod 2
		b := IntBin(OIMod, IntBin(OIDiv, x, IntConst(pow2(i))), IntI(2))
		return Ite(Eq(b, IntI(1)), BVu(1, 64), BVu(0, 64)), ctlNext
	}
	in[bi+"Exp"] = func(w *Worker, g *G, fr *Frame, fn *ssa.Function, a []Value) (Value, ctl) {
		if !w.e.theoryBig {
			return w.fallThrough(g, fr, fn, a)
		}
		x := w.bigOf(g, a[1])
		if x == nil {
			return nil, ctlStay
		}
		y := w.bigOf(g, a[2])
		if y == nil {
			return nil, ctlStay
		}
		var m *Term
		if mp, ok := a[3].(PtrV); ok && mp.O != nil {
			m = w.bigOf(g, a[3])
		}
		// exponent must be concretisable
		var e int64
		if y.IsConst() {
			if !y.C.IsInt64() {
				unsupported("big.Exp with huge exponent")
			}
			e = y.C.Int64()
		} else {
			conds := []*Term{ILt(y, IntI(0))}
			for k := 0; k <= 8; k++ {
				conds = append(conds, Eq(y, IntI(int64(k))))
			}
			conds = append(conds, ILt(IntI(8), y))
			i := w.decideN(conds, "big.Exp exponent")
			if i == 0 {
				e = -1
			} else if i == len(conds)-1 {
				panic(pathEnd{"CUT", "big.Exp with symbolic exponent > 8"})
			} else {
				e = int64(i - 1)
			}
		}
		mIsZero := m == nil
		if m != nil {
			if w.decide(Eq(m, IntI(0)), "big.Exp modulus zero") {
				mIsZero = true
			}
		}
		if e < 0 {
			if mIsZero {
				w.bigSet(g, a[0], IntI(1))
				return a[0], ctlNext
			}
			unsupported("big.Exp with negative exponent and modulus (modular inverse)")
		}
		r := IntI(1)
		for i := int64(0); i < e; i++ {
			r = IntBin(OIMul, r, x)
		}
		if !mIsZero {
			// result in [0,|m|): Euclidean modulus
			r = IntBin(OIMod, r, IAbs(m))
		}
		w.bigSet(g, a[0], r)
		return a[0], ctlNext
	}
	in[bi+"Sqrt"] = func(w *Worker, g *G, fr *Frame, fn *ssa.Function, a []Value) (Value, ctl) {
		if !w.e.theoryBig {
			return w.fallThrough(g, fr, fn, a)
		}
		x := w.bigOf(g, a[1])
		if x == nil {
			return nil, ctlStay
		}
		if !w.decide(ILe(IntI(0), x), "sqrt sign") {
			w.raise(g, w.rtError("square root of negative number"))
			return nil, ctlStay
		}
		if x.IsConst() {
			w.bigSet(g, a[0], IntConst(new(big.Int).Sqrt(x.C)))
			return a[0], ctlNext
		}
		r := Var(w.freshName("sqrt!"), SInt)
		w.st.auxVars = append(w.st.auxVars, r)
		w.st.addPC(ILe(IntI(0), r))
		w.st.addPC(ILe(IntBin(OIMul, r, r), x))
		r1 := IntBin(OIAdd, r, IntI(1))
		w.st.addPC(ILt(x, IntBin(OIMul, r1, r1)))
		w.bigSet(g, a[0], r)
		return a[0], ctlNext
	}
	in[bi+"ModInverse"] = func(w *Worker, g *G, fr *Frame, fn *ssa.Function, a []Value) (Value, ctl) {
		if !w.e.theoryBig {
			return w.fallThrough(g, fr, fn, a)
		}
		x := w.bigOf(g, a[1])
		if x == nil {
			return nil, ctlStay
		}
		n := w.bigOf(g, a[2])
		if n == nil {
			return nil, ctlStay
		}
		if x.IsConst() && n.IsConst() {
			if n.C.Sign() == 0 {
				w.raise(g, w.rtError("division by zero"))
				return nil, ctlStay
			}
			r := new(big.Int).ModInverse(x.C, n.C)
			if r == nil {
				return PtrV{}, ctlNext
			}
			w.bigSet(g, a[0], IntConst(r))
			return a[0], ctlNext
		}
		unsupported("big.ModInverse on symbolic operands")
		return nil, ctlStay
	}
	in[bi+"String"] = func(w *Worker, g *G, fr *Frame, fn *ssa.Function, a []Value) (Value, ctl) {
		if !w.e.theoryBig {
			return w.fallThrough(g, fr, fn, a)
		}
		x := w.bigOf(g, a[0])
		if x == nil {
			return nil, ctlStay
		}
		if x.IsConst() {
			return mkString(x.C.String()), ctlNext
		}
		return mkString("<symbig>"), ctlNext
	}
	in[bi+"SetString"] = func(w *Worker, g *G, fr *Frame, fn *ssa.Function, a []Value) (Value, ctl) {
		if !w.e.theoryBig {
			return w.fallThrough(g, fr, fn, a)
		}
		s := a[1].(StringV)
		if !s.Concrete() {
			unsupported("big.SetString symbolic")
		}
		v, ok := new(big.Int).SetString(s.Go(), constInt(a[2]))
		if !ok {
			return TupleV{PtrV{}, TFalse}, ctlNext
		}
		w.bigSet(g, a[0], IntConst(v))
		return TupleV{a[0], TTrue}, ctlNext
	}
	in[bi+"SetBytes"] = func(w *Worker, g *G, fr *Frame, fn *ssa.Function, a []Value) (Value, ctl) {
		if !w.e.theoryBig {
			return w.fallThrough(g, fr, fn, a)
		}
		bs := w.sliceBytes(a[1].(SliceV))
		r := IntI(0)
		for _, b := range bs {
			r = IntBin(OIAdd, IntBin(OIMul, r, IntI(256)), BV2Nat(b))
		}
		w.bigSet(g, a[0], r)
		return a[0], ctlNext
	}
	in[bi+"FillBytes"] = func(w *Worker, g *G, fr *Frame, fn *ssa.Function, a []Value) (Value, ctl) {
		if !w.e.theoryBig {
			return w.fallThrough(g, fr, fn, a)
		}
		x := w.bigOf(g, a[0])
		if x == nil {
			return nil, ctlStay
		}
		buf := a[1].(SliceV)
		n := buf.Len
		ax := IAbs(x)
		fits := ILt(ax, IntConst(pow2(8*n)))
		if !w.decide(fits, "FillBytes-fits") {
			w.raise(g, w.rtError("math/big: buffer too small to fit value"))
			return nil, ctlStay
		}
		vals := make([]Value, n)
		if n > 0 {
			bv := Int2BV(ax, 8*n)
			for i := 0; i < n; i++ {
				vals[i] = Extract(bv, 8*(n-i)-1, 8*(n-i-1))
			}
			w.writeSlice(buf, 0, vals)
		}
		return buf, ctlNext
	}
	_ = types.Typ
}

// fallThrough executes the real body of fn (word mode).
func (w *Worker) fallThrough(g *G, fr *Frame, fn *ssa.Function, args []Value) (Value, ctl) {
	nf := w.newFrame(fn, args, nil)
	nf.kind = kindCall
	g.frames = append(g.frames, nf)
	w.enterBlock(nf)
	return nil, ctlStay
}

// bitopConst handles x op c for constant c with an exact integer formula.
func bitopConst(op Op, x, c *Term) (*Term, bool) {
	if !c.IsConst() {
		return nil, false
	}
	minus1 := big.NewInt(-1)
	switch op {
	case OBvAnd:
		if c.C.Sign() == 0 {
			return IntI(0), true
		}
		if c.C.Cmp(minus1) == 0 {
			return x, true
		}
		// mask 2^k-1: x mod 2^k (Euclidean) is the low k bits in two's complement
		if c.C.Sign() > 0 {
			k := c.C.BitLen()
			if new(big.Int).Add(c.C, bigOne).Cmp(pow2(k)) == 0 {
				return IntBin(OIMod, x, IntConst(pow2(k))), true
			}
		}
	case OBvOr:
		if c.C.Sign() == 0 {
			return x, true
		}
		if c.C.Cmp(minus1) == 0 {
			return IntI(-1), true
		}
	case OBvXor:
		if c.C.Sign() == 0 {
			return x, true
		}
		if c.C.Cmp(minus1) == 0 {
			return IntBin(OISub, INeg(x), IntI(1)), true
		}
	}
	return nil, false
}

// Theory-mode contracts of neo-go's bigint codec (little-endian two's complement, minimal
// length). The contract itself is what the C18 word-mode harness verifies against the real code.
func registerBigintCodecIntrinsics(in map[string]Intrinsic) {
	pkg := "github.com/nspcc-dev/neo-go/pkg/encoding/bigint."
	in[pkg+"FromBytes"] = func(w *Worker, g *G, fr *Frame, fn *ssa.Function, a []Value) (Value, ctl) {
		if !w.e.theoryBig {
			return w.fallThrough(g, fr, fn, a)
		}
		s := a[0].(SliceV)
		if s.O == nil {
			w.raise(g, IfaceV{T: types.Typ[types.String], V: mkString("nil slice provided to `FromBytes`")})
			return nil, ctlStay
		}
		bs := w.sliceBytes(s)
		if len(bs) == 0 {
			return w.newBig(IntI(0)), ctlNext
		}
		t := bs[len(bs)-1]
		for i := len(bs) - 2; i >= 0; i-- {
			t = Concat(t, bs[i])
		}
		return w.newBig(BV2IntSigned(t)), ctlNext
	}
	toBytes := func(w *Worker, g *G, n *Term, data SliceV, haveData bool) (Value, bool) {
		// n == 0 -> empty slice
		conds := []*Term{Eq(n, IntI(0))}
		const maxK = 66
		for k := 1; k <= maxK; k++ {
			lim := IntConst(pow2(8*k - 1))
			in := And(ILe(INeg(lim), n), ILt(n, lim))
			if k > 1 {
				pl := IntConst(pow2(8*(k-1) - 1))
				in = And(in, Not(And(ILe(INeg(pl), n), ILt(n, pl))))
			} else {
				in = And(in, Not(Eq(n, IntI(0))))
			}
			conds = append(conds, in)
		}
		lim := IntConst(pow2(8*maxK - 1))
		conds = append(conds, Not(And(ILe(INeg(lim), n), ILt(n, lim))))
		k := w.decideN(conds, "bigint.ToBytes length")
		if k == len(conds)-1 {
			panic(pathEnd{"CUT", "bigint.ToBytes of a value beyond 66 bytes"})
		}
		if k == 0 {
			if haveData && data.O != nil {
				return SliceV{O: data.O, Path: data.Path, Off: data.Off, Len: 0, Cap: data.Cap}, true
			}
			return w.newSlice(types.Typ[types.Uint8], nil), true
		}
		bv := Int2BV(n, 8*k)
		out := make([]Value, k)
		for i := 0; i < k; i++ {
			out[i] = Extract(bv, 8*i+7, 8*i)
		}
		if haveData && data.O != nil && data.Cap >= k {
			res := SliceV{O: data.O, Path: data.Path, Off: data.Off, Len: k, Cap: data.Cap}
			w.writeSlice(res, 0, out)
			return res, true
		}
		return w.newSlice(types.Typ[types.Uint8], out), true
	}
	in[pkg+"ToBytes"] = func(w *Worker, g *G, fr *Frame, fn *ssa.Function, a []Value) (Value, ctl) {
		if !w.e.theoryBig {
			return w.fallThrough(g, fr, fn, a)
		}
		n := w.bigOf(g, a[0])
		if n == nil {
			return nil, ctlStay
		}
		v, _ := toBytes(w, g, n, SliceV{}, false)
		return v, ctlNext
	}
	in[pkg+"ToPreallocatedBytes"] = func(w *Worker, g *G, fr *Frame, fn *ssa.Function, a []Value) (Value, ctl) {
		if !w.e.theoryBig {
			return w.fallThrough(g, fr, fn, a)
		}
		n := w.bigOf(g, a[0])
		if n == nil {
			return nil, ctlStay
		}
		v, _ := toBytes(w, g, n, a[1].(SliceV), true)
		return v, ctlNext
	}
}
