package main

import "golang.org/x/tools/go/ssa"

// holiman/uint256.Int ([4]uint64, little-endian limbs) summarised by its documented
// semantics as 256-bit modular arithmetic. Third-party library: trusted stub.

func (w *Worker) u256Load(g *G, v Value) *Term {
	p := v.(PtrV)
	if p.O == nil {
		w.raise(g, w.rtError("nil *uint256.Int"))
		return nil
	}
	arr := w.loadPtr(g, p).(*ArrayV)
	t := arr.E[3].(*Term)
	for i := 2; i >= 0; i-- {
		t = Concat(t, arr.E[i].(*Term))
	}
	return t
}

func (w *Worker) u256Store(g *G, v Value, t *Term) {
	el := make([]Value, 4)
	for i := 0; i < 4; i++ {
		el[i] = Extract(t, 64*i+63, 64*i)
	}
	w.storePtr(g, v, &ArrayV{el})
}

func registerU256Intrinsics(in map[string]Intrinsic) {
	pre := "(*github.com/holiman/uint256.Int)."
	bin := func(op Op) Intrinsic {
		return func(w *Worker, g *G, fr *Frame, fn *ssa.Function, a []Value) (Value, ctl) {
			x := w.u256Load(g, a[1])
			if x == nil {
				return nil, ctlStay
			}
			y := w.u256Load(g, a[2])
			if y == nil {
				return nil, ctlStay
			}
			w.u256Store(g, a[0], BvBin(op, x, y))
			return a[0], ctlNext
		}
	}
	in[pre+"Add"] = bin(OBvAdd)
	in[pre+"Sub"] = bin(OBvSub)
	bin64 := func(op Op) Intrinsic {
		return func(w *Worker, g *G, fr *Frame, fn *ssa.Function, a []Value) (Value, ctl) {
			x := w.u256Load(g, a[1])
			if x == nil {
				return nil, ctlStay
			}
			w.u256Store(g, a[0], BvBin(op, x, ZExt(a[2].(*Term), 256)))
			return a[0], ctlNext
		}
	}
	in[pre+"AddUint64"] = bin64(OBvAdd)
	in[pre+"SubUint64"] = bin64(OBvSub)
	in[pre+"SetUint64"] = func(w *Worker, g *G, fr *Frame, fn *ssa.Function, a []Value) (Value, ctl) {
		w.u256Store(g, a[0], ZExt(a[1].(*Term), 256))
		return a[0], ctlNext
	}
	in[pre+"Cmp"] = func(w *Worker, g *G, fr *Frame, fn *ssa.Function, a []Value) (Value, ctl) {
		x := w.u256Load(g, a[0])
		if x == nil {
			return nil, ctlStay
		}
		y := w.u256Load(g, a[1])
		if y == nil {
			return nil, ctlStay
		}
		return Ite(BvCmp(OBvULt, x, y), BVi(-1, 64), Ite(Eq(x, y), BVi(0, 64), BVi(1, 64))), ctlNext
	}
	cmp := func(f func(x, y *Term) *Term) Intrinsic {
		return func(w *Worker, g *G, fr *Frame, fn *ssa.Function, a []Value) (Value, ctl) {
			x := w.u256Load(g, a[0])
			if x == nil {
				return nil, ctlStay
			}
			y := w.u256Load(g, a[1])
			if y == nil {
				return nil, ctlStay
			}
			return f(x, y), ctlNext
		}
	}
	in[pre+"Lt"] = cmp(func(x, y *Term) *Term { return BvCmp(OBvULt, x, y) })
	in[pre+"Gt"] = cmp(func(x, y *Term) *Term { return BvCmp(OBvULt, y, x) })
	in[pre+"Eq"] = cmp(func(x, y *Term) *Term { return Eq(x, y) })
	in[pre+"IsUint64"] = func(w *Worker, g *G, fr *Frame, fn *ssa.Function, a []Value) (Value, ctl) {
		x := w.u256Load(g, a[0])
		if x == nil {
			return nil, ctlStay
		}
		return Eq(Extract(x, 255, 64), BVu(0, 192)), ctlNext
	}
	in[pre+"Uint64"] = func(w *Worker, g *G, fr *Frame, fn *ssa.Function, a []Value) (Value, ctl) {
		x := w.u256Load(g, a[0])
		if x == nil {
			return nil, ctlStay
		}
		return Extract(x, 63, 0), ctlNext
	}
	in[pre+"IsZero"] = func(w *Worker, g *G, fr *Frame, fn *ssa.Function, a []Value) (Value, ctl) {
		x := w.u256Load(g, a[0])
		if x == nil {
			return nil, ctlStay
		}
		return Eq(x, BVu(0, 256)), ctlNext
	}
}
