package main

// Long-lived SMT solver process mirroring the current path condition.

import (
	"bufio"
	"os"
	"fmt"
	"io"
	"math/big"
	"os/exec"
	"strings"
	"sync/atomic"
	"time"
)

type SolverStats struct {
	Queries, Sat, Unsat, Unknown int64
	Nanos                        int64
	Restarts                     int64
	Fresh                        int64
	Cvc5                         int64
}

var gStats SolverStats

// solverDeadline: once the harness' exploration budget (plus a grace period) is over, queries
// answer "unknown" at once so that paths stuck in sequences of hard queries end promptly.
var solverDeadline atomic.Int64

func setSolverDeadline(t time.Time) { solverDeadline.Store(t.UnixNano()) }
var solverMode = "incremental"
var incrBudgetMs int64 = 30

type Solver struct {
	bin     string
	args    []string
	cmd     *exec.Cmd
	in      io.WriteCloser
	out     *bufio.Reader
	defined map[int64]bool
	declVar map[string]bool
	stack   []*Term
	timeout time.Duration
	log     io.Writer
	lastErr string
	fresh   *Solver
	isFresh bool
	incrMs  int64
}

func NewSolver(bin string, timeout time.Duration) *Solver {
	s := &Solver{bin: bin, timeout: timeout}
	s.start()
	return s
}

func (s *Solver) start() {
	var args []string
	switch {
	case strings.Contains(s.bin, "cvc5"):
		args = []string{"--incremental", "--lang=smt2", "--produce-models"}
	default:
		args = []string{"-in"}
	}
	s.cmd = exec.Command(s.bin, args...)
	var err error
	s.in, err = s.cmd.StdinPipe()
	if err != nil {
		panic(err)
	}
	o, err := s.cmd.StdoutPipe()
	if err != nil {
		panic(err)
	}
	s.cmd.Stderr = nil
	s.out = bufio.NewReaderSize(o, 1<<20)
	if err := s.cmd.Start(); err != nil {
		panic(err)
	}
	s.defined = map[int64]bool{}
	s.declVar = map[string]bool{}
	s.stack = nil
	if p := os.Getenv("VF_SOLVERLOG"); p != "" && s.log == nil {
		f, _ := os.Create(fmt.Sprintf("%s.%d", p, s.cmd.Process.Pid))
		s.log = f
	}
	if strings.Contains(s.bin, "cvc5") {
		s.send("(set-option :global-declarations true)\n(set-logic ALL)\n")
	} else {
		s.send("(set-option :global-declarations true)\n(set-option :produce-models true)\n")
		to := s.timeout.Milliseconds()
		if !s.isFresh && to > incrBudgetMs {
			to = incrBudgetMs
		}
		s.send(fmt.Sprintf("(set-option :timeout %d)\n", to))
	}
}

func (s *Solver) Close() {
	if s.fresh != nil {
		s.fresh.Close()
		s.fresh = nil
	}
	if s.cmd != nil && s.cmd.Process != nil {
		s.in.Close()
		s.cmd.Process.Kill()
		s.cmd.Wait()
		s.cmd = nil
	}
}

func (s *Solver) restart() {
	atomic.AddInt64(&gStats.Restarts, 1)
	f := s.fresh
	s.fresh = nil
	s.Close()
	s.fresh = f
	s.start()
}

func (s *Solver) send(txt string) {
	if s.log != nil {
		io.WriteString(s.log, txt)
	}
	io.WriteString(s.in, txt)
}

// define emits define-funs for every undefined non-leaf subterm of t.
func (s *Solver) define(t *Term, sb *strings.Builder) {
	if t.Op == OConst {
		return
	}
	if t.Op == OVar {
		if !s.declVar[t.Name] {
			s.declVar[t.Name] = true
			fmt.Fprintf(sb, "(declare-const |%s| %s)\n", t.Name, t.S)
		}
		return
	}
	if s.defined[t.ID] {
		return
	}
	// iterative post-order to avoid deep recursion
	type item struct {
		t *Term
		i int
	}
	st := []item{{t, 0}}
	for len(st) > 0 {
		top := &st[len(st)-1]
		if top.i < len(top.t.Args) {
			a := top.t.Args[top.i]
			top.i++
			if a.Op == OConst {
				continue
			}
			if a.Op == OVar {
				if !s.declVar[a.Name] {
					s.declVar[a.Name] = true
					fmt.Fprintf(sb, "(declare-const |%s| %s)\n", a.Name, a.S)
				}
				continue
			}
			if !s.defined[a.ID] {
				st = append(st, item{a, 0})
			}
			continue
		}
		tt := top.t
		if (tt.Op == OIBitLen || tt.Op == OITz) && top.i == len(tt.Args) {
			ex := expandLen(tt)
			top.i++
			if ex.Op != OConst && ex.Op != OVar && !s.defined[ex.ID] {
				st = append(st, item{ex, 0})
				continue
			}
		}
		st = st[:len(st)-1]
		if s.defined[tt.ID] {
			continue
		}
		s.defined[tt.ID] = true
		if tt.Op == OApp {
			if !s.declVar["uf:"+tt.Name] {
				s.declVar["uf:"+tt.Name] = true
				d, _ := ufDecls.Load(tt.Name)
				dd := d.(*UFDecl)
				var as []string
				for _, a := range dd.Args {
					as = append(as, a.String())
				}
				fmt.Fprintf(sb, "(declare-fun |%s| (%s) %s)\n", tt.Name, strings.Join(as, " "), dd.Ret)
			}
		}
		fmt.Fprintf(sb, "(define-fun t%d () %s %s)\n", tt.ID, tt.S, tt.body())
	}
}

// syncTo makes the solver's assertion stack equal to pc.
func (s *Solver) syncTo(pc []*Term) {
	n := 0
	for n < len(pc) && n < len(s.stack) && pc[n] == s.stack[n] {
		n++
	}
	var sb strings.Builder
	if len(s.stack) > n {
		fmt.Fprintf(&sb, "(pop %d)\n", len(s.stack)-n)
		s.stack = s.stack[:n]
	}
	for _, t := range pc[n:] {
		s.define(t, &sb)
		fmt.Fprintf(&sb, "(push 1)\n(assert %s)\n", t.ref())
		s.stack = append(s.stack, t)
	}
	if sb.Len() > 0 {
		s.send(sb.String())
	}
}

func (s *Solver) readLine() (string, error) {
	type res struct {
		l   string
		err error
	}
	ch := make(chan res, 1)
	go func() {
		l, err := s.out.ReadString('\n')
		ch <- res{l, err}
	}()
	select {
	case r := <-ch:
		return strings.TrimSpace(r.l), r.err
	case <-time.After(s.hardLimit()):
		return "", fmt.Errorf("hard timeout")
	}
}

// Check returns "sat", "unsat" or "unknown" for pc ∧ extra.
func (s *Solver) Check(pc []*Term, extra *Term) string {
	r, _ := s.CheckModel(pc, extra, nil)
	return r
}

// CheckModel additionally returns values for vars when sat.
func (s *Solver) CheckModel(pc []*Term, extra *Term, vars []*Term) (string, map[string]*big.Int) {
	if extra != nil && extra.IsFalse() {
		return "unsat", nil
	}
	if d := solverDeadline.Load(); d != 0 && time.Now().UnixNano() > d {
		return "unknown", nil
	}
	t0 := time.Now()
	defer func() {
		atomic.AddInt64(&gStats.Queries, 1)
		atomic.AddInt64(&gStats.Nanos, int64(time.Since(t0)))
	}()
	r, m := s.checkIncr(pc, extra, vars)
	if r != "unknown" {
		return r, m
	}
	// the incremental core gave up within its short budget: decide the query afresh
	// (non-incremental, so that z3 can use its bit-blasting tactic pipeline)
	atomic.AddInt64(&gStats.Fresh, 1)
	if s.fresh == nil {
		s.fresh = &Solver{bin: s.bin, timeout: s.timeout, isFresh: true}
		s.fresh.start()
	}
	short := s.timeout
	if short > 10*time.Second {
		short = 10 * time.Second
	}
	r, m = s.fresh.checkFresh(pc, extra, vars, short)
	if r == "unknown" && !strings.Contains(s.bin, "cvc5") {
		// portfolio: cvc5 decides some bit-vector multiplication/comparison queries in seconds
		// on which z3 does not finish
		if r2, m2 := checkCvc5(pc, extra, vars, s.timeout); r2 != "unknown" {
			atomic.AddInt64(&gStats.Cvc5, 1)
			return r2, m2
		}
	}
	if r == "unknown" && short < s.timeout {
		r, m = s.fresh.checkFresh(pc, extra, vars, s.timeout)
	}
	if r == "unknown" {
		atomic.AddInt64(&gStats.Unknown, 1)
	}
	return r, m
}

// checkCvc5 decides one query with a one-shot cvc5 process.
func checkCvc5(pc []*Term, extra *Term, vars []*Term, timeout time.Duration) (string, map[string]*big.Int) {
	bin, err := exec.LookPath("cvc5")
	if err != nil {
		return "unknown", nil
	}
	tmp := &Solver{defined: map[int64]bool{}, declVar: map[string]bool{}}
	var sb strings.Builder
	sb.WriteString("(set-logic ALL)\n(set-option :produce-models true)\n")
	for _, t := range pc {
		tmp.define(t, &sb)
		fmt.Fprintf(&sb, "(assert %s)\n", t.ref())
	}
	if extra != nil {
		tmp.define(extra, &sb)
		fmt.Fprintf(&sb, "(assert %s)\n", extra.ref())
	}
	for _, v := range vars {
		tmp.define(v, &sb)
	}
	sb.WriteString("(check-sat)\n")
	if len(vars) > 0 {
		sb.WriteString("(get-value (")
		for _, v := range vars {
			sb.WriteString(v.ref())
			sb.WriteByte(' ')
		}
		sb.WriteString("))\n")
	}
	if timeout > 60*time.Second {
		timeout = 60 * time.Second
	}
	cmd := exec.Command(bin, "--lang=smt2", fmt.Sprintf("--tlimit=%d", timeout.Milliseconds()))
	cmd.Stdin = strings.NewReader(sb.String())
	out, _ := cmd.Output()
	txt := string(out)
	lines := strings.SplitN(strings.TrimSpace(txt), "\n", 2)
	if strings.HasPrefix(strings.TrimSpace(lines[0]), "(error") || (strings.TrimSpace(lines[0]) == "sat" && strings.Contains(txt, "(error")) {
		return "unknown", nil
	}
	switch strings.TrimSpace(lines[0]) {
	case "unsat":
		atomic.AddInt64(&gStats.Unsat, 1)
		return "unsat", nil
	case "sat":
		if len(vars) > 0 {
			if len(lines) < 2 {
				return "unknown", nil
			}
			m := parseModel(lines[1], vars)
			if len(m) == 0 {
				return "unknown", nil
			}
			atomic.AddInt64(&gStats.Sat, 1)
			return "sat", m
		}
		atomic.AddInt64(&gStats.Sat, 1)
		return "sat", map[string]*big.Int{}
	}
	return "unknown", nil
}

func (s *Solver) checkFresh(pc []*Term, extra *Term, vars []*Term, budget time.Duration) (string, map[string]*big.Int) {
	s.defined = map[int64]bool{}
	s.declVar = map[string]bool{}
	var sb strings.Builder
	sb.WriteString("(reset)\n(set-option :produce-models true)\n")
	fmt.Fprintf(&sb, "(set-option :timeout %d)\n", budget.Milliseconds())
	for _, t := range pc {
		s.define(t, &sb)
		fmt.Fprintf(&sb, "(assert %s)\n", t.ref())
	}
	if extra != nil {
		s.define(extra, &sb)
		fmt.Fprintf(&sb, "(assert %s)\n", extra.ref())
	}
	for _, v := range vars {
		s.define(v, &sb)
	}
	sb.WriteString("(check-sat)\n")
	s.send(sb.String())
	res := ""
	for {
		l, err := s.readLine()
		if err != nil {
			s.lastErr = err.Error()
			s.restart()
			return "unknown", nil
		}
		if l == "" {
			continue
		}
		if strings.HasPrefix(l, "(error") {
			s.lastErr = l
			s.restart()
			return "unknown", nil
		}
		if l == "sat" || l == "unsat" || l == "unknown" || l == "timeout" {
			res = l
			break
		}
	}
	if res == "timeout" {
		res = "unknown"
	}
	var model map[string]*big.Int
	if res == "sat" && len(vars) > 0 {
		var q strings.Builder
		q.WriteString("(get-value (")
		for _, v := range vars {
			q.WriteString(v.ref())
			q.WriteByte(' ')
		}
		q.WriteString("))\n")
		s.send(q.String())
		txt, err := s.readSexp()
		if err != nil {
			s.lastErr = err.Error()
			s.restart()
			return "unknown", nil
		}
		model = parseModel(txt, vars)
	}
	switch res {
	case "sat":
		atomic.AddInt64(&gStats.Sat, 1)
	case "unsat":
		atomic.AddInt64(&gStats.Unsat, 1)
	}
	return res, model
}

func (s *Solver) checkIncr(pc []*Term, extra *Term, vars []*Term) (string, map[string]*big.Int) {
	var sb strings.Builder
	if solverMode == "reset" {
		s.defined = map[int64]bool{}
		s.declVar = map[string]bool{}
		s.stack = nil
		sb.WriteString("(reset)\n(set-option :produce-models true)\n")
		fmt.Fprintf(&sb, "(set-option :timeout %d)\n", s.timeout.Milliseconds())
		for _, t := range pc {
			s.define(t, &sb)
			fmt.Fprintf(&sb, "(assert %s)\n", t.ref())
		}
	} else {
		s.syncTo(pc)
	}
	if extra != nil {
		s.define(extra, &sb)
	}
	for _, v := range vars {
		s.define(v, &sb)
	}
	sb.WriteString("(push 1)\n")
	if extra != nil {
		fmt.Fprintf(&sb, "(assert %s)\n", extra.ref())
	}
	sb.WriteString("(check-sat)\n")
	s.send(sb.String())
	res := ""
	for {
		l, err := s.readLine()
		if err != nil {
			s.lastErr = err.Error()
			s.restart()
			return "unknown", nil
		}
		if l == "" {
			continue
		}
		if strings.HasPrefix(l, "(error") {
			s.lastErr = l
			// drain: after error, result still might come; treat as unknown and restart for safety
			s.restart()
			return "unknown", nil
		}
		if l == "sat" || l == "unsat" || l == "unknown" || l == "timeout" {
			res = l
			break
		}
	}
	if res == "timeout" {
		res = "unknown"
	}
	var model map[string]*big.Int
	if res == "sat" && len(vars) > 0 {
		var q strings.Builder
		q.WriteString("(get-value (")
		for _, v := range vars {
			q.WriteString(v.ref())
			q.WriteByte(' ')
		}
		q.WriteString("))\n")
		s.send(q.String())
		txt, err := s.readSexp()
		if err != nil {
			s.lastErr = err.Error()
			s.restart()
			return "unknown", nil
		}
		model = parseModel(txt, vars)
	}
	s.send("(pop 1)\n")
	switch res {
	case "sat":
		atomic.AddInt64(&gStats.Sat, 1)
	case "unsat":
		atomic.AddInt64(&gStats.Unsat, 1)
	}
	return res, model
}

// readSexp reads one balanced s-expression from the solver.
func (s *Solver) readSexp() (string, error) {
	var sb strings.Builder
	depth := 0
	started := false
	for {
		l, err := s.readLine()
		if err != nil {
			return "", err
		}
		if strings.HasPrefix(l, "(error") {
			return "", fmt.Errorf("%s", l)
		}
		inBar := false
		for _, c := range l {
			if c == '|' {
				inBar = !inBar
			}
			if inBar {
				continue
			}
			if c == '(' {
				depth++
				started = true
			} else if c == ')' {
				depth--
			}
		}
		sb.WriteString(l)
		sb.WriteByte(' ')
		if started && depth == 0 {
			return sb.String(), nil
		}
	}
}

// parseModel parses "((ref val) (ref val) ...)" in the order of vars.
func parseModel(txt string, vars []*Term) map[string]*big.Int {
	toks := tokenize(txt)
	pos := 0
	var parse func() interface{}
	parse = func() interface{} {
		if pos >= len(toks) {
			return nil
		}
		t := toks[pos]
		pos++
		if t == "(" {
			var l []interface{}
			for pos < len(toks) && toks[pos] != ")" {
				l = append(l, parse())
			}
			pos++
			return l
		}
		return t
	}
	root, _ := parse().([]interface{})
	m := map[string]*big.Int{}
	for i, e := range root {
		if i >= len(vars) {
			break
		}
		pair, ok := e.([]interface{})
		if !ok || len(pair) != 2 {
			continue
		}
		v := sexpValue(pair[1])
		if v != nil {
			m[vars[i].Name] = v
		}
	}
	return m
}

func tokenize(s string) []string {
	var toks []string
	i := 0
	for i < len(s) {
		c := s[i]
		switch {
		case c == ' ' || c == '\t' || c == '\n' || c == '\r':
			i++
		case c == '(' || c == ')':
			toks = append(toks, string(c))
			i++
		case c == '|':
			j := i + 1
			for j < len(s) && s[j] != '|' {
				j++
			}
			toks = append(toks, s[i:j+1])
			i = j + 1
		default:
			j := i
			for j < len(s) && !strings.ContainsRune(" \t\n\r()", rune(s[j])) {
				j++
			}
			toks = append(toks, s[i:j])
			i = j
		}
	}
	return toks
}

func sexpValue(e interface{}) *big.Int {
	switch v := e.(type) {
	case string:
		switch {
		case v == "true":
			return big.NewInt(1)
		case v == "false":
			return big.NewInt(0)
		case strings.HasPrefix(v, "#x"):
			r, _ := new(big.Int).SetString(v[2:], 16)
			return r
		case strings.HasPrefix(v, "#b"):
			r, _ := new(big.Int).SetString(v[2:], 2)
			return r
		default:
			r, ok := new(big.Int).SetString(v, 10)
			if ok {
				return r
			}
		}
	case []interface{}:
		// (- n)  or (_ bvN w)
		if len(v) == 2 {
			if op, ok := v[0].(string); ok && op == "-" {
				r := sexpValue(v[1])
				if r != nil {
					return new(big.Int).Neg(r)
				}
			}
		}
		if len(v) == 3 {
			if op, ok := v[0].(string); ok && op == "_" {
				if n, ok := v[1].(string); ok && strings.HasPrefix(n, "bv") {
					r, _ := new(big.Int).SetString(n[2:], 10)
					return r
				}
			}
		}
	}
	return nil
}

func (s *Solver) hardLimit() time.Duration {
	if !s.isFresh {
		return time.Duration(incrBudgetMs)*time.Millisecond + 5*time.Second
	}
	return s.timeout + 5*time.Second
}
