package main

// rtTemplate is the native runtime of the harness intrinsics. It is compiled into the
// package under test (through an overlay) both for the engine (bodies ignored: the
// engine intercepts the calls) and for native replay (bodies used).
const rtTemplate = `package PKG

import (
	vfjson "encoding/json"
	vffmt "fmt"
	vfbig "math/big"
	vfos "os"
	vfdebug "runtime/debug"
	vfstrconv "strconv"
	vfhex "encoding/hex"
	vftime "time"
)

type vfCase struct {
	Harness string            ` + "`json:\"harness\"`" + `
	Tier    int               ` + "`json:\"tier\"`" + `
	Inputs  map[string]string ` + "`json:\"inputs\"`" + `
	ID      string            ` + "`json:\"id\"`" + `
}

type vfResult struct {
	ID           string   ` + "`json:\"id\"`" + `
	Harness      string   ` + "`json:\"harness\"`" + `
	Reached      []string ` + "`json:\"reached\"`" + `
	Failed       []string ` + "`json:\"failed\"`" + `
	AssumeFailed bool     ` + "`json:\"assume_failed\"`" + `
	MissingInput string   ` + "`json:\"missing_input\"`" + `
	Panic        string   ` + "`json:\"panic\"`" + `
	Timeout      bool     ` + "`json:\"timeout\"`" + `
	Notes        []string ` + "`json:\"notes\"`" + `
}

type vfRtStop struct{ why string }

var vfRtCur *vfCase
var vfRtRes *vfResult
var vfRtCnt map[string]int

func vfRtName(name string) string {
	vfRtCnt[name]++
	if c := vfRtCnt[name]; c > 1 {
		return name + "#" + vfstrconv.Itoa(c)
	}
	return name
}

func vfRtInput(name string) string {
	n := vfRtName(name)
	v, ok := vfRtCur.Inputs[n]
	if !ok {
		vfRtRes.MissingInput = n
		panic(vfRtStop{"missing input " + n})
	}
	return v
}

func vfRtUint(name string, bits int) uint64 {
	s := vfRtInput(name)
	v, err := vfstrconv.ParseUint(s, 10, bits)
	if err != nil {
		// maybe negative for signed
		i, err2 := vfstrconv.ParseInt(s, 10, 64)
		if err2 != nil {
			panic(vfRtStop{"bad input " + name + "=" + s})
		}
		return uint64(i)
	}
	return v
}

func vfU8(name string) uint8   { return uint8(vfRtUint(name, 8)) }
func vfU16(name string) uint16 { return uint16(vfRtUint(name, 16)) }
func vfU32(name string) uint32 { return uint32(vfRtUint(name, 32)) }
func vfU64(name string) uint64 { return vfRtUint(name, 64) }
func vfI64(name string) int64 {
	s := vfRtInput(name)
	i, err := vfstrconv.ParseInt(s, 10, 64)
	if err != nil {
		panic(vfRtStop{"bad input " + name + "=" + s})
	}
	return i
}
func vfI32(name string) int32 { return int32(vfI64(name)) }
func vfInt(name string) int   { return int(vfI64(name)) }
func vfBool(name string) bool { return vfRtInput(name) == "1" }
func vfBytes(name string, n int) []byte {
	s := vfRtInput(name)
	b, err := vfhex.DecodeString(s)
	if err != nil || len(b) != n {
		panic(vfRtStop{"bad bytes input " + name})
	}
	return b
}
func vfBig(name string, bits int) *vfbig.Int {
	s := vfRtInput(name)
	v, ok := new(vfbig.Int).SetString(s, 10)
	if !ok {
		panic(vfRtStop{"bad big input " + name})
	}
	return v
}
func vfChoose(name string, lo, hi int) int {
	s := vfRtInput(name)
	i, _ := vfstrconv.Atoi(s)
	return i
}
func vfConcrete(x int, lo, hi int) int { return x }
func vfAssume(c bool) {
	if !c {
		vfRtRes.AssumeFailed = true
		panic(vfRtStop{"assumption not met"})
	}
}
func vfAssert(c bool, id string) {
	vfRtRes.Reached = append(vfRtRes.Reached, "assert:"+id)
	if !c {
		vfRtRes.Failed = append(vfRtRes.Failed, id)
	}
}
func vfFail(id string) {
	vfRtRes.Reached = append(vfRtRes.Reached, "assert:"+id)
	vfRtRes.Failed = append(vfRtRes.Failed, id)
}
func vfKnown(sig string, c bool) {}
func vfCover(id string)          { vfRtRes.Reached = append(vfRtRes.Reached, id) }
func vfSymbolic() bool           { return false }
func vfYield()                   {}
func vfQuiesce()                 { vftime.Sleep(30 * vftime.Millisecond) }
func vfFreeze(x any)             {}
func vfThaw(x any)               {}
func vfTier() int                { return vfRtCur.Tier }
func vfAnd(a, b bool) bool       { return a && b }
func vfOr(a, b bool) bool        { return a || b }
func vfImplies(a, b bool) bool   { return !a || b }
func vfIteInt(c bool, a, b int) int {
	if c {
		return a
	}
	return b
}
func vfIteU64(c bool, a, b uint64) uint64 {
	if c {
		return a
	}
	return b
}
func vfNote(k string, v any) {
	var s string
	switch x := v.(type) {
	case nil:
		s = "<nil>"
	case string:
		s = vffmt.Sprintf("%q", x)
	case *vfbig.Int:
		if x == nil {
			s = "<nilptr>"
		} else {
			s = x.String()
		}
	default:
		s = vffmt.Sprintf("%v", v)
	}
	vfRtRes.Notes = append(vfRtRes.Notes, k+"="+s)
}

func vfRtExec(c *vfCase, fn func()) (res *vfResult) {
	res = &vfResult{ID: c.ID, Harness: c.Harness}
	vfRtCur, vfRtRes, vfRtCnt = c, res, map[string]int{}
	done := make(chan struct{})
	go func() {
		defer close(done)
		defer func() {
			if r := recover(); r != nil {
				if _, ok := r.(vfRtStop); ok {
					return
				}
				res.Panic = vffmt.Sprintf("%v\n%s", r, vfdebug.Stack())
			}
		}()
		fn()
	}()
	select {
	case <-done:
	case <-vftime.After(20 * vftime.Second):
		res.Timeout = true
	}
	return res
}

type vfTB interface {
	Fatalf(format string, args ...any)
	Logf(format string, args ...any)
}

func vfReplayMain(t vfTB, hs map[string]func()) {
	path := vfos.Getenv("VF_REPLAY")
	if path == "" {
		return
	}
	data, err := vfos.ReadFile(path)
	if err != nil {
		t.Fatalf("read replay: %v", err)
	}
	var cases []*vfCase
	if err := vfjson.Unmarshal(data, &cases); err != nil {
		var one vfCase
		if err2 := vfjson.Unmarshal(data, &one); err2 != nil {
			t.Fatalf("parse replay: %v", err)
		}
		cases = []*vfCase{&one}
	}
	var out []*vfResult
	for _, c := range cases {
		fn, ok := hs[c.Harness]
		if !ok {
			out = append(out, &vfResult{ID: c.ID, Harness: c.Harness, Panic: "unknown harness"})
			continue
		}
		r := vfRtExec(c, fn)
		out = append(out, r)
		if r.Timeout {
			break // a hung goroutine may keep interfering
		}
	}
	js, _ := vfjson.MarshalIndent(out, "", " ")
	if rp := vfos.Getenv("VF_RESULT"); rp != "" {
		vfos.WriteFile(rp, js, 0o644)
	} else {
		t.Logf("%s", js)
	}
}
`

// modelSource is a small package of Go models for library functions that the engine
// cannot execute from their real bodies (reflection, assembly). They are interpreted
// symbolically like any other code.
const modelSource = `package vfmodel

import (
	"crypto/elliptic"
	"crypto/sha256"
	"hash"
	"math/big"
	"reflect"

	"github.com/decred/dcrd/crypto/ripemd160"
)

var _ = reflect.TypeOf

// Curve is an opaque stand-in for the value of elliptic.P256() (identity only; the
// curve arithmetic is outside what the engine encodes).
type Curve struct{}

func (Curve) Params() *elliptic.CurveParams                          { panic("vfmodel: curve arithmetic not modelled") }
func (Curve) IsOnCurve(x, y *big.Int) bool                           { panic("vfmodel: curve arithmetic not modelled") }
func (Curve) Add(x1, y1, x2, y2 *big.Int) (*big.Int, *big.Int)       { panic("vfmodel: curve arithmetic not modelled") }
func (Curve) Double(x1, y1 *big.Int) (*big.Int, *big.Int)            { panic("vfmodel: curve arithmetic not modelled") }
func (Curve) ScalarMult(x1, y1 *big.Int, k []byte) (*big.Int, *big.Int) { panic("vfmodel: curve arithmetic not modelled") }
func (Curve) ScalarBaseMult(k []byte) (*big.Int, *big.Int)           { panic("vfmodel: curve arithmetic not modelled") }
func P256() elliptic.Curve                                           { return Curve{} }

func vfSha256(b []byte) [32]byte { return sha256.Sum256(b) }
func vfRipemd160(b []byte) (r [20]byte) {
	h := ripemd160.New()
	h.Write(b)
	h.Sum(r[:0])
	return
}

// Sha256 models crypto/sha256's streaming digest: it collects the input and applies
// the (uninterpreted) hash function at Sum.
type Sha256 struct{ buf []byte }

func (s *Sha256) Write(p []byte) (int, error) { s.buf = append(s.buf, p...); return len(p), nil }
func (s *Sha256) Sum(b []byte) []byte {
	h := vfSha256(s.buf)
	return append(b, h[:]...)
}
func (s *Sha256) Reset()         { s.buf = nil }
func (s *Sha256) Size() int      { return 32 }
func (s *Sha256) BlockSize() int { return 64 }
func NewSha256() hash.Hash       { return &Sha256{} }
func Sum256(b []byte) [32]byte   { return vfSha256(b) }

type Ripemd160 struct{ buf []byte }

func (s *Ripemd160) Write(p []byte) (int, error) { s.buf = append(s.buf, p...); return len(p), nil }
func (s *Ripemd160) Sum(b []byte) []byte {
	h := vfRipemd160(s.buf)
	return append(b, h[:]...)
}
func (s *Ripemd160) Reset()         { s.buf = nil }
func (s *Ripemd160) Size() int      { return 20 }
func (s *Ripemd160) BlockSize() int { return 64 }
func NewRipemd160() hash.Hash       { return &Ripemd160{} }

func vfLen(x any) int        { return reflect.ValueOf(x).Len() }
func vfSwap(x any, i, j int) { reflect.Swapper(x)(i, j) }
func vfAssignable(err error, target any) bool {
	return reflect.TypeOf(err).AssignableTo(reflect.TypeOf(target).Elem())
}
func vfAssignTo(err error, target any) {
	reflect.ValueOf(target).Elem().Set(reflect.ValueOf(err))
}

// SortSlice models sort.Slice and sort.SliceStable by a stable insertion sort.
func SortSlice(x any, less func(i, j int) bool) {
	n := vfLen(x)
	for i := 1; i < n; i++ {
		for j := i; j > 0 && less(j, j-1); j-- {
			vfSwap(x, j, j-1)
		}
	}
}

// ErrorsIs models errors.Is.
func ErrorsIs(err, target error) bool {
	if err == nil || target == nil {
		return err == target
	}
	for {
		if err == target {
			return true
		}
		if x, ok := err.(interface{ Is(error) bool }); ok && x.Is(target) {
			return true
		}
		switch x := err.(type) {
		case interface{ Unwrap() error }:
			err = x.Unwrap()
			if err == nil {
				return false
			}
		case interface{ Unwrap() []error }:
			for _, e := range x.Unwrap() {
				if ErrorsIs(e, target) {
					return true
				}
			}
			return false
		default:
			return false
		}
	}
}

// ErrorsAs models errors.As.
func ErrorsAs(err error, target any) bool {
	if err == nil {
		return false
	}
	for {
		if vfAssignable(err, target) {
			vfAssignTo(err, target)
			return true
		}
		if x, ok := err.(interface{ As(any) bool }); ok && x.As(target) {
			return true
		}
		switch x := err.(type) {
		case interface{ Unwrap() error }:
			err = x.Unwrap()
			if err == nil {
				return false
			}
		case interface{ Unwrap() []error }:
			for _, e := range x.Unwrap() {
				if e == nil {
					continue
				}
				if ErrorsAs(e, target) {
					return true
				}
			}
			return false
		default:
			return false
		}
	}
}
`
