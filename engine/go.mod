module vf/engine

go 1.25.0

require (
	github.com/decred/dcrd/crypto/ripemd160 v1.0.2
	golang.org/x/tools v0.44.0
)

require (
	golang.org/x/mod v0.35.0 // indirect
	golang.org/x/sync v0.20.0 // indirect
)
